// bvh — library shared by the per-property harness binaries (src/bin/*.rs).
// Protocol of every binary: one JSON case per stdin line, one JSON result per stdout line.
use std::io::{BufRead, Write};
use std::panic::{catch_unwind, AssertUnwindSafe};

use serde_json::{json, Value};

pub mod scan;
pub mod util;

pub fn panic_message(e: &(dyn std::any::Any + Send)) -> String {
    if let Some(s) = e.downcast_ref::<String>() {
        s.clone()
    } else if let Some(s) = e.downcast_ref::<&str>() {
        (*s).to_string()
    } else {
        "panic".to_string()
    }
}

/// Main loop: apply `f` to each case, catching panics (reported as {"panic": msg}).
pub fn run_main<F: Fn(&Value) -> Value>(f: F) {
    std::panic::set_hook(Box::new(|_| {}));
    let stdin = std::io::stdin();
    let stdout = std::io::stdout();
    for line in stdin.lock().lines() {
        let Ok(line) = line else { break };
        if line.trim().is_empty() {
            continue;
        }
        let case: Value = match serde_json::from_str(&line) {
            Ok(v) => v,
            Err(e) => {
                println!("{}", json!({"error": format!("bad json: {e}")}));
                continue;
            }
        };
        let out = match catch_unwind(AssertUnwindSafe(|| f(&case))) {
            Ok(v) => v,
            Err(e) => json!({"panic": panic_message(&*e)}),
        };
        let mut o = stdout.lock();
        let _ = writeln!(o, "{out}");
        let _ = o.flush();
    }
}
