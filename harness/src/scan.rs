// Generic "compile rules + scan input" driver shared by the property binaries.
//
// Case JSON (all optional unless said):
//   rules:    [{"ns": null|"name", "src": "<yara text>"} | {"ns":.., "file": path}]   (required)
//   profile:  "speed" | "memory"
//   cparams:  {max_condition_depth, max_strings_per_rule, disable_includes, fail_on_warnings,
//              parse_expression_recursion_limit, parse_string_recursion_limit}
//   rules[i].expect_error: bool   the text must be refused; the compiler is used further
//   csymbols: [{"name":..., "int":n | "bool":b | "bytes":hex | "float":f}]   compiler define_symbol
//   params:   {compute_full_matches, match_max_length, string_max_nb_matches, include_not_matched,
//              process_memory, max_fetched_region_size, memory_chunk_size, mode: "legacy"|"fast"|"single_pass",
//              events: bitmask, statistics: bool}
//   serialize_roundtrip: bool   (to_bytes / from_bytes before scanning)
//   input:    {"mem": hex} | {"regions": [{"start": n, "hex": .., "fail": bool, "short": n?}]} | {"file": path}
//             | {"mmap": path}
//   api:      "list" | "callback"
//   console:  bool   add the console module; messages logged during the scan are returned in "logs"
//   abort_at: k        callback returns Abort at its k-th event (1-based)
//   timeout_at: j      the j-th timeout check fires (needs hook); count_checks: bool counts the checks
//   timeout_once: bool only the j-th check fires (later ones do not), as the clock-based checker may do
//
// Result JSON:
//   {"compile_error": "<text>"} or
//   {"error": null|"Timeout"|"CallbackAbort"|..., "rules": [...], "events": [...], "checks": n,
//    "chunks": nb_memory_chunks}
use std::sync::{Arc, Mutex};

use boreal::compiler::{CompilerBuilder, CompilerParams, CompilerProfile};
use boreal::memory::{FragmentedMemory, MemoryParams, Region, RegionDescription};
use boreal::scanner::{
    CallbackEvents, EvaluatedRule, FragmentedScanMode, ScanCallbackResult, ScanError, ScanEvent, ScanParams,
    ScanResult,
};
use boreal::{Compiler, Scanner};
use serde_json::{json, Value};

use crate::util::*;

#[derive(Debug)]
pub struct Regions {
    pub regions: Vec<(usize, Vec<u8>, bool, Option<usize>)>, // start, bytes, fetch fails, described length override
    pub cur: Option<usize>,
    pub log: Arc<Mutex<Vec<String>>>,
}

impl FragmentedMemory for Regions {
    fn next(&mut self, _params: &MemoryParams) -> Option<RegionDescription> {
        let n = match self.cur {
            None => 0,
            Some(i) => i + 1,
        };
        self.cur = Some(n);
        self.regions.get(n).map(|r| RegionDescription {
            start: r.0,
            length: r.3.unwrap_or(r.1.len()),
        })
    }
    fn fetch(&mut self, _params: &MemoryParams) -> Option<Region<'_>> {
        let r = self.regions.get(self.cur?)?;
        if r.2 {
            return None;
        }
        Some(Region { start: r.0, mem: &r.1 })
    }
    fn reset(&mut self) {
        self.cur = None;
    }
}

thread_local! {
    /// Messages logged by the console module during the scans of this thread (`"console": true`).
    pub static CONSOLE_LOGS: std::cell::RefCell<Arc<Mutex<Vec<String>>>> =
        std::cell::RefCell::new(Arc::new(Mutex::new(Vec::new())));
}

pub fn take_console_logs() -> Vec<String> {
    CONSOLE_LOGS.with(|l| std::mem::take(&mut *l.borrow().lock().unwrap()))
}

pub fn build_compiler(case: &Value) -> Compiler {
    let mut b = CompilerBuilder::new();
    if get_bool(case, "console") {
        let logs = CONSOLE_LOGS.with(|l| l.borrow().clone());
        b = b.add_module(boreal::module::Console::with_callback(move |s| {
            logs.lock().unwrap().push(s);
        }));
    }
    if case["profile"].as_str() == Some("memory") {
        b = b.profile(CompilerProfile::Memory);
    }
    let mut c = b.build();
    let cp = &case["cparams"];
    if cp.is_object() {
        let mut p = CompilerParams::default();
        if let Some(v) = cp["max_condition_depth"].as_u64() {
            p = p.max_condition_depth(v as u32);
        }
        if let Some(v) = cp["max_strings_per_rule"].as_u64() {
            p = p.max_strings_per_rule(v as usize);
        }
        if let Some(v) = cp["disable_includes"].as_bool() {
            p = p.disable_includes(v);
        }
        if let Some(v) = cp["fail_on_warnings"].as_bool() {
            p = p.fail_on_warnings(v);
        }
        if let Some(v) = cp["compute_statistics"].as_bool() {
            p = p.compute_statistics(v);
        }
        if let Some(v) = cp["parse_expression_recursion_limit"].as_u64() {
            p = p.parse_expression_recursion_limit(v as u8);
        }
        if let Some(v) = cp["parse_string_recursion_limit"].as_u64() {
            p = p.parse_string_recursion_limit(v as u8);
        }
        c.set_params(p);
    }
    if let Some(syms) = case["csymbols"].as_array() {
        for s in syms {
            let name = get_str(s, "name");
            if let Some(v) = s["int"].as_i64() {
                let _ = c.define_symbol(name, v);
            } else if let Some(v) = s["bool"].as_bool() {
                let _ = c.define_symbol(name, v);
            } else if let Some(v) = s["float"].as_f64() {
                let _ = c.define_symbol(name, v);
            } else if let Some(v) = s["bytes"].as_str() {
                let _ = c.define_symbol(name, unhex(v));
            }
        }
    }
    c
}

/// Add the rules of the case; returns the first error text.
pub fn add_rules(c: &mut Compiler, case: &Value) -> Result<(), String> {
    for r in case["rules"].as_array().expect("rules") {
        let ns = r["ns"].as_str();
        let res = if let Some(src) = r["src"].as_str() {
            match ns {
                Some(ns) => c.add_rules_str_in_namespace(src, ns),
                None => c.add_rules_str(src),
            }
        } else {
            let path = get_str(r, "file");
            match ns {
                Some(ns) => c.add_rules_file_in_namespace(path, ns),
                None => c.add_rules_file(path),
            }
        };
        // a text that the compiler must refuse (the compiler goes on being used afterwards)
        if get_bool(r, "expect_error") {
            if res.is_ok() {
                return Err("a text meant to be refused was accepted".to_string());
            }
            continue;
        }
        if let Err(e) = res {
            return Err(format!("{e}"));
        }
    }
    Ok(())
}

pub fn build_params(p: &Value) -> ScanParams {
    let mut sp = ScanParams::default();
    if !p.is_object() {
        return sp;
    }
    if let Some(v) = p["compute_full_matches"].as_bool() {
        sp = sp.compute_full_matches(v);
    }
    if let Some(v) = p["match_max_length"].as_u64() {
        sp = sp.match_max_length(v as usize);
    }
    if let Some(v) = p["string_max_nb_matches"].as_u64() {
        sp = sp.string_max_nb_matches(v as u32);
    }
    if let Some(v) = p["include_not_matched"].as_bool() {
        sp = sp.include_not_matched_rules(v);
    }
    if let Some(v) = p["process_memory"].as_bool() {
        sp = sp.process_memory(v);
    }
    if let Some(v) = p["max_fetched_region_size"].as_u64() {
        sp = sp.max_fetched_region_size(v as usize);
    }
    if let Some(v) = p["memory_chunk_size"].as_u64() {
        sp = sp.memory_chunk_size(Some(v as usize));
    }
    if let Some(v) = p["statistics"].as_bool() {
        sp = sp.compute_statistics(v);
    }
    match p["mode"].as_str() {
        Some("fast") => sp = sp.fragmented_scan_mode(FragmentedScanMode::fast()),
        Some("single_pass") => sp = sp.fragmented_scan_mode(FragmentedScanMode::single_pass()),
        Some("legacy") => sp = sp.fragmented_scan_mode(FragmentedScanMode::legacy()),
        _ => (),
    }
    if let Some(v) = p["events"].as_u64() {
        let mut ev = CallbackEvents::empty();
        for (bit, flag) in [
            (1, CallbackEvents::RULE_MATCH),
            (2, CallbackEvents::RULE_NO_MATCH),
            (4, CallbackEvents::MODULE_IMPORT),
            (8, CallbackEvents::SCAN_STATISTICS),
            (16, CallbackEvents::STRING_REACHED_MATCH_LIMIT),
        ] {
            if v & bit != 0 {
                ev |= flag;
            }
        }
        sp = sp.callback_events(ev);
    }
    sp
}

pub fn rule_json(r: &EvaluatedRule) -> Value {
    json!({
        "ns": r.namespace,
        "name": r.name,
        "matched": r.matched,
        "strings": r.matches.iter().map(|s| json!({
            "name": s.name,
            "xor": s.has_xor_modifier,
            "matches": s.matches.iter().map(|m| json!({
                "base": m.base, "offset": m.offset, "length": m.length,
                "key": m.xor_key, "data": hex(&m.data)})).collect::<Vec<_>>()
        })).collect::<Vec<_>>()
    })
}

pub fn error_name(e: &ScanError) -> String {
    match e {
        ScanError::Timeout => "Timeout".into(),
        ScanError::CallbackAbort => "CallbackAbort".into(),
        ScanError::CannotReadFile(_) => "CannotReadFile".into(),
        other => format!("{other:?}"),
    }
}

pub fn make_regions(input: &Value) -> Regions {
    Regions {
        regions: input["regions"]
            .as_array()
            .unwrap()
            .iter()
            .map(|r| {
                (
                    get_usize(r, "start"),
                    get_bytes(r, "hex"),
                    get_bool(r, "fail"),
                    get_opt_usize(r, "described"),
                )
            })
            .collect(),
        cur: None,
        log: Arc::new(Mutex::new(Vec::new())),
    }
}

pub fn compile(case: &Value) -> Result<Scanner, String> {
    let mut c = build_compiler(case);
    add_rules(&mut c, case)?;
    let mut scanner = c.finalize();
    if get_bool(case, "serialize_roundtrip") {
        let mut buf = Vec::new();
        scanner.to_bytes(&mut buf).map_err(|e| format!("to_bytes: {e}"))?;
        scanner = Scanner::from_bytes_unchecked(&buf, boreal::scanner::DeserializeParams::default())
            .map_err(|e| format!("from_bytes: {e}"))?;
    }
    scanner.set_scan_params(build_params(&case["params"]));
    Ok(scanner)
}

fn list_result(res: Result<ScanResult, (ScanError, ScanResult)>) -> Value {
    let (err, r) = match res {
        Ok(r) => (None, r),
        Err((e, r)) => (Some(error_name(&e)), r),
    };
    let chunks = r.statistics.as_ref().map(|s| s.nb_memory_chunks);
    json!({"error": err, "rules": r.rules.iter().map(rule_json).collect::<Vec<_>>(), "chunks": chunks})
}

/// Scan with an already compiled scanner according to case["input"], case["api"], abort/timeout.
pub fn scan_with(scanner: &Scanner, case: &Value) -> Value {
    let input = &case["input"];
    let api = case["api"].as_str().unwrap_or("list");
    let timeout_at = case["timeout_at"].as_u64();
    let count_checks = get_bool(case, "count_checks") || timeout_at.is_some();
    let mut scanner_local;
    let scanner = if count_checks {
        // a TimeoutChecker only exists when a duration is set
        scanner_local = scanner.clone();
        let p = scanner_local
            .scan_params()
            .clone()
            .timeout_duration(Some(std::time::Duration::from_secs(3600)));
        scanner_local.set_scan_params(p);
        &scanner_local
    } else {
        scanner
    };
    boreal::scanner::verif_timeout::set_once(get_bool(case, "timeout_once"));
    boreal::scanner::verif_timeout::set(timeout_at, count_checks);

    let mut out = if api == "list" {
        let res = if let Some(h) = input["mem"].as_str() {
            let mem = unhex(h);
            list_result(scanner.scan_mem(&mem))
        } else if input["regions"].is_array() {
            list_result(scanner.scan_fragmented(make_regions(input)))
        } else if let Some(p) = input["file"].as_str() {
            list_result(scanner.scan_file(p))
        } else if let Some(p) = input["mmap"].as_str() {
            // Safety: the file is not modified during the scan (test harness)
            list_result(unsafe { scanner.scan_file_memmap(p) })
        } else {
            panic!("no input");
        };
        res
    } else {
        let abort_at = case["abort_at"].as_u64();
        let events: Arc<Mutex<Vec<Value>>> = Arc::new(Mutex::new(Vec::new()));
        let ev2 = events.clone();
        let cb = move |ev: ScanEvent| {
            let mut g = ev2.lock().unwrap();
            let v = match &ev {
                ScanEvent::RuleMatch(r) => json!({"ev": "match", "rule": rule_json(r)}),
                ScanEvent::RuleNoMatch(r) => json!({"ev": "nomatch", "rule": rule_json(r)}),
                ScanEvent::ModuleImport(m) => json!({"ev": "import", "module": m.module.get_name()}),
                ScanEvent::ScanStatistics(_) => json!({"ev": "stats"}),
                ScanEvent::StringReachedMatchLimit(s) => json!({"ev": "limit", "ns": s.rule_namespace,
                    "rule": s.rule_name, "string": s.string_name, "index": s.string_index}),
                _ => json!({"ev": "other"}),
            };
            let is_stats = matches!(ev, ScanEvent::ScanStatistics(_));
            g.push(v);
            let n = g.iter().filter(|e| e["ev"] != "stats").count() as u64;
            if !is_stats && abort_at == Some(n) {
                ScanCallbackResult::Abort
            } else {
                ScanCallbackResult::Continue
            }
        };
        let res = if let Some(h) = input["mem"].as_str() {
            let mem = unhex(h);
            scanner.scan_mem_with_callback(&mem, cb)
        } else if input["regions"].is_array() {
            scanner.scan_fragmented_with_callback(make_regions(input), cb)
        } else if let Some(p) = input["file"].as_str() {
            scanner.scan_file_with_callback(p, cb)
        } else if let Some(p) = input["mmap"].as_str() {
            // Safety: see above
            unsafe { scanner.scan_file_memmap_with_callback(p, cb) }
        } else {
            panic!("no input");
        };
        let err = res.err().map(|e| error_name(&e));
        let evs = events.lock().unwrap().clone();
        json!({"error": err, "events": evs})
    };
    if count_checks {
        out["checks"] = json!(boreal::scanner::verif_timeout::checks());
    }
    boreal::scanner::verif_timeout::set(None, false);
    boreal::scanner::verif_timeout::set_once(false);
    out
}

pub fn run(case: &Value) -> Value {
    match compile(case) {
        Err(e) => json!({"compile_error": e}),
        Ok(scanner) => {
            let _ = take_console_logs();
            let mut out = scan_with(&scanner, case);
            if get_bool(case, "console") {
                out["logs"] = json!(take_console_logs());
            }
            out
        }
    }
}
