#![allow(dead_code)]
use serde_json::Value;

pub fn hex(b: &[u8]) -> String {
    let mut s = String::with_capacity(b.len() * 2);
    for x in b {
        s.push_str(&format!("{x:02x}"));
    }
    s
}

pub fn unhex(s: &str) -> Vec<u8> {
    (0..s.len() / 2)
        .map(|i| u8::from_str_radix(&s[2 * i..2 * i + 2], 16).unwrap())
        .collect()
}

pub fn get_u64(v: &Value, k: &str) -> u64 {
    v[k].as_u64().unwrap_or_else(|| panic!("missing integer field {k}"))
}
pub fn get_usize(v: &Value, k: &str) -> usize {
    get_u64(v, k) as usize
}
pub fn get_opt_usize(v: &Value, k: &str) -> Option<usize> {
    v[k].as_u64().map(|x| x as usize)
}
pub fn get_bool(v: &Value, k: &str) -> bool {
    v[k].as_bool().unwrap_or(false)
}
pub fn get_str<'a>(v: &'a Value, k: &str) -> &'a str {
    v[k].as_str().unwrap_or_else(|| panic!("missing string field {k}"))
}
pub fn get_bytes(v: &Value, k: &str) -> Vec<u8> {
    unhex(get_str(v, k))
}
