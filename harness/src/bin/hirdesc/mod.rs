// Shared by c02.rs and c03.rs: compile one rule, describe how its strings were compiled (hook
// `Scanner::verif_describe_strings`), scan each input with compute_full_matches.
//
// Case JSON: everything `bvh::scan::compile` accepts (rules, profile, params, ...) plus
//   inputs: [hex, ...]
// Result JSON:
//   {"compile_error": text} or
//   {"desc": [{"literals": [hex], "atoms": [[l, r]], "kind": text, "mods": [fullword, wide, ascii, nocase, dot_all],
//              "hir": H|null, "pre": H|null, "post": H|null}],
//    "scans": [{"error": .., "rules": [...]}]}
// H is the HIR as nested arrays, see `hir_json`.
use boreal::regex::Hir;
use boreal_parser::regex::{
    AssertionKind, BracketedClassItem, ClassKind, PerlClass, PerlClassKind, RepetitionKind, RepetitionRange,
};
use serde_json::{json, Value};

use bvh::util::*;

fn perl_json(p: &PerlClass) -> Value {
    let k = match p.kind {
        PerlClassKind::Word => "w",
        PerlClassKind::Space => "s",
        PerlClassKind::Digit => "d",
    };
    json!(["perl", k, p.negated])
}

pub fn hir_json(h: &Hir) -> Value {
    match h {
        Hir::Alternation(l) => json!(["alt", l.iter().map(hir_json).collect::<Vec<_>>()]),
        Hir::Assertion(k) => json!(["assert", match k {
            AssertionKind::StartLine => "start",
            AssertionKind::EndLine => "end",
            AssertionKind::WordBoundary => "wb",
            AssertionKind::NonWordBoundary => "nwb",
        }]),
        Hir::Class(c) => {
            let def = match &c.definition {
                ClassKind::Perl(p) => perl_json(p),
                ClassKind::Bracketed(b) => json!(["br", b.items.iter().map(|it| match it {
                    BracketedClassItem::Perl(p) => perl_json(p),
                    BracketedClassItem::Literal(l) => json!(["lit", l.byte]),
                    BracketedClassItem::Range(a, b) => json!(["range", a.byte, b.byte]),
                }).collect::<Vec<_>>(), b.negated]),
            };
            // the bitmap, as the list of member bytes
            let members: Vec<u8> = (0..=255u8).filter(|b| c.bitmap.get(*b)).collect();
            json!(["class", def, hex(&members)])
        }
        Hir::Mask { value, mask, negated } => json!(["mask", value, mask, negated]),
        Hir::Concat(l) => json!(["cat", l.iter().map(hir_json).collect::<Vec<_>>()]),
        Hir::Dot => json!(["dot"]),
        Hir::Empty => json!(["empty"]),
        Hir::Literal(b) => json!(["lit", b]),
        Hir::Group(h) => json!(["group", hir_json(h)]),
        Hir::Repetition { hir, kind, greedy } => {
            let k = match kind {
                RepetitionKind::ZeroOrOne => json!(["?"]),
                RepetitionKind::ZeroOrMore => json!(["*"]),
                RepetitionKind::OneOrMore => json!(["+"]),
                RepetitionKind::Range(RepetitionRange::Exactly(n)) => json!(["n", n]),
                RepetitionKind::Range(RepetitionRange::AtLeast(n)) => json!(["n,", n]),
                RepetitionKind::Range(RepetitionRange::Bounded(n, m)) => json!(["n,m", n, m]),
            };
            json!(["rep", hir_json(hir), k, greedy])
        }
    }
}

pub fn run(case: &Value) -> Value {
    let scanner = match bvh::scan::compile(case) {
        Ok(s) => s,
        Err(e) => return json!({"compile_error": e}),
    };
    let desc: Vec<Value> = scanner
        .verif_describe_strings()
        .iter()
        .map(|d| {
            json!({
                "literals": d.literals.iter().map(|l| hex(l)).collect::<Vec<_>>(),
                "atoms": d.atom_offsets.iter().map(|(a, b)| json!([a, b])).collect::<Vec<_>>(),
                "kind": d.kind,
                "mods": [d.modifiers.0, d.modifiers.1, d.modifiers.2, d.modifiers.3, d.modifiers.4],
                "hir": d.hir.as_ref().map(hir_json),
                "pre": d.pre_hir.as_ref().map(hir_json),
                "post": d.post_hir.as_ref().map(hir_json),
            })
        })
        .collect();
    let scans = scan_inputs(&scanner, case);
    // the same rules compiled with the other compiler profile (the Aho-Corasick automaton is built
    // differently): the answers must not depend on it
    let mut out = json!({"desc": desc, "scans": scans});
    if case["both_profiles"].as_bool() == Some(true) {
        let mut c2 = case.clone();
        c2["profile"] = json!(if case["profile"].as_str() == Some("memory") { "speed" } else { "memory" });
        out["scans_other_profile"] = match bvh::scan::compile(&c2) {
            Ok(s2) => json!(scan_inputs(&s2, case)),
            Err(e) => json!({"compile_error": e}),
        };
    }
    out
}

fn scan_inputs(scanner: &boreal::Scanner, case: &Value) -> Vec<Value> {
    let mut scans = Vec::new();
    if let Some(inputs) = case["inputs"].as_array() {
        for inp in inputs {
            let mut c = case.clone();
            c["input"] = json!({"mem": inp});
            let r = std::panic::catch_unwind(std::panic::AssertUnwindSafe(|| bvh::scan::scan_with(scanner, &c)));
            scans.push(match r {
                Ok(v) => v,
                Err(e) => json!({"panic": bvh::panic_message(&*e)}),
            });
        }
    }
    scans
}
