// C20: compile rule files with include directives (file system / callback / disabled) with the real
// compiler, and the textually inlined text next to it.  Every compilation session runs in a child
// process (this same binary with `--child <session>`), so that a stack overflow or an abort shows up
// as an exit status instead of killing the harness.
//
// Case JSON:
//   chdir:  absolute directory the child runs in (relative top-level / include paths resolve there)
//   param_order: [setter names]  CompilerParams builder methods applied in this order (default values;
//           disable_includes(true) in "disabled" mode)
//   mode:   "fs" | "callback" | "disabled"      use_cb: true = set the callback also in "disabled" mode
//   cb:     [{"name": s, "cur_any": bool, "cur": null|s, "ns": null|s, "text": null|s}]  callback table,
//           first entry with matching name / current path / namespace decides; no entry or text=null: Err
//   calls:  [{"kind": "file", "path": s, "ns": null|s} | {"kind": "str", "text": s, "ns": null|s}]
//   inline_calls: [{"text": s, "ns": null|s}]        the same session, textually inlined (no includes left)
//   scan_hex: bytes scanned once with the finalized scanner
// Result: {"impl": SESSION, "inline": SESSION},
//   SESSION = {"results": [null | kind], "rules": [[ns, name, global, private]], "matched": [[ns, name]],
//              "log": [[name, cur|null, ns]], "log_marks": [log length after each call]}  |  {"crash": "<exit status>", "stderr": ...}
use std::io::{Read, Write};
use std::process::{Command, Stdio};
use std::sync::{Arc, Mutex};
use std::time::{Duration, Instant};

use boreal::compiler::{CompilerBuilder, CompilerParams};
use serde_json::{json, Value};

use bvh::util::*;

fn kind_of(e: &boreal::compiler::AddRuleError) -> String {
    let msg = e.to_diagnostic().message;
    if msg.starts_with("Cannot read rules file") {
        "io".into()
    } else if msg.starts_with("cannot include") {
        if msg.contains("includes depth exceeded") {
            "too_deep".into()
        } else {
            "invalid_include".into()
        }
    } else if msg.starts_with("includes are not allowed") {
        "unauthorized".into()
    } else if msg.starts_with("unknown import") {
        "unknown_import".into()
    } else if msg.contains("is already declared in this namespace") {
        "dup_rule".into()
    } else if msg.starts_with("unknown identifier") {
        "unknown_ident".into()
    } else if msg.starts_with("unknown variable") {
        "bad_rule".into()
    } else if msg.contains("matches a previous rule set") {
        "wildcard".into()
    } else if msg.starts_with("syntax error") {
        "parse".into()
    } else {
        format!("other:{msg}")
    }
}

fn session(case: &Value, which: &str) -> Value {
    let mut c = CompilerBuilder::new().build();
    let mode = get_str(case, "mode");
    let log: Arc<Mutex<Vec<Value>>> = Arc::new(Mutex::new(Vec::new()));
    if which == "impl" {
        if mode == "disabled" {
            if !case["param_order"].is_array() {
                c.set_params(CompilerParams::default().disable_includes(true));
            }
        }
        if mode == "callback" || get_bool(case, "use_cb") {
            let tbl: Vec<Value> = case["cb"].as_array().cloned().unwrap_or_default();
            let log2 = log.clone();
            c.set_include_callback(move |name, cur, ns| {
                let cur_s = cur.map(|p| p.to_string_lossy().to_string());
                log2.lock().unwrap().push(json!([name, cur_s, ns]));
                for e in &tbl {
                    if e["name"].as_str() != Some(name) {
                        continue;
                    }
                    if !get_bool(e, "cur_any") && e["cur"].as_str().map(str::to_string) != cur_s {
                        continue;
                    }
                    if let Some(n) = e["ns"].as_str() {
                        if n != ns {
                            continue;
                        }
                    }
                    return match e["text"].as_str() {
                        Some(t) => Ok(t.to_string()),
                        None => Err(std::io::Error::new(std::io::ErrorKind::PermissionDenied, "denied")),
                    };
                }
                Err(std::io::Error::new(std::io::ErrorKind::NotFound, "not in table"))
            });
        }
    }
    // compiler parameters set through the builder methods in a given ORDER (values are the defaults, except
    // disable_includes in "disabled" mode): the order must not matter
    if which == "impl" {
        if let Some(order) = case["param_order"].as_array() {
            let mut p = CompilerParams::default();
            for name in order {
                p = match name.as_str().unwrap_or("") {
                    "disable_includes" => p.disable_includes(mode == "disabled"),
                    "parse_expression_recursion_limit" => p.parse_expression_recursion_limit(50),
                    "parse_string_recursion_limit" => p.parse_string_recursion_limit(30),
                    "max_condition_depth" => p.max_condition_depth(40),
                    "fail_on_warnings" => p.fail_on_warnings(false),
                    "compute_statistics" => p.compute_statistics(true),
                    "max_strings_per_rule" => p.max_strings_per_rule(10_000),
                    "disable_unknown_escape_warning" => p.disable_unknown_escape_warning(false),
                    other => panic!("unknown parameter setter {other}"),
                };
            }
            c.set_params(p);
        }
    }
    let calls = if which == "impl" { &case["calls"] } else { &case["inline_calls"] };
    let mut results = Vec::new();
    let mut log_marks = Vec::new();
    for k in calls.as_array().expect("calls") {
        let ns = k["ns"].as_str();
        let r = if k["kind"].as_str() == Some("file") {
            let p = get_str(k, "path");
            match ns {
                Some(ns) => c.add_rules_file_in_namespace(p, ns),
                None => c.add_rules_file(p),
            }
        } else {
            let t = get_str(k, "text");
            match ns {
                Some(ns) => c.add_rules_str_in_namespace(t, ns),
                None => c.add_rules_str(t),
            }
        };
        results.push(match r {
            Ok(_) => Value::Null,
            Err(e) => {
                // the diagnostic must render
                let _ = format!("{e}");
                json!(kind_of(&e))
            }
        });
        log_marks.push(log.lock().unwrap().len());
    }
    let scanner = c.finalize();
    let rules: Vec<Value> = scanner
        .rules()
        .map(|r| json!([r.namespace, r.name, r.is_global, r.is_private]))
        .collect();
    let mem = get_bytes(case, "scan_hex");
    let matched: Vec<Value> = match scanner.scan_mem(&mem) {
        Ok(r) => r.rules.iter().map(|r| json!([r.namespace, r.name])).collect(),
        Err((e, _)) => vec![json!(["<scan error>", format!("{e:?}")])],
    };
    let log = log.lock().unwrap().clone();
    json!({"results": results, "rules": rules, "matched": matched, "log": log, "log_marks": log_marks})
}

fn child(which: &str) {
    let mut s = String::new();
    std::io::stdin().read_to_string(&mut s).unwrap();
    let case: Value = serde_json::from_str(&s).unwrap();
    let out = session(&case, which);
    println!("{out}");
}

fn spawn_session(case: &Value, which: &str, line: &str) -> Value {
    let exe = std::env::current_exe().unwrap();
    let mut cmd = Command::new(exe);
    cmd.arg("--child").arg(which).stdin(Stdio::piped()).stdout(Stdio::piped()).stderr(Stdio::piped());
    if let Some(d) = case["chdir"].as_str() {
        cmd.current_dir(d);
    }
    let mut ch = match cmd.spawn() {
        Ok(c) => c,
        Err(e) => return json!({"crash": format!("spawn failed: {e}")}),
    };
    {
        let mut si = ch.stdin.take().unwrap();
        let _ = si.write_all(line.as_bytes());
    }
    // read the pipes in threads so that a chatty child cannot block
    let mut so = ch.stdout.take().unwrap();
    let mut se = ch.stderr.take().unwrap();
    let t_out = std::thread::spawn(move || {
        let mut b = String::new();
        let _ = so.read_to_string(&mut b);
        b
    });
    let t_err = std::thread::spawn(move || {
        let mut b = Vec::new();
        let _ = se.read_to_end(&mut b);
        String::from_utf8_lossy(&b).to_string()
    });
    let limit = Duration::from_secs(case["wall_s"].as_u64().unwrap_or(30));
    let t0 = Instant::now();
    let status = loop {
        match ch.try_wait() {
            Ok(Some(st)) => break Some(st),
            Ok(None) => {
                if t0.elapsed() > limit {
                    let _ = ch.kill();
                    let _ = ch.wait();
                    break None;
                }
                std::thread::sleep(Duration::from_millis(2));
            }
            Err(_) => break None,
        }
    };
    let out = t_out.join().unwrap_or_default();
    let err = t_err.join().unwrap_or_default();
    match status {
        None => json!({"crash": "timeout", "stderr": tail(&err)}),
        Some(st) if st.success() => {
            for l in out.lines() {
                if l.starts_with('{') {
                    if let Ok(v) = serde_json::from_str::<Value>(l) {
                        return v;
                    }
                }
            }
            json!({"crash": "no output", "stderr": tail(&err)})
        }
        Some(st) => json!({"crash": format!("{st}"), "stderr": tail(&err)}),
    }
}

fn tail(s: &str) -> String {
    let n = s.len();
    let mut start = n.saturating_sub(400);
    while !s.is_char_boundary(start) {
        start += 1;
    }
    s[start..].to_string()
}

fn run(case: &Value) -> Value {
    let line = case.to_string();
    json!({"impl": spawn_session(case, "impl", &line), "inline": spawn_session(case, "inline", &line)})
}

fn main() {
    let args: Vec<String> = std::env::args().collect();
    if args.len() >= 3 && args[1] == "--child" {
        child(&args[2]);
        return;
    }
    bvh::run_main(run);
}
