// C17: dump what the file-format modules publish (ScanResult.modules[*].dynamic_values) for an asset + edit list,
// with process_memory / fragmented layouts, twice (idempotence), and compile + evaluate probe expressions
// `console.log("<tag>=", <module value use>)` with the real compiler and evaluator.
//
// Case: {"op":"types"}                                    → {"types": {module: <type json>}}
//       {"op":"scan", "asset"|"base_hex", "edits":[..], "process_memory":b, "layout":null|[..],
//        "modules":["pe",..], "probes":[{"tag":"p0","rule":"<condition text>","imports":["pe"]}..],
//        "keep":K, "keep_dict":KD, "keep_bytes":KB, "shifts":[s..],
//        "user_data": {"pe_is_signed": b | "pe_is_signed_none": true, "console_override": b}}
//   → {"dumps": {module: dump}, "hash1": {module: h}, "hash2": {module: h}, "lens": {module: {path: n}},
//      "nonconf": {module: null|path}, "probes": [{"compiled":b, "err":s?, "logs":[..]}], "size": n, "error": e}
#[path = "../modval.rs"]
mod modval;

use std::collections::BTreeMap;
use std::sync::{Arc, Mutex};

use boreal::compiler::CompilerBuilder;
use boreal::module::{Console, Type};
use boreal::scanner::{ScanParams, ScanResult};
use serde_json::{json, Map, Value};

use bvh::util::*;

const ALL: [&str; 9] = ["pe", "elf", "macho", "dotnet", "dex", "math", "hash", "string", "time"];

fn imports(mods: &[&str]) -> String {
    mods.iter().map(|m| format!("import \"{m}\"\n")).collect()
}

fn types() -> Value {
    let mut c = CompilerBuilder::new().add_module(Console::with_callback(|_| {})).build();
    let mut all: Vec<&str> = ALL.to_vec();
    all.push("console");
    c.add_rules_str(format!("{} rule a {{ condition: true }}", imports(&all))).unwrap();
    let scanner = c.finalize();
    let res = scanner.scan_mem(b"").unwrap();
    let mut out = Map::new();
    for m in &res.modules {
        out.insert(
            m.module.get_name().to_string(),
            modval::type_json(&Type::Object(m.module.get_dynamic_types())),
        );
    }
    json!({"types": out})
}

fn take<'a>(res: Result<ScanResult<'a>, (boreal::scanner::ScanError, ScanResult<'a>)>) -> (Option<String>, ScanResult<'a>) {
    match res {
        Ok(r) => (None, r),
        Err((e, r)) => (Some(format!("{e:?}")), r),
    }
}

/// Scan the input placed at an address congruent to `shift` modulo 16 (every region buffer for a fragmented layout).
fn scan<'a>(s: &'a boreal::Scanner, case: &Value, input: &[u8], shift: usize) -> (Option<String>, ScanResult<'a>) {
    if case["layout"].is_array() {
        take(s.scan_fragmented(modval::Layout::with_shift(input, &case["layout"], shift)))
    } else {
        let (buf, pad) = modval::place(input, shift);
        take(s.scan_mem(&buf[pad..pad + input.len()]))
    }
}

pub fn run(case: &Value) -> Value {
    if case["op"].as_str() == Some("types") {
        return types();
    }
    let input = modval::build_input(case);
    let keep = get_opt_usize(case, "keep").unwrap_or(3);
    let keep_dict = get_opt_usize(case, "keep_dict").unwrap_or(64);
    let keep_bytes = get_opt_usize(case, "keep_bytes").unwrap_or(24);
    let mods: Vec<&str> = case["modules"].as_array().unwrap().iter().map(|m| m.as_str().unwrap()).collect();

    let fn_args: Vec<Value> = case["fn_args"].as_array().cloned().unwrap_or_default();
    let logs: Arc<Mutex<Vec<String>>> = Arc::new(Mutex::new(Vec::new()));
    let l2 = logs.clone();
    let mut c = CompilerBuilder::new()
        .add_module(Console::with_callback(move |s| l2.lock().unwrap().push(s)))
        .build();
    c.add_rules_str(format!("{} rule base {{ condition: true }}", imports(&mods))).unwrap();
    let mut probes_out = Vec::new();
    if let Some(probes) = case["probes"].as_array() {
        for p in probes {
            let tag = get_str(p, "tag");
            let imps: Vec<&str> = p["imports"].as_array().unwrap().iter().map(|m| m.as_str().unwrap()).collect();
            let src = format!(
                "{}import \"console\"\nrule {tag} {{ condition: {} }}",
                imports(&imps),
                get_str(p, "rule")
            );
            match c.add_rules_str(&src) {
                Ok(_) => {
                    // companion rule: is the use defined at all (console.log cannot show booleans)?
                    let src2 = format!("{}rule {tag}_def {{ condition: defined ({}) }}", imports(&imps), get_str(p, "use"));
                    let d = c.add_rules_str(&src2).is_ok();
                    probes_out.push(json!({"compiled": true, "def_compiled": d}))
                }
                Err(e) => probes_out.push(json!({"compiled": false, "err": format!("{e}").chars().take(200).collect::<String>()})),
            }
        }
    }
    let mut scanner = c.finalize();
    scanner.set_scan_params(ScanParams::default().process_memory(get_bool(case, "process_memory")));
    // user data given to the modules through the public API (Scanner::set_module_data), for every module of this
    // build that accepts some: pe (PeData.is_signed) and console (ConsoleData: per-scan callback override).
    // (cuckoo's CuckooData needs the `cuckoo` feature, which the harness does not enable.)
    let ud = &case["user_data"];
    if let Some(b) = ud["pe_is_signed"].as_bool() {
        scanner.set_module_data::<boreal::module::Pe>(boreal::module::PeData { is_signed: Some(b) });
    } else if ud["pe_is_signed_none"].as_bool() == Some(true) {
        scanner.set_module_data::<boreal::module::Pe>(boreal::module::PeData { is_signed: None });
    }
    if ud["console_override"].as_bool() == Some(true) {
        let l3 = logs.clone();
        scanner.set_module_data::<Console>(boreal::module::ConsoleData::new(move |s| l3.lock().unwrap().push(s)));
    }

    let (err1, r1) = scan(&scanner, case, &input, 0);
    let logs1: Vec<String> = std::mem::take(&mut *logs.lock().unwrap());
    let mut dumps = Map::new();
    let mut hash1 = Map::new();
    let mut lens = Map::new();
    let mut nonconf = Map::new();
    let mut nodes = 0usize;
    for m in &r1.modules {
        let name = m.module.get_name();
        if !mods.contains(&name) {
            continue;
        }
        let ty = Type::Object(m.module.get_dynamic_types());
        let user_data = boreal::module::ModuleUserData::default();
        let data_map = boreal::module::ModuleDataMap::new(&user_data);
        let mut mem = boreal::memory::Memory::Direct(&input);
        let mut ectx = boreal::module::EvalContext {
            mem: &mut mem,
            module_data: &data_map,
            process_memory: get_bool(case, "process_memory"),
        };
        dumps.insert(
            name.into(),
            modval::dump_typed(Some(&ty), &m.dynamic_values, keep, keep_dict, keep_bytes, &fn_args, &mut ectx),
        );
        hash1.insert(name.into(), json!(modval::canon_hash(&m.dynamic_values).to_string()));
        let mut l = BTreeMap::new();
        modval::collect_lens(&m.dynamic_values, "", &mut l);
        lens.insert(name.into(), json!(l));
        nonconf.insert(
            name.into(),
            json!(modval::conforms_full(&Type::Object(m.module.get_dynamic_types()), &m.dynamic_values, name)),
        );
        nodes += modval::node_count(&m.dynamic_values);
    }
    let matched1: Vec<String> = r1.rules.iter().map(|r| r.name.to_string()).collect();
    drop(r1);
    let (err2, r2) = scan(&scanner, case, &input, 0);
    let mut hash2 = Map::new();
    for m in &r2.modules {
        let name = m.module.get_name();
        if mods.contains(&name) {
            hash2.insert(name.into(), json!(modval::canon_hash(&m.dynamic_values).to_string()));
        }
    }
    let matched2: Vec<String> = r2.rules.iter().map(|r| r.name.to_string()).collect();
    let logs2: Vec<String> = std::mem::take(&mut *logs.lock().unwrap());
    drop(r2);
    // the same bytes at other alignments
    let mut hash_shifts = Map::new();
    let mut shift_diff = false;
    for sh in case["shifts"].as_array().map(|v| v.as_slice()).unwrap_or(&[]) {
        let sh = sh.as_u64().unwrap_or(0) as usize;
        let (errs, rs) = scan(&scanner, case, &input, sh);
        let mut h = Map::new();
        for m in &rs.modules {
            let name = m.module.get_name();
            if mods.contains(&name) {
                h.insert(name.into(), json!(modval::canon_hash(&m.dynamic_values).to_string()));
            }
        }
        let matched: Vec<String> = rs.rules.iter().map(|r| r.name.to_string()).collect();
        let logss: Vec<String> = std::mem::take(&mut *logs.lock().unwrap());
        if h != hash1 || matched != matched1 || logss != logs1 || errs != err1 {
            shift_diff = true;
        }
        hash_shifts.insert(sh.to_string(), Value::Object(h));
    }
    // attribute logs to probes by tag
    for (i, p) in case["probes"].as_array().map(|v| v.as_slice()).unwrap_or(&[]).iter().enumerate() {
        let tag = format!("{}=", get_str(p, "tag"));
        let mine: Vec<&str> = logs1.iter().filter(|l| l.starts_with(&tag)).map(|l| &l[tag.len()..]).collect();
        probes_out[i]["logs"] = json!(mine);
        probes_out[i]["matched"] = json!(matched1.iter().any(|r| r == get_str(p, "tag")));
        let def = format!("{}_def", get_str(p, "tag"));
        probes_out[i]["defined"] = json!(matched1.iter().any(|r| *r == def));
    }
    json!({"dumps": dumps, "hash1": hash1, "hash2": hash2, "lens": lens, "nonconf": nonconf, "probes": probes_out,
           "size": input.len(), "nodes": nodes, "error": err1, "error2": err2,
           "same_rules": matched1 == matched2, "same_logs": logs1 == logs2, "hash_shifts": hash_shifts,
           "shift_diff": shift_diff})
}

fn main() {
    bvh::run_main(run);
}
