// C08 (exploration part): hand one rule text to the parser and to the compiler with given parameters, in a child
// process (this binary with `--child`), on a thread with a reduced stack and under a wall-clock cap, and report
// what came back.  An abort / stack overflow / timeout of the child is the failing input.
//
// Case JSON:
//   text_hex: the text (bytes; invalid UTF-8 is converted lossily, which plants multi-byte characters)
//   expr_limit, string_limit: u8 | null     parser recursion limits
//   max_condition_depth: u32 | null, max_strings_per_rule: usize | null, fail_on_warnings, disable_includes: bool
//   parse_only: bool (stop after the parser); forget_ast: bool (leak the parsed tree instead of dropping it)
//   profile: "speed" | "memory";  stack_kb: stack of the worker thread (default 1024);  wall_s: cap (default 20)
//   steps: [{"text_hex": .., "ns": null|str}]  instead of text_hex: a session on one compiler, see work_steps
// Result: {"parse": "ok"|"err:<message>", "compile": "ok"|"err:<message>", "spans_ok": bool, "span_problem": str,
//          "rendered": bool, "scan": "ok"|"skipped"|"err:..", "nrules": n, "ms": elapsed}
//         | {"panic": msg} | {"crash": "<exit status>" | "timeout", "stderr": ..}
use std::io::{Read, Write};
use std::process::{Command, Stdio};
use std::time::{Duration, Instant};

use boreal::compiler::{CompilerBuilder, CompilerParams, CompilerProfile};
use serde_json::{json, Value};

use bvh::util::*;

fn check_range(r: &std::ops::Range<usize>, text: &str, what: &str, problems: &mut Vec<String>) {
    if r.start > r.end {
        problems.push(format!("{what}: start {} > end {}", r.start, r.end));
    }
    if r.end > text.len() {
        problems.push(format!("{what}: end {} beyond input length {}", r.end, text.len()));
        return;
    }
    if !text.is_char_boundary(r.start) || !text.is_char_boundary(r.end) {
        problems.push(format!("{what}: {}..{} not on a character boundary", r.start, r.end));
    }
}

fn work(case: &Value) -> Value {
    let bytes = get_bytes(case, "text_hex");
    let text = String::from_utf8_lossy(&bytes).to_string();
    let t0 = Instant::now();
    let mut problems = Vec::new();
    let mut rendered = true;

    let mut pp = boreal_parser::Params::default();
    if let Some(v) = case["expr_limit"].as_u64() {
        pp = pp.expression_recursion_limit(v as u8);
    }
    if let Some(v) = case["string_limit"].as_u64() {
        pp = pp.string_recursion_limit(v as u8);
    }
    let parse = match boreal_parser::parse_with_params(&text, pp) {
        Ok(f) => {
            if get_bool(case, "forget_ast") {
                // diagnostic aid: leak the tree instead of dropping it (localises a stack overflow in drop glue)
                std::mem::forget(f);
            }
            "ok".to_string()
        }
        Err(e) => {
            let d = e.to_diagnostic();
            for l in &d.labels {
                check_range(&l.range, &text, "parse error label", &mut problems);
            }
            let desc = boreal::compiler::generate_description(&d, "mem", &text);
            if desc.is_empty() {
                rendered = false;
            }
            format!("err:{}", d.message)
        }
    };

    if get_bool(case, "parse_only") {
        return json!({"parse": parse, "compile": "skipped", "spans_ok": problems.is_empty(),
                      "span_problem": problems.join("; "), "rendered": rendered, "scan": "skipped", "nrules": 0,
                      "ms": t0.elapsed().as_millis() as u64});
    }
    let mut b = CompilerBuilder::new();
    if case["profile"].as_str() == Some("memory") {
        b = b.profile(CompilerProfile::Memory);
    }
    let mut c = b.build();
    let mut p = CompilerParams::default();
    if let Some(v) = case["max_condition_depth"].as_u64() {
        p = p.max_condition_depth(v as u32);
    }
    if let Some(v) = case["max_strings_per_rule"].as_u64() {
        p = p.max_strings_per_rule(v as usize);
    }
    if let Some(v) = case["fail_on_warnings"].as_bool() {
        p = p.fail_on_warnings(v);
    }
    if let Some(v) = case["disable_includes"].as_bool() {
        p = p.disable_includes(v);
    }
    if let Some(v) = case["expr_limit"].as_u64() {
        p = p.parse_expression_recursion_limit(v as u8);
    }
    if let Some(v) = case["string_limit"].as_u64() {
        p = p.parse_string_recursion_limit(v as u8);
    }
    c.set_params(p);
    let mut nrules = 0;
    let (compile, scan) = match c.add_rules_str(&text) {
        Ok(status) => {
            for w in status.warnings() {
                let d = w.to_diagnostic();
                for l in &d.labels {
                    check_range(&l.range, &text, "warning label", &mut problems);
                }
                if format!("{w}").is_empty() {
                    rendered = false;
                }
            }
            let mut scanner = c.finalize();
            nrules = scanner.rules().count();
            // the scan is only there to see that the scanner is usable: a condition such as
            // `for any i in (0..uint32(0)) : (false)` may legitimately loop for minutes
            scanner.set_scan_params(
                boreal::scanner::ScanParams::default().timeout_duration(Some(Duration::from_secs(2))),
            );
            let scan = match scanner.scan_mem(b"abcdefghijklmnopqrstuvwxyz0123456789 \x00\x01\xff GET /index.html") {
                Ok(_) | Err((boreal::scanner::ScanError::Timeout, _)) => "ok".to_string(),
                Err((e, _)) => format!("err:{e:?}"),
            };
            ("ok".to_string(), scan)
        }
        Err(e) => {
            let d = e.to_diagnostic();
            for l in &d.labels {
                check_range(&l.range, &text, "compile error label", &mut problems);
            }
            if format!("{e}").is_empty() {
                rendered = false;
            }
            (format!("err:{}", d.message), "skipped".to_string())
        }
    };
    // parser and compiler must agree on whether the text parses
    if parse.starts_with("err") && compile == "ok" {
        problems.push("the parser rejects a text the compiler accepts".to_string());
    }
    json!({"parse": parse, "compile": compile, "spans_ok": problems.is_empty(),
           "span_problem": problems.join("; "), "rendered": rendered, "scan": scan, "nrules": nrules,
           "ms": t0.elapsed().as_millis() as u64})
}

/// Several texts added one after the other to ONE compiler (some are expected to be refused), then finalize and
/// scan: error paths must not leave the compiler in a state that makes a later accepted rule set unusable.
/// Case: steps: [{"text_hex": .., "ns": null|str}], other fields as for a single text.
/// Result: {"steps": ["ok"|"err:<message>"], "compile": "ok" when every step was accepted else the first error,
///          "scan": .., "matched": [[ns, name]], "nrules": n, ...}
fn work_steps(case: &Value) -> Value {
    let t0 = Instant::now();
    let mut problems = Vec::new();
    let mut rendered = true;
    let mut b = CompilerBuilder::new();
    if case["profile"].as_str() == Some("memory") {
        b = b.profile(CompilerProfile::Memory);
    }
    let mut c = b.build();
    let mut p = CompilerParams::default();
    if let Some(v) = case["max_condition_depth"].as_u64() {
        p = p.max_condition_depth(v as u32);
    }
    if let Some(v) = case["expr_limit"].as_u64() {
        p = p.parse_expression_recursion_limit(v as u8);
    }
    if let Some(v) = case["fail_on_warnings"].as_bool() {
        p = p.fail_on_warnings(v);
    }
    c.set_params(p);
    let mut steps = Vec::new();
    for st in case["steps"].as_array().unwrap() {
        let text = String::from_utf8_lossy(&get_bytes(st, "text_hex")).to_string();
        let res = match st["ns"].as_str() {
            Some(ns) => c.add_rules_str_in_namespace(&text, ns),
            None => c.add_rules_str(&text),
        };
        steps.push(match res {
            Ok(status) => {
                for w in status.warnings() {
                    for l in &w.to_diagnostic().labels {
                        check_range(&l.range, &text, "warning label", &mut problems);
                    }
                }
                "ok".to_string()
            }
            Err(e) => {
                let d = e.to_diagnostic();
                for l in &d.labels {
                    check_range(&l.range, &text, "compile error label", &mut problems);
                }
                if format!("{e}").is_empty() {
                    rendered = false;
                }
                format!("err:{}", d.message)
            }
        });
    }
    let mut scanner = c.finalize();
    let nrules = scanner.rules().count();
    scanner.set_scan_params(
        boreal::scanner::ScanParams::default().timeout_duration(Some(Duration::from_secs(2))),
    );
    let mut matched = Vec::new();
    let scan = match scanner.scan_mem(b"abcdefghijklmnopqrstuvwxyz0123456789 \x00\x01\xff GET /index.html") {
        Ok(r) => {
            matched = r.rules.iter().map(|r| json!([r.namespace, r.name])).collect();
            "ok".to_string()
        }
        Err((boreal::scanner::ScanError::Timeout, _)) => "ok".to_string(),
        Err((e, _)) => format!("err:{e:?}"),
    };
    let compile = steps.iter().find(|s| s.as_str() != "ok").cloned().unwrap_or_else(|| "ok".to_string());
    json!({"steps": steps, "parse": "n/a", "compile": compile, "spans_ok": problems.is_empty(),
           "span_problem": problems.join("; "), "rendered": rendered, "scan": scan, "matched": matched,
           "nrules": nrules, "ms": t0.elapsed().as_millis() as u64})
}

fn child() {
    let mut s = String::new();
    std::io::stdin().read_to_string(&mut s).unwrap();
    let case: Value = serde_json::from_str(&s).unwrap();
    let kb = case["stack_kb"].as_u64().unwrap_or(1024) as usize;
    std::panic::set_hook(Box::new(|_| {}));
    let h = std::thread::Builder::new()
        .stack_size(kb * 1024)
        .spawn(move || if case["steps"].is_array() { work_steps(&case) } else { work(&case) })
        .unwrap();
    let out = match h.join() {
        Ok(v) => v,
        Err(e) => json!({"panic": bvh::panic_message(&*e)}),
    };
    println!("{out}");
}

fn tail(s: &str) -> String {
    let mut start = s.len().saturating_sub(300);
    while !s.is_char_boundary(start) {
        start += 1;
    }
    s[start..].to_string()
}

fn run(case: &Value) -> Value {
    let exe = std::env::current_exe().unwrap();
    let mut ch = match Command::new(exe)
        .arg("--child")
        .stdin(Stdio::piped())
        .stdout(Stdio::piped())
        .stderr(Stdio::piped())
        .spawn()
    {
        Ok(c) => c,
        Err(e) => return json!({"crash": format!("spawn failed: {e}")}),
    };
    {
        let mut si = ch.stdin.take().unwrap();
        let _ = si.write_all(case.to_string().as_bytes());
    }
    let mut so = ch.stdout.take().unwrap();
    let mut se = ch.stderr.take().unwrap();
    let t_out = std::thread::spawn(move || {
        let mut b = String::new();
        let _ = so.read_to_string(&mut b);
        b
    });
    let t_err = std::thread::spawn(move || {
        let mut b = Vec::new();
        let _ = se.read_to_end(&mut b);
        String::from_utf8_lossy(&b).to_string()
    });
    let limit = Duration::from_secs(case["wall_s"].as_u64().unwrap_or(20));
    let t0 = Instant::now();
    let status = loop {
        match ch.try_wait() {
            Ok(Some(st)) => break Some(st),
            Ok(None) => {
                if t0.elapsed() > limit {
                    let _ = ch.kill();
                    let _ = ch.wait();
                    break None;
                }
                std::thread::sleep(Duration::from_millis(2));
            }
            Err(_) => break None,
        }
    };
    let out = t_out.join().unwrap_or_default();
    let err = t_err.join().unwrap_or_default();
    match status {
        None => json!({"crash": "timeout", "stderr": tail(&err)}),
        Some(st) if st.success() => {
            for l in out.lines() {
                if l.starts_with('{') {
                    if let Ok(v) = serde_json::from_str::<Value>(l) {
                        return v;
                    }
                }
            }
            json!({"crash": "no output", "stderr": tail(&err)})
        }
        Some(st) => json!({"crash": format!("{st}"), "stderr": tail(&err)}),
    }
}

fn main() {
    let args: Vec<String> = std::env::args().collect();
    if args.len() >= 2 && args[1] == "--child" {
        child();
        return;
    }
    bvh::run_main(run);
}
