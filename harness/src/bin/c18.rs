// C18: what the *library* computes for the files a CLI invocation may scan.
//
// Case JSON:
//   cwd:    directory all relative paths are resolved against
//   rules:  [{"ns": null|"name", "file": path}]       compiled the way boreal-cli compiles them
//   params: see bvh::scan::build_params (+ "timeout": seconds)   -- the ScanParams the model prescribes
//   files:  [relative path, ...]                       candidate paths
// Result JSON:
//   {"compile_error": text} |
//   {"files": [{"path": p, "error": text|null, "events": [...], "results": [...]}]}
// The file is read here with std::fs::read and scanned with scan_mem* (never scan_file /
// scan_file_memmap: those are the CLI's two reading paths, which the property compares with this).
// events:  callback API under `params`, every event of the uninterrupted scan in delivery order
// results: result-list API with include_not_matched_rules + compute_full_matches, same limits
use std::path::Path;
use std::sync::{Arc, Mutex};
use std::time::Duration;

use boreal::scanner::{EvaluatedRule, ScanCallbackResult, ScanError, ScanEvent};
use boreal::{MetadataValue, Scanner};
use serde_json::{json, Value};

use bvh::scan::{add_rules, build_compiler, build_params};
use bvh::util::*;

fn rule_json(scanner: &Scanner, r: &EvaluatedRule) -> Value {
    json!({
        "ns": hex(r.namespace.as_bytes()),
        "name": hex(r.name.as_bytes()),
        "matched": r.matched,
        "tags": r.tags.iter().map(|t| hex(scanner.get_string_symbol(*t).as_bytes())).collect::<Vec<_>>(),
        "metas": r.metadatas.iter().map(|m| {
            let name = hex(scanner.get_string_symbol(m.name).as_bytes());
            match m.value {
                MetadataValue::Bytes(b) => json!({"name": name, "t": "bytes", "v": hex(scanner.get_bytes_symbol(b))}),
                MetadataValue::Integer(i) => json!({"name": name, "t": "int", "v": i}),
                MetadataValue::Boolean(b) => json!({"name": name, "t": "bool", "v": b}),
            }
        }).collect::<Vec<_>>(),
        "strings": r.matches.iter().map(|s| json!({
            "name": hex(s.name.as_bytes()),
            "matches": s.matches.iter().map(|m| json!({
                "base": m.base, "offset": m.offset, "length": m.length,
                "key": m.xor_key, "data": hex(&m.data)})).collect::<Vec<_>>()
        })).collect::<Vec<_>>()
    })
}

pub fn run(case: &Value) -> Value {
    if case["special"].as_str() == Some("modules") {
        // what `boreal list-modules` / `boreal yr -M` must print (sorted by the tool)
        let compiler = boreal::Compiler::new();
        let names: Vec<String> = compiler.available_modules().map(|s| hex(s.as_bytes())).collect();
        // and the library's own errors for a process / a file that do not exist
        let scanner = compiler.finalize();
        let perr = match case["pid"].as_u64() {
            Some(pid) => match scanner.scan_process(pid as u32) {
                Ok(_) => "<<process exists>>".to_string(),
                Err((e, _)) => e.to_string(),
            },
            None => String::new(),
        };
        let ferr = match case["path"].as_str() {
            Some(p) => match scanner.scan_file(p) {
                Ok(_) => "<<file exists>>".to_string(),
                Err((e, _)) => e.to_string(),
            },
            None => String::new(),
        };
        return json!({"modules": names, "process_error": perr, "file_error": ferr});
    }
    // every path of the case is relative to cwd, exactly as for the CLI invocation
    std::env::set_current_dir(Path::new(get_str(case, "cwd"))).expect("cwd");
    let mut compiler = build_compiler(case);
    if let Err(e) = add_rules(&mut compiler, case) {
        return json!({"compile_error": e});
    }
    let mut scanner = compiler.finalize();

    let mut params = build_params(&case["params"]);
    if let Some(t) = case["params"]["timeout"].as_u64() {
        params = params.timeout_duration(Some(Duration::from_secs(t)));
    }
    let list_params = params
        .clone()
        .include_not_matched_rules(true)
        .compute_full_matches(true);

    let mut list_scanner = scanner.clone();
    list_scanner.set_scan_params(list_params);
    scanner.set_scan_params(params);

    let mut out = Vec::new();
    for f in case["files"].as_array().expect("files") {
        let rel = f.as_str().unwrap();
        let contents = match std::fs::read(rel) {
            Ok(c) => c,
            Err(err) => {
                let text = ScanError::CannotReadFile(err).to_string();
                out.push(json!({"path": rel, "error": text, "events": [], "results": []}));
                continue;
            }
        };
        let events: Arc<Mutex<Vec<Value>>> = Arc::new(Mutex::new(Vec::new()));
        let ev2 = events.clone();
        let sc = &scanner;
        let res = scanner.scan_mem_with_callback(&contents, move |ev: ScanEvent| {
            let v = match &ev {
                ScanEvent::RuleMatch(r) => json!({"ev": "rule", "rule": rule_json(sc, r)}),
                ScanEvent::RuleNoMatch(r) => json!({"ev": "rule", "rule": rule_json(sc, r)}),
                ScanEvent::StringReachedMatchLimit(s) => json!({"ev": "limit",
                    "ns": hex(s.rule_namespace.as_bytes()), "rule": hex(s.rule_name.as_bytes()),
                    "string": hex(s.string_name.as_bytes())}),
                _ => json!({"ev": "other"}),
            };
            ev2.lock().unwrap().push(v);
            ScanCallbackResult::Continue
        });
        let cb_err = res.err().map(|e| e.to_string());
        let (list_err, r) = match list_scanner.scan_mem(&contents) {
            Ok(r) => (None, r),
            Err((e, r)) => (Some(e.to_string()), r),
        };
        let results: Vec<Value> = r.rules.iter().map(|r| rule_json(&list_scanner, r)).collect();
        let evs = events.lock().unwrap().clone();
        out.push(json!({"path": rel, "error": null, "events": evs, "results": results,
                        "cb_error": cb_err, "list_error": list_err, "size": contents.len()}));
    }
    json!({"files": out})
}

fn main() {
    bvh::run_main(run);
}
