// C02: hex strings — compile, describe (hook verif_describe_strings), scan each input.
#[path = "hirdesc/mod.rs"]
mod hirdesc;

fn main() {
    bvh::run_main(hirdesc::run);
}
