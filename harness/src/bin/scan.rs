// Generic compile+scan binary (see src/scan.rs for the case format).
fn main() {
    bvh::run_main(bvh::scan::run);
}
