// C13 — scans are pure: clone histories, hash cache, concurrent jobs.  Three kinds of cases.
//
// {"kind":"hist", "rules":[..], "csymbols":[..], "probe": hex, "probe_pe": path?, "ops":[..]}
//     ops: {"op":"clone","from":k} | {"op":"define","c":k,"name":..,"int"|"bool"|"bytes"|"float":..}
//        | {"op":"params","c":k,"params":{..}} | {"op":"mdata","c":k,"module":"console","tag":n}
//        | {"op":"mdata","c":k,"module":"pe","is_signed":true|false|null} | {"op":"scan","c":k,"input":hex}
//     Executed on real `Scanner` values (clone 0 = the compiled scanner).  After every operation every member of
//     the family is observed: `scan_params()` getters and a probe scan (list API) of `probe` (and of the file
//     `probe_pe` when given), with the console messages the scan produced.  Console messages are tagged with the
//     ConsoleData tag of the scanner ("d" = the compiler's default callback).
//     -> {"steps":[{"out":<op result>, "fam":[<observation>..]}..]}
//
// {"kind":"hash", "rules":[..], "inputs":[hex..], "threads":T, "rounds":R}
//     One scanner; `seq`: the inputs scanned one after the other on it (twice in a row each); `par`: T threads,
//     each with a clone carrying its own ConsoleData tag, thread t scanning inputs[t % n] R times.
//     -> {"seq":[[log..]..], "par":[[[log..]..]..]}
//
// {"kind":"conc", "rules":[..], "csymbols":[..], "console":bool, "jobs":[{"input":hex|"file":path,
//   "params":{..}?, "symbols":[..]?, "api":"list"|"callback"|"frag"}], "threads":T, "mode":"shared"|"clones",
//   "assign":[thread of job..], "seed":n, "rounds":R, "base_params":{..}, "base_symbols":[..]}
//     oracle: every job alone, sequentially, before anything else; par: the same jobs on T threads
//     (std::thread::scope, barrier start, seeded yields between scans, inside callbacks and inside
//     FragmentedMemory::fetch); again: the sequential oracle after the threads have finished.
//     -> {"oracle":[..], "par":[..], "again":[..]}
//
// {"kind":"seq", "rules":[..], "csymbols":[..]?, "params":{..}?, "inputs":[hex | {"xs":seed,"prefix":hex,"body":n,
//   "alphabet":hex,"mid":hex,"tail":k,"end":hex}..], "order":[index of input..]}
//     fresh: every input on a scanner compiled for that scan alone (the reference); seq: the inputs in `order` on
//     ONE scanner; clone_before: a clone made before the sequence scans every input afterwards, on another thread;
//     clone_after: a clone made after the sequence; last: the scanner again, every input, reverse order.  Full
//     results (match details included).
//     "reuse_buffer": true — every scan reads its input from one allocation overwritten in place (a read buffer).
//     -> {"fresh":[..], "seq":[{"input":i,"res":..}..], "clone_before":[..], "clone_after":[..], "last":[..]}
//
// {"kind":"nest", "rules":[..], "rules2":[..], "csymbols":[..]?, "params":{..}, "outer":{"input":hex|"file":p},
//   "inner":{..}, "target":"same"|"clone"|"other", "inner_api":"list"|"callback", "at":[k..] ([] = every match),
//   "deeper":bool}
//     re-entrancy on one thread: a callback-API scan of `outer`; inside its k-th RuleMatch callback a scan of `inner`
//     on the same scanner / a clone / another scanner (rules2); optionally one level deeper.  References: each
//     scan alone on a scanner compiled for it.
//     -> {"flat_outer", "flat_outer_list", "flat_inner", "nested_outer":{events, inner:[..]}, "after_outer", "after_inner"}
use std::sync::{Arc, Barrier, Mutex};

use boreal::compiler::CompilerBuilder;
use boreal::memory::{FragmentedMemory, MemoryParams, Region, RegionDescription};
use boreal::module::{Console, ConsoleData, Pe, PeData};
use boreal::scanner::{
    CallbackEvents, DefineSymbolError, FragmentedScanMode, ScanCallbackResult, ScanEvent, ScanParams,
};
use boreal::Scanner;
use bvh::scan::{add_rules, build_params, error_name, rule_json};
use bvh::util::*;
use serde_json::{json, Value};

type Sink = Arc<Mutex<Vec<String>>>;

fn main() {
    bvh::run_main(run);
}

fn run(case: &Value) -> Value {
    match case["kind"].as_str() {
        Some("hist") => hist(case),
        Some("hash") => hash(case),
        Some("conc") => conc(case),
        Some("seq") => seq(case),
        Some("nest") => nest(case),
        Some("script") => script(case),
        _ => json!({"error": "unknown kind"}),
    }
}

/// What the console callback given to the compiler does besides recording the message.
#[derive(Clone, Copy, Default)]
struct ConsoleBehaviour {
    /// time spent inside the callback (a slow logger): concurrent scans overlap inside it
    sleep_us: u64,
    /// the k-th call panics (once)
    panic_at: Option<u64>,
}

fn compile(case: &Value, sink: &Sink) -> Result<Scanner, String> {
    let b = ConsoleBehaviour { sleep_us: case["console_sleep_us"].as_u64().unwrap_or(0), panic_at: None };
    compile_with(case, sink, b)
}

fn compile_with(case: &Value, sink: &Sink, b: ConsoleBehaviour) -> Result<Scanner, String> {
    let s2 = sink.clone();
    let calls = Arc::new(std::sync::atomic::AtomicU64::new(0));
    let mut c = CompilerBuilder::new()
        .add_module(Console::with_callback(move |s| {
            let n = calls.fetch_add(1, std::sync::atomic::Ordering::SeqCst) + 1;
            if b.panic_at == Some(n) {
                panic!("c13: console callback panic");
            }
            if b.sleep_us > 0 {
                std::thread::sleep(std::time::Duration::from_micros(b.sleep_us));
            }
            s2.lock().unwrap().push(format!("d|{s}"));
        }))
        .build();
    if let Some(syms) = case["csymbols"].as_array() {
        for s in syms {
            let name = get_str(s, "name");
            let ok = if let Some(v) = s["int"].as_i64() {
                c.define_symbol(name, v)
            } else if let Some(v) = s["bool"].as_bool() {
                c.define_symbol(name, v)
            } else if let Some(v) = s["float"].as_f64() {
                c.define_symbol(name, v)
            } else if let Some(v) = s["bytes"].as_str() {
                c.define_symbol(name, unhex(v))
            } else {
                panic!("bad csymbol")
            };
            if !ok {
                return Err(format!("duplicate symbol {name}"));
            }
        }
    }
    add_rules(&mut c, case)?;
    Ok(c.finalize())
}

fn define(sc: &mut Scanner, s: &Value) -> Result<(), DefineSymbolError> {
    let name = get_str(s, "name");
    if let Some(v) = s["int"].as_i64() {
        sc.define_symbol(name, v)
    } else if let Some(v) = s["bool"].as_bool() {
        sc.define_symbol(name, v)
    } else if let Some(v) = s["float"].as_f64() {
        sc.define_symbol(name, v)
    } else if let Some(v) = s["bytes"].as_str() {
        sc.define_symbol(name, unhex(v))
    } else {
        panic!("bad symbol value")
    }
}

fn define_result(r: Result<(), DefineSymbolError>) -> &'static str {
    match r {
        Ok(()) => "ok",
        Err(DefineSymbolError::UnknownName) => "unknown_name",
        Err(DefineSymbolError::InvalidType) => "invalid_type",
    }
}

fn params_json(p: &ScanParams) -> Value {
    let ev = p.get_callback_events();
    let mut bits = 0;
    for (bit, flag) in [
        (1, CallbackEvents::RULE_MATCH),
        (2, CallbackEvents::RULE_NO_MATCH),
        (4, CallbackEvents::MODULE_IMPORT),
        (8, CallbackEvents::SCAN_STATISTICS),
        (16, CallbackEvents::STRING_REACHED_MATCH_LIMIT),
    ] {
        if (ev & flag) == flag {
            bits |= bit;
        }
    }
    let m = p.get_fragmented_scan_mode();
    let mode = if m == FragmentedScanMode::legacy() {
        0
    } else if m == FragmentedScanMode::fast() {
        1
    } else if m == FragmentedScanMode::single_pass() {
        2
    } else {
        3
    };
    json!({
        "compute_full_matches": p.get_compute_full_matches(),
        "match_max_length": p.get_match_max_length(),
        "string_max_nb_matches": p.get_string_max_nb_matches(),
        "include_not_matched": p.get_include_not_matched_rules(),
        "process_memory": p.get_process_memory(),
        "max_fetched_region_size": p.get_max_fetched_region_size(),
        "memory_chunk_size": p.get_memory_chunk_size(),
        "events": bits,
        "statistics": p.get_compute_statistics(),
        "mode": mode,
        "timeout": p.get_timeout_duration().map(|d| d.as_millis() as u64),
    })
}

/// One list-API scan reduced to what the property compares.
fn observe_scan(sc: &Scanner, input: &[u8], sink: &Sink) -> Value {
    sink.lock().unwrap().clear();
    let (err, r) = match sc.scan_mem(input) {
        Ok(r) => (None, r),
        Err((e, r)) => (Some(error_name(&e)), r),
    };
    let rules: Vec<Value> = r
        .rules
        .iter()
        .map(|r| {
            json!({"name": r.name, "matched": r.matched,
                   "strings": r.matches.iter().map(|s| json!({
                       "name": s.name,
                       "n": s.matches.len(),
                       "lens": s.matches.iter().map(|m| m.data.len()).collect::<Vec<_>>(),
                       "offsets": s.matches.iter().map(|m| m.offset).collect::<Vec<_>>()})).collect::<Vec<_>>()})
        })
        .collect();
    let logs = std::mem::take(&mut *sink.lock().unwrap());
    json!({"error": err, "rules": rules, "logs": logs})
}

/// The same probe through the callback API and through the fragmented APIs (one region): every entry point of
/// `Scanner` passes its own four fields to `Inner`.
fn observe_other_apis(sc: &Scanner, probe: &[u8], sink: &Sink) -> Value {
    let mut out = Vec::new();
    // scan_mem_with_callback
    sink.lock().unwrap().clear();
    let mut matched: Vec<String> = Vec::new();
    let res = sc.scan_mem_with_callback(probe, |ev| {
        if let ScanEvent::RuleMatch(r) = &ev {
            matched.push(r.name.to_string());
        }
        ScanCallbackResult::Continue
    });
    out.push(json!({"api": "mem_cb", "error": res.err().map(|e| error_name(&e)), "matched": matched,
                    "logs": std::mem::take(&mut *sink.lock().unwrap())}));
    // scan_fragmented
    let (err, r) = match sc.scan_fragmented(Pieces { mem: probe, piece: probe.len().max(1), cur: None, rng: None }) {
        Ok(r) => (None, r),
        Err((e, r)) => (Some(error_name(&e)), r),
    };
    let rules: Vec<Value> = r.rules.iter().map(|r| json!({"name": r.name, "matched": r.matched})).collect();
    out.push(json!({"api": "frag", "error": err, "rules": rules, "logs": std::mem::take(&mut *sink.lock().unwrap())}));
    // scan_fragmented_with_callback
    let mut matched: Vec<String> = Vec::new();
    let res = sc.scan_fragmented_with_callback(
        Pieces { mem: probe, piece: probe.len().max(1), cur: None, rng: None },
        |ev| {
            if let ScanEvent::RuleMatch(r) = &ev {
                matched.push(r.name.to_string());
            }
            ScanCallbackResult::Continue
        },
    );
    out.push(json!({"api": "frag_cb", "error": res.err().map(|e| error_name(&e)), "matched": matched,
                    "logs": std::mem::take(&mut *sink.lock().unwrap())}));
    json!(out)
}

fn observe(sc: &Scanner, probe: &[u8], probe_pe: Option<&[u8]>, sink: &Sink) -> Value {
    let mut o = json!({"params": params_json(sc.scan_params()), "probe": observe_scan(sc, probe, sink),
                       "other": observe_other_apis(sc, probe, sink)});
    if let Some(pe) = probe_pe {
        o["probe_pe"] = observe_scan(sc, pe, sink);
    }
    o
}

// ------------------------------------------------------------------------------------------------ histories
fn hist(case: &Value) -> Value {
    let sink: Sink = Arc::new(Mutex::new(Vec::new()));
    let scanner = match compile(case, &sink) {
        Ok(s) => s,
        Err(e) => return json!({"compile_error": e}),
    };
    let probe = get_bytes(case, "probe");
    let probe_pe = case["probe_pe"].as_str().map(|p| std::fs::read(p).expect("probe_pe"));
    let mut fam: Vec<Scanner> = vec![scanner];
    let mut steps = Vec::new();
    let first: Vec<Value> = fam.iter().map(|s| observe(s, &probe, probe_pe.as_deref(), &sink)).collect();
    for op in case["ops"].as_array().expect("ops") {
        let out = match get_str(op, "op") {
            "clone" => {
                let from = get_usize(op, "from");
                match fam.get(from) {
                    Some(s) => {
                        let c = s.clone();
                        fam.push(c);
                        json!({"cloned": fam.len() - 1})
                    }
                    None => json!("none"),
                }
            }
            "define" => match fam.get_mut(get_usize(op, "c")) {
                Some(s) => json!({"define": define_result(define(s, op))}),
                None => json!("none"),
            },
            "params" => match fam.get_mut(get_usize(op, "c")) {
                Some(s) => {
                    s.set_scan_params(build_params(&op["params"]));
                    json!("unit")
                }
                None => json!("none"),
            },
            "mdata" => match fam.get_mut(get_usize(op, "c")) {
                Some(s) => {
                    match get_str(op, "module") {
                        "console" => {
                            let tag = get_u64(op, "tag");
                            let s2 = sink.clone();
                            s.set_module_data::<Console>(ConsoleData::new(move |m| {
                                s2.lock().unwrap().push(format!("{tag}|{m}"));
                            }));
                        }
                        "pe" => s.set_module_data::<Pe>(PeData { is_signed: op["is_signed"].as_bool() }),
                        other => panic!("module {other}"),
                    }
                    json!("unit")
                }
                None => json!("none"),
            },
            "scan" => match fam.get(get_usize(op, "c")) {
                Some(s) => json!({"scan": observe_scan(s, &get_bytes(op, "input"), &sink)}),
                None => json!("none"),
            },
            other => panic!("op {other}"),
        };
        let obs: Vec<Value> = fam.iter().map(|s| observe(s, &probe, probe_pe.as_deref(), &sink)).collect();
        steps.push(json!({"out": out, "fam": obs}));
    }
    json!({"first": first, "steps": steps})
}

// ------------------------------------------------------------------------------------------------ hash cache
fn hash(case: &Value) -> Value {
    let sink: Sink = Arc::new(Mutex::new(Vec::new()));
    let scanner = match compile(case, &sink) {
        Ok(s) => s,
        Err(e) => return json!({"compile_error": e}),
    };
    let inputs: Vec<Vec<u8>> = case["inputs"].as_array().unwrap().iter().map(|h| unhex(h.as_str().unwrap())).collect();
    // sequential, same scanner, every input twice in a row, then all again in reverse order
    let mut order: Vec<usize> = Vec::new();
    for i in 0..inputs.len() {
        order.push(i);
        order.push(i);
    }
    for i in (0..inputs.len()).rev() {
        order.push(i);
    }
    let seq: Vec<Value> = order
        .iter()
        .map(|&i| json!({"input": i, "logs": observe_scan(&scanner, &inputs[i], &sink)["logs"]}))
        .collect();
    // parallel: clones with their own tagged console data
    let threads = get_usize(case, "threads").max(1);
    let rounds = get_usize(case, "rounds").max(1);
    let barrier = Barrier::new(threads);
    let psink: Sink = Arc::new(Mutex::new(Vec::new()));
    std::thread::scope(|sc| {
        for t in 0..threads {
            let mut mine = scanner.clone();
            let s2 = psink.clone();
            let input = &inputs[t % inputs.len()];
            let barrier = &barrier;
            mine.set_module_data::<Console>(ConsoleData::new(move |m| {
                s2.lock().unwrap().push(format!("{t}|{m}"));
            }));
            sc.spawn(move || {
                barrier.wait();
                for r in 0..rounds {
                    let _ = mine.scan_mem(input);
                    if (r + t) % 2 == 0 {
                        std::thread::yield_now();
                    }
                }
            });
        }
    });
    let all = std::mem::take(&mut *psink.lock().unwrap());
    let par: Vec<Value> = (0..threads)
        .map(|t| {
            let pre = format!("{t}|");
            let mine: Vec<&str> = all.iter().filter(|l| l.starts_with(&pre)).map(|l| &l[pre.len()..]).collect();
            json!({"input": t % inputs.len(), "logs": mine})
        })
        .collect();
    json!({"seq": seq, "par": par, "rounds": rounds})
}

// ------------------------------------------------------------------------------------------------ concurrency
struct Rng(u64);
impl Rng {
    fn next(&mut self) -> u64 {
        self.0 = self.0.wrapping_add(0x9E37_79B9_7F4A_7C15);
        let mut z = self.0;
        z = (z ^ (z >> 30)).wrapping_mul(0xBF58_476D_1CE4_E5B9);
        z = (z ^ (z >> 27)).wrapping_mul(0x94D0_49BB_1331_11EB);
        z ^ (z >> 31)
    }
    fn yields(&mut self, max: u64) {
        let n = self.next() % (max + 1);
        for _ in 0..n {
            std::thread::yield_now();
        }
        if self.next() % 16 == 0 {
            std::thread::sleep(std::time::Duration::from_micros(self.next() % 200));
        }
    }
}

/// Input cut in regions of `piece` bytes; yields in next/fetch when `rng` is given.
struct Pieces<'a> {
    mem: &'a [u8],
    piece: usize,
    cur: Option<usize>,
    rng: Option<Rng>,
}
impl std::fmt::Debug for Pieces<'_> {
    fn fmt(&self, f: &mut std::fmt::Formatter<'_>) -> std::fmt::Result {
        f.debug_struct("Pieces").finish()
    }
}
impl FragmentedMemory for Pieces<'_> {
    fn next(&mut self, _p: &MemoryParams) -> Option<RegionDescription> {
        let n = match self.cur {
            None => 0,
            Some(i) => i + 1,
        };
        self.cur = Some(n);
        let start = n * self.piece;
        if start >= self.mem.len() {
            return None;
        }
        if let Some(r) = &mut self.rng {
            r.yields(2);
        }
        Some(RegionDescription { start, length: self.piece.min(self.mem.len() - start) })
    }
    fn fetch(&mut self, _p: &MemoryParams) -> Option<Region<'_>> {
        let start = self.cur? * self.piece;
        if start >= self.mem.len() {
            return None;
        }
        if let Some(r) = &mut self.rng {
            r.yields(2);
        }
        let end = (start + self.piece).min(self.mem.len());
        Some(Region { start, mem: &self.mem[start..end] })
    }
    fn reset(&mut self) {
        self.cur = None;
    }
}

fn job_input(job: &Value) -> Vec<u8> {
    if let Some(h) = job["input"].as_str() {
        unhex(h)
    } else {
        std::fs::read(get_str(job, "file")).expect("job file")
    }
}

fn configure(sc: &mut Scanner, params: &Value, symbols: &Value) {
    if params.is_object() {
        sc.set_scan_params(build_params(params));
    }
    if let Some(syms) = symbols.as_array() {
        for s in syms {
            let _ = define(sc, s);
        }
    }
}

/// Run one job on `sc`; a panic of the scan is a result of the job ({"panic": msg}), never swallowed.
fn run_job(sc: &Scanner, job: &Value, input: &[u8], rng: Option<Rng>) -> Value {
    match std::panic::catch_unwind(std::panic::AssertUnwindSafe(|| run_job_inner(sc, job, input, rng))) {
        Ok(v) => v,
        Err(e) => json!({"panic": bvh::panic_message(&*e)}),
    }
}

/// `rng` (threads only) injects yields inside callbacks / fetches.
fn run_job_inner(sc: &Scanner, job: &Value, input: &[u8], mut rng: Option<Rng>) -> Value {
    match job["api"].as_str().unwrap_or("list") {
        "list" => {
            let (err, r) = match sc.scan_mem(input) {
                Ok(r) => (None, r),
                Err((e, r)) => (Some(error_name(&e)), r),
            };
            json!({"error": err, "rules": r.rules.iter().map(rule_json).collect::<Vec<_>>()})
        }
        "callback" => {
            let mut events: Vec<Value> = Vec::new();
            let res = sc.scan_mem_with_callback(input, |ev| {
                if let Some(r) = &mut rng {
                    r.yields(3);
                }
                events.push(match &ev {
                    ScanEvent::RuleMatch(r) => json!({"ev": "match", "rule": rule_json(r)}),
                    ScanEvent::RuleNoMatch(r) => json!({"ev": "nomatch", "rule": rule_json(r)}),
                    ScanEvent::ModuleImport(m) => json!({"ev": "import", "module": m.module.get_name()}),
                    ScanEvent::StringReachedMatchLimit(s) => {
                        json!({"ev": "limit", "rule": s.rule_name, "string": s.string_name})
                    }
                    _ => json!({"ev": "other"}),
                });
                ScanCallbackResult::Continue
            });
            // the order of StringReachedMatchLimit events is not part of the result (HashSet iteration)
            let err = res.err().map(|e| error_name(&e));
            json!({"error": err, "events": events})
        }
        "frag" => {
            let piece = job["piece"].as_u64().unwrap_or(64) as usize;
            let mem = Pieces { mem: input, piece: piece.max(1), cur: None, rng };
            let (err, r) = match scan_frag(sc, mem) {
                Ok(r) => (None, r),
                Err((e, r)) => (Some(e), r),
            };
            json!({"error": err, "rules": r})
        }
        other => panic!("api {other}"),
    }
}

fn scan_frag(sc: &Scanner, mem: Pieces<'_>) -> Result<Vec<Value>, (String, Vec<Value>)> {
    match sc.scan_fragmented(mem) {
        Ok(r) => Ok(r.rules.iter().map(rule_json).collect()),
        Err((e, r)) => Err((error_name(&e), r.rules.iter().map(rule_json).collect())),
    }
}

// ------------------------------------------------------------------------------------------------ sequences
fn seq_input(v: &Value) -> Vec<u8> {
    if let Some(h) = v.as_str() {
        return unhex(h);
    }
    // pseudo-random body over an alphabet between fixed parts (keeps big inputs out of the case files)
    let mut rng = Rng(v["xs"].as_u64().expect("xs"));
    let alphabet = get_bytes(v, "alphabet");
    let pick = |rng: &mut Rng| alphabet[(rng.next() >> 20) as usize % alphabet.len()];
    let mut out = get_bytes(v, "prefix");
    for _ in 0..get_usize(v, "body") {
        out.push(pick(&mut rng));
    }
    out.extend(get_bytes(v, "mid"));
    for _ in 0..get_usize(v, "tail") {
        out.push(pick(&mut rng));
    }
    out.extend(get_bytes(v, "end"));
    out
}

fn full_scan(sc: &Scanner, input: &[u8]) -> Value {
    match std::panic::catch_unwind(std::panic::AssertUnwindSafe(|| {
        let (err, r) = match sc.scan_mem(input) {
            Ok(r) => (None, r),
            Err((e, r)) => (Some(error_name(&e)), r),
        };
        json!({"error": err, "rules": r.rules.iter().map(rule_json).collect::<Vec<_>>()})
    })) {
        Ok(v) => v,
        Err(e) => json!({"panic": bvh::panic_message(&*e)}),
    }
}

fn seq(case: &Value) -> Value {
    let sink: Sink = Arc::new(Mutex::new(Vec::new()));
    let build = || -> Result<Scanner, String> {
        let mut s = compile(case, &sink)?;
        if case["params"].is_object() {
            s.set_scan_params(build_params(&case["params"]));
        }
        Ok(s)
    };
    let inputs: Vec<Vec<u8>> = case["inputs"].as_array().expect("inputs").iter().map(seq_input).collect();
    let mut fresh = Vec::new();
    for input in &inputs {
        match build() {
            Ok(s) => fresh.push(full_scan(&s, input)),
            Err(e) => return json!({"compile_error": e}),
        }
    }
    let scanner = build().unwrap();
    let before = scanner.clone();
    let order: Vec<usize> = case["order"].as_array().expect("order").iter().map(|v| v.as_u64().unwrap() as usize).collect();
    // "reuse_buffer": every scan of the sequence reads its input from ONE allocation, overwritten in place
    // (a read buffer): same address, same or different length, different bytes
    let maxlen = inputs.iter().map(Vec::len).max().unwrap_or(0).max(1);
    let mut buffer: Option<Vec<u8>> = if get_bool(case, "reuse_buffer") { Some(Vec::with_capacity(maxlen)) } else { None };
    let mut addresses: Vec<usize> = Vec::new();
    let seq: Vec<Value> = order
        .iter()
        .map(|&i| json!({"input": i, "res": scan_via(&scanner, &inputs[i], buffer.as_mut(), &mut addresses)}))
        .collect();
    let (clone_before, mut buffer, mut addresses): (Vec<Value>, Option<Vec<u8>>, Vec<usize>) = std::thread::scope(|sc| {
        let inputs = &inputs;
        let before = &before;
        sc.spawn(move || {
            let r = inputs.iter().map(|i| scan_via(before, i, buffer.as_mut(), &mut addresses)).collect();
            (r, buffer, addresses)
        })
        .join()
        .unwrap()
    });
    let after = scanner.clone();
    let clone_after: Vec<Value> = inputs.iter().map(|i| scan_via(&after, i, buffer.as_mut(), &mut addresses)).collect();
    let mut last: Vec<Value> =
        inputs.iter().rev().map(|i| scan_via(&scanner, i, buffer.as_mut(), &mut addresses)).collect();
    last.reverse();
    addresses.sort_unstable();
    addresses.dedup();
    json!({"fresh": fresh, "seq": seq, "clone_before": clone_before, "clone_after": clone_after, "last": last,
           "buffer_addresses": addresses.len()})
}

fn scan_via(sc: &Scanner, input: &[u8], buffer: Option<&mut Vec<u8>>, addresses: &mut Vec<usize>) -> Value {
    match buffer {
        Some(b) => {
            b.clear();
            b.extend_from_slice(input); // capacity is the longest input: no reallocation
            addresses.push(b.as_ptr() as usize);
            full_scan(sc, &b[..])
        }
        None => full_scan(sc, input),
    }
}

// ------------------------------------------------------------------------------------------------ re-entrancy
fn event_json(ev: &ScanEvent) -> Value {
    match ev {
        ScanEvent::RuleMatch(r) => json!({"ev": "match", "rule": rule_json(r)}),
        ScanEvent::RuleNoMatch(r) => json!({"ev": "nomatch", "rule": rule_json(r)}),
        ScanEvent::ModuleImport(m) => json!({"ev": "import", "module": m.module.get_name()}),
        _ => json!({"ev": "other"}),
    }
}

/// Callback-API scan; at the RuleMatch events whose 1-based number is in `at` (or at every one when `at` is
/// empty) `inside` is run on the same thread, before the callback returns.
fn events_scan(sc: &Scanner, input: &[u8], at: Option<&[u64]>, inside: &mut (dyn FnMut() -> Value + Send + Sync)) -> Value {
    match std::panic::catch_unwind(std::panic::AssertUnwindSafe(|| {
        let mut events: Vec<Value> = Vec::new();
        let mut inner: Vec<Value> = Vec::new();
        let mut nmatch = 0u64;
        let res = sc.scan_mem_with_callback(input, |ev| {
            events.push(event_json(&ev));
            if matches!(ev, ScanEvent::RuleMatch(_)) {
                nmatch += 1;
                if let Some(at) = at {
                    if at.is_empty() || at.contains(&nmatch) {
                        inner.push(inside());
                    }
                }
            }
            ScanCallbackResult::Continue
        });
        json!({"error": res.err().map(|e| error_name(&e)), "events": events, "inner": inner})
    })) {
        Ok(v) => v,
        Err(e) => json!({"panic": bvh::panic_message(&*e)}),
    }
}

fn full_scan_file(sc: &Scanner, path: &std::path::Path) -> Value {
    match std::panic::catch_unwind(std::panic::AssertUnwindSafe(|| {
        let (err, r) = match sc.scan_file(path) {
            Ok(r) => (None, r),
            Err((e, r)) => (Some(error_name(&e)), r),
        };
        json!({"error": err, "rules": r.rules.iter().map(rule_json).collect::<Vec<_>>()})
    })) {
        Ok(v) => v,
        Err(e) => json!({"panic": bvh::panic_message(&*e)}),
    }
}

fn events_scan_file(
    sc: &Scanner,
    path: &std::path::Path,
    at: Option<&[u64]>,
    inside: &mut (dyn FnMut() -> Value + Send + Sync),
) -> Value {
    match std::panic::catch_unwind(std::panic::AssertUnwindSafe(|| {
        let mut events: Vec<Value> = Vec::new();
        let mut inner: Vec<Value> = Vec::new();
        let mut nmatch = 0u64;
        let res = sc.scan_file_with_callback(path, |ev| {
            events.push(event_json(&ev));
            if matches!(ev, ScanEvent::RuleMatch(_)) {
                nmatch += 1;
                if let Some(at) = at {
                    if at.is_empty() || at.contains(&nmatch) {
                        inner.push(inside());
                    }
                }
            }
            ScanCallbackResult::Continue
        });
        json!({"error": res.err().map(|e| error_name(&e)), "events": events, "inner": inner})
    })) {
        Ok(v) => v,
        Err(e) => json!({"panic": bvh::panic_message(&*e)}),
    }
}

/// nest with "file_api": true — the same protocol through scan_file / scan_file_with_callback (inputs written to
/// scratch files first).
fn nest_files(case: &Value) -> Value {
    let sink: Sink = Arc::new(Mutex::new(Vec::new()));
    let other_case = json!({"rules": case["rules2"], "csymbols": case["csymbols"]});
    let params = build_params(&case["params"]);
    let build = |other: bool| -> Result<Scanner, String> {
        let mut s = compile(if other { &other_case } else { case }, &sink)?;
        s.set_scan_params(params.clone());
        Ok(s)
    };
    static COUNTER: std::sync::atomic::AtomicU64 = std::sync::atomic::AtomicU64::new(0);
    let n = COUNTER.fetch_add(1, std::sync::atomic::Ordering::SeqCst);
    let dir = std::env::temp_dir().join(format!("c13_nest_{}_{}", std::process::id(), n));
    std::fs::create_dir_all(&dir).expect("scratch dir");
    let outer_p = dir.join("outer");
    let inner_p = dir.join("inner");
    std::fs::write(&outer_p, job_input(&case["outer"])).expect("write");
    std::fs::write(&inner_p, job_input(&case["inner"])).expect("write");
    let target = case["target"].as_str().unwrap_or("same");
    let inner_cb = case["inner_api"].as_str() == Some("callback");
    let deeper = get_bool(case, "deeper");
    let at: Vec<u64> = case["at"].as_array().map(|a| a.iter().map(|v| v.as_u64().unwrap()).collect()).unwrap_or_default();
    let mut nothing = || Value::Null;
    let out = (|| {
        let a0 = match build(false) {
            Ok(s) => s,
            Err(e) => return json!({"compile_error": e}),
        };
        let flat_outer = events_scan_file(&a0, &outer_p, None, &mut nothing);
        let flat_outer_list = full_scan_file(&build(false).unwrap(), &outer_p);
        let t0 = match build(target == "other") {
            Ok(s) => s,
            Err(e) => return json!({"compile_error": e}),
        };
        let flat_inner =
            if inner_cb { events_scan_file(&t0, &inner_p, None, &mut nothing) } else { full_scan_file(&t0, &inner_p) };
        let a = build(false).unwrap();
        let tgt_owned = match target {
            "same" => None,
            "clone" => Some(a.clone()),
            _ => Some(build(true).unwrap()),
        };
        let tgt: &Scanner = tgt_owned.as_ref().unwrap_or(&a);
        let mut inside = || {
            if inner_cb {
                let mut deepest = || full_scan_file(&a, &outer_p);
                events_scan_file(tgt, &inner_p, if deeper { Some(&[1][..]) } else { None }, &mut deepest)
            } else {
                full_scan_file(tgt, &inner_p)
            }
        };
        let nested_outer = events_scan_file(&a, &outer_p, Some(&at[..]), &mut inside);
        let after_outer = events_scan_file(&a, &outer_p, None, &mut nothing);
        let after_inner =
            if inner_cb { events_scan_file(tgt, &inner_p, None, &mut nothing) } else { full_scan_file(tgt, &inner_p) };
        json!({"flat_outer": flat_outer, "flat_outer_list": flat_outer_list, "flat_inner": flat_inner,
               "nested_outer": nested_outer, "after_outer": after_outer, "after_inner": after_inner})
    })();
    let _ = std::fs::remove_dir_all(&dir);
    out
}

fn nest(case: &Value) -> Value {
    if get_bool(case, "file_api") {
        return nest_files(case);
    }
    let sink: Sink = Arc::new(Mutex::new(Vec::new()));
    let other_case = json!({"rules": case["rules2"], "csymbols": case["csymbols"]});
    let params = build_params(&case["params"]);
    let build = |other: bool| -> Result<Scanner, String> {
        let mut s = compile(if other { &other_case } else { case }, &sink)?;
        s.set_scan_params(params.clone());
        Ok(s)
    };
    let outer_in = job_input(&case["outer"]);
    let inner_in = job_input(&case["inner"]);
    let target = case["target"].as_str().unwrap_or("same");
    let inner_cb = case["inner_api"].as_str() == Some("callback");
    let deeper = get_bool(case, "deeper");
    let at: Vec<u64> = case["at"].as_array().map(|a| a.iter().map(|v| v.as_u64().unwrap()).collect()).unwrap_or_default();
    let mut nothing = || Value::Null;

    // references: each scan alone on a scanner compiled for it
    let a0 = match build(false) {
        Ok(s) => s,
        Err(e) => return json!({"compile_error": e}),
    };
    let flat_outer = events_scan(&a0, &outer_in, None, &mut nothing);
    let flat_outer_list = full_scan(&build(false).unwrap(), &outer_in);
    let t0 = match build(target == "other") {
        Ok(s) => s,
        Err(e) => return json!({"compile_error": e}),
    };
    let flat_inner = if inner_cb { events_scan(&t0, &inner_in, None, &mut nothing) } else { full_scan(&t0, &inner_in) };

    // nested: the inner scan runs inside the RuleMatch callback of the outer one
    let a = build(false).unwrap();
    let tgt_owned = match target {
        "same" => None,
        "clone" => Some(a.clone()),
        _ => Some(build(true).unwrap()),
    };
    let tgt: &Scanner = tgt_owned.as_ref().unwrap_or(&a);
    let mut inside = || {
        if inner_cb {
            // optionally one level deeper: a list scan of the outer input, on the outer scanner, from the inner callback
            let mut deepest = || full_scan(&a, &outer_in);
            events_scan(tgt, &inner_in, if deeper { Some(&[1][..]) } else { None }, &mut deepest)
        } else {
            full_scan(tgt, &inner_in)
        }
    };
    let nested_outer = events_scan(&a, &outer_in, Some(&at[..]), &mut inside);
    // and afterwards the scanners still give the same results
    let after_outer = events_scan(&a, &outer_in, None, &mut nothing);
    let after_inner = if inner_cb { events_scan(tgt, &inner_in, None, &mut nothing) } else { full_scan(tgt, &inner_in) };
    json!({"flat_outer": flat_outer, "flat_outer_list": flat_outer_list, "flat_inner": flat_inner,
           "nested_outer": nested_outer, "after_outer": after_outer, "after_inner": after_inner})
}

// ------------------------------------------------------------------------------------------------ scripts
fn params_with_timeout(p: &Value) -> ScanParams {
    let sp = build_params(p);
    match p["timeout_ms"].as_u64() {
        Some(ms) => sp.timeout_duration(Some(std::time::Duration::from_millis(ms))),
        None => sp,
    }
}

/// One scan of a script: list API, callback API, or callback API aborting at the first event.
fn script_scan(sc: &Scanner, input: &[u8], api: &str) -> Value {
    match api {
        "list" => full_scan(sc, input),
        "callback" => {
            let mut nothing = || Value::Null;
            events_scan(sc, input, None, &mut nothing)
        }
        "abort" => match std::panic::catch_unwind(std::panic::AssertUnwindSafe(|| {
            let mut events: Vec<Value> = Vec::new();
            let res = sc.scan_mem_with_callback(input, |ev| {
                events.push(event_json(&ev));
                ScanCallbackResult::Abort
            });
            json!({"error": res.err().map(|e| error_name(&e)), "events": events})
        })) {
            Ok(v) => v,
            Err(e) => json!({"panic": bvh::panic_message(&*e)}),
        },
        other => panic!("api {other}"),
    }
}

/// {"kind":"script", "rules":[..], "inputs":[hex..], "console_panic_at":k?, "steps":[
///    {"op":"scan","on":name,"input":i,"api":"list"|"callback"|"abort"} | {"op":"params","on":name,"params":{..,
///    "timeout_ms":n?}} | {"op":"clone","from":name,"to":name} | {"op":"sleep","ms":n} ]}
/// Scanner "s" is the compiled one.  refs: every scan step alone, on a scanner compiled for it and configured with
/// the parameters its scanner has at that step, on a thread of its own, all of them BEFORE the script runs;
/// got: the script, on one thread.
fn script(case: &Value) -> Value {
    let sink: Sink = Arc::new(Mutex::new(Vec::new()));
    let inputs: Vec<Vec<u8>> = case["inputs"].as_array().expect("inputs").iter().map(seq_input).collect();
    let steps = case["steps"].as_array().expect("steps");
    // pass 1: which parameters does each scan run under
    let mut cur: std::collections::HashMap<String, Value> = std::collections::HashMap::new();
    cur.insert("s".into(), Value::Null);
    let mut refs = Vec::new();
    for st in steps {
        match get_str(st, "op") {
            "params" => {
                cur.insert(get_str(st, "on").into(), st["params"].clone());
            }
            "clone" => {
                let p = cur.get(get_str(st, "from")).cloned().unwrap_or(Value::Null);
                cur.insert(get_str(st, "to").into(), p);
            }
            "scan" => {
                let p = cur.get(get_str(st, "on")).cloned().unwrap_or(Value::Null);
                let input = &inputs[get_usize(st, "input")];
                let api = st["api"].as_str().unwrap_or("list");
                let sink = &sink;
                let r = std::thread::scope(|sc| {
                    sc.spawn(move || match compile_with(case, sink, ConsoleBehaviour::default()) {
                        Ok(mut f) => {
                            if p.is_object() {
                                f.set_scan_params(params_with_timeout(&p));
                            }
                            script_scan(&f, input, api)
                        }
                        Err(e) => json!({"compile_error": e}),
                    })
                    .join()
                    .unwrap_or_else(|_| json!({"panic": "reference thread"}))
                });
                refs.push(r);
            }
            _ => (),
        }
    }
    // pass 2: the script
    let b = ConsoleBehaviour { sleep_us: 0, panic_at: case["console_panic_at"].as_u64() };
    let main = match compile_with(case, &sink, b) {
        Ok(s) => s,
        Err(e) => return json!({"compile_error": e}),
    };
    let mut fam: std::collections::HashMap<String, Scanner> = std::collections::HashMap::new();
    fam.insert("s".into(), main);
    let mut got = Vec::new();
    for st in steps {
        match get_str(st, "op") {
            "params" => fam.get_mut(get_str(st, "on")).expect("scanner").set_scan_params(params_with_timeout(&st["params"])),
            "clone" => {
                let c = fam.get(get_str(st, "from")).expect("scanner").clone();
                fam.insert(get_str(st, "to").into(), c);
            }
            "sleep" => std::thread::sleep(std::time::Duration::from_millis(get_u64(st, "ms"))),
            "scan" => {
                let sc = fam.get(get_str(st, "on")).expect("scanner");
                got.push(script_scan(sc, &inputs[get_usize(st, "input")], st["api"].as_str().unwrap_or("list")));
            }
            other => panic!("op {other}"),
        }
    }
    json!({"refs": refs, "got": got})
}

fn conc(case: &Value) -> Value {
    let sink: Sink = Arc::new(Mutex::new(Vec::new()));
    let mut scanner = match compile(case, &sink) {
        Ok(s) => s,
        Err(e) => return json!({"compile_error": e}),
    };
    configure(&mut scanner, &case["base_params"], &case["base_symbols"]);
    let jobs = case["jobs"].as_array().expect("jobs");
    let inputs: Vec<Vec<u8>> = jobs.iter().map(job_input).collect();
    let shared = case["mode"].as_str() == Some("shared");
    let threads = get_usize(case, "threads").max(1);
    let rounds = case["rounds"].as_u64().unwrap_or(1).max(1) as usize;
    let seed = case["seed"].as_u64().unwrap_or(0);
    let assign: Vec<usize> = case["assign"].as_array().unwrap().iter().map(|v| v.as_u64().unwrap() as usize % threads).collect();

    let sequential = |scanner: &Scanner| -> Vec<Value> {
        jobs.iter()
            .zip(&inputs)
            .map(|(job, input)| {
                if shared {
                    run_job(scanner, job, input, None)
                } else {
                    let mut c = scanner.clone();
                    configure(&mut c, &job["params"], &job["symbols"]);
                    run_job(&c, job, input, None)
                }
            })
            .collect()
    };
    // the oracle runs on a scanner of its own, compiled separately: what the threads do to the shared one
    // (and to its clones) cannot reach it; `again` is the shared scanner after the threads
    let mut oracle_scanner = compile_with(case, &sink, ConsoleBehaviour::default()).expect("second compilation");
    configure(&mut oracle_scanner, &case["base_params"], &case["base_symbols"]);
    let oracle = sequential(&oracle_scanner);

    // threads
    let results: Mutex<Vec<Vec<Value>>> = Mutex::new(vec![Vec::new(); jobs.len()]);
    let barrier = Barrier::new(threads);
    std::thread::scope(|sc| {
        for t in 0..threads {
            let mine: Vec<usize> = (0..jobs.len()).filter(|&j| assign[j] == t).collect();
            let scanner = &scanner;
            let results = &results;
            let barrier = &barrier;
            let inputs = &inputs;
            sc.spawn(move || {
                barrier.wait();
                let mut rng = Rng(seed ^ (t as u64 + 1).wrapping_mul(0x1234_5678_9ABC_DEF1));
                // a clone per thread, reconfigured for each job (the documented use), or one shared reference
                let mut own = if shared { None } else { Some(scanner.clone()) };
                for r in 0..rounds {
                    for &j in &mine {
                        rng.yields(4);
                        let job = &jobs[j];
                        let sub = Rng(rng.next());
                        let out = match &mut own {
                            None => run_job(scanner, job, &inputs[j], Some(sub)),
                            Some(c) => {
                                if r % 2 == 1 {
                                    // every other round from a fresh clone of the shared original
                                    *c = scanner.clone();
                                }
                                // back to the base configuration, then the job's
                                c.set_scan_params(scanner.scan_params().clone());
                                configure(c, &case["base_params"], &case["base_symbols"]);
                                configure(c, &job["params"], &job["symbols"]);
                                run_job(c, job, &inputs[j], Some(sub))
                            }
                        };
                        results.lock().unwrap()[j].push(out);
                    }
                }
            });
        }
    });
    let par = results.into_inner().unwrap();
    let again = sequential(&scanner);
    json!({"oracle": oracle, "par": par, "again": again})
}
