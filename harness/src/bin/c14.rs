// C14 (also used by C11/C12): generic compile+scan (bvh::scan) plus the matcher kind of every string
// ("Literals" / "Atomized {..}" / "Raw"), read through the hook Scanner::verif_describe_strings.
use serde_json::{json, Value};

pub fn run(case: &Value) -> Value {
    match bvh::scan::compile(case) {
        Err(e) => json!({"compile_error": e}),
        Ok(scanner) => {
            let kinds: Vec<String> = scanner
                .verif_describe_strings()
                .iter()
                .map(|d| d.kind.split_whitespace().next().unwrap_or("").to_string())
                .collect();
            let mut out = bvh::scan::scan_with(&scanner, case);
            out["kinds"] = json!(kinds);
            out
        }
    }
}

fn main() {
    bvh::run_main(run);
}
