// C19: drive the real LinuxProcessMemory over synthetic /proc files (hook verif_process_memory).
use std::fs::File;

use boreal::memory::MemoryParams;
use serde_json::{json, Value};

use bvh::util::*;

pub fn run(case: &Value) -> Value {
    let maps = File::open(get_str(case, "maps")).unwrap();
    let mem = File::open(get_str(case, "mem")).unwrap();
    let pagemap = File::open(get_str(case, "pagemap")).unwrap();
    let page = get_usize(case, "page");
    let params = MemoryParams {
        max_fetched_region_size: get_usize(case, "max_fetch"),
        memory_chunk_size: get_opt_usize(case, "chunk"),
        can_refetch_regions: true,
    };
    let mut obj = boreal::scanner::verif_process_memory(maps, mem, pagemap, page);
    let mut outs = Vec::new();
    for op in case["ops"].as_array().unwrap() {
        match op.as_str().unwrap() {
            "next" => match obj.next(&params) {
                Some(d) => outs.push(json!({"t": "desc", "start": d.start, "len": d.length})),
                None => outs.push(json!({"t": "none"})),
            },
            "fetch" => match obj.fetch(&params) {
                Some(r) => outs.push(json!({"t": "fetched", "start": r.start, "hex": hex(r.mem)})),
                None => outs.push(json!({"t": "none"})),
            },
            "reset" => {
                obj.reset();
                outs.push(json!({"t": "unit"}));
            }
            o => panic!("unknown op {o}"),
        }
    }
    json!({"outs": outs})
}

fn main() {
    bvh::run_main(run);
}
