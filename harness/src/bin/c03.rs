// C03: regex strings and the `matches` operator — compile, describe (hook verif_describe_strings), scan each input.
#[path = "hirdesc/mod.rs"]
mod hirdesc;

fn main() {
    bvh::run_main(hirdesc::run);
}
