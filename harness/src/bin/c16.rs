// C16: read the values of hash / math / string module functions through the real compiler and evaluator.
//
// A user module `probe` (public module API of boreal, no hook) exposes probe.i(id, int), probe.f(id, float),
// probe.b(id, bytes), probe.t(id, bool): each records (id, value) and returns 1.  A probe whose argument is undefined
// is never called (the evaluator poisons the whole call), so an id without record = undefined.
//
// Case JSON:  {"rules": "<yara text>", "nprobes": n, "input": {"mem": hex} | {"regions": [...]} |
//              {"fill": {"pattern": hex, "repeat": k, "splits": [k1, ..]?}}, "params": {...}}
// Result:     {"vals": [null | {"i": "<i64>"} | {"f": "<u64 bits>"} | {"b": hex} | {"t": bool}], "error": null|..}
//             or {"compile_error": text}; a panic is reported by run_main as {"panic": msg}.
use std::cell::RefCell;
use std::collections::HashMap;

use boreal::compiler::CompilerBuilder;
use boreal::module::{EvalContext, Module, StaticValue, Type, Value as MValue};
use serde_json::{json, Value};

use bvh::scan::{build_params, error_name, make_regions};
use bvh::util::*;

thread_local! {
    static LOG: RefCell<Vec<(i64, Value)>> = RefCell::new(Vec::new());
}

#[derive(Debug)]
struct Probe;

fn record(args: Vec<MValue>) -> Option<MValue> {
    let mut it = args.into_iter();
    let id = match it.next()? {
        MValue::Integer(i) => i,
        _ => return None,
    };
    let v = match it.next()? {
        MValue::Integer(i) => json!({"i": i.to_string()}),
        MValue::Float(f) => json!({"f": f.to_bits().to_string()}),
        MValue::Bytes(b) => json!({"b": hex(&b)}),
        MValue::Boolean(b) => json!({"t": b}),
        _ => return None,
    };
    LOG.with(|l| l.borrow_mut().push((id, v)));
    Some(MValue::Integer(1))
}

fn probe_fn(_ctx: &mut EvalContext, args: Vec<MValue>) -> Option<MValue> {
    record(args)
}

impl Module for Probe {
    fn get_name(&self) -> &'static str {
        "probe"
    }

    fn get_static_values(&self) -> HashMap<&'static str, StaticValue> {
        [
            ("i", StaticValue::function(probe_fn, vec![vec![Type::Integer, Type::Integer]], Type::Integer)),
            ("f", StaticValue::function(probe_fn, vec![vec![Type::Integer, Type::Float]], Type::Integer)),
            ("b", StaticValue::function(probe_fn, vec![vec![Type::Integer, Type::Bytes]], Type::Integer)),
            ("t", StaticValue::function(probe_fn, vec![vec![Type::Integer, Type::Boolean]], Type::Integer)),
        ]
        .into()
    }
}

pub fn run(case: &Value) -> Value {
    let mut c = CompilerBuilder::new().add_module(Probe).build();
    if let Err(e) = c.add_rules_str(get_str(case, "rules")) {
        return json!({"compile_error": format!("{e}")});
    }
    let mut scanner = c.finalize();
    scanner.set_scan_params(build_params(&case["params"]));
    LOG.with(|l| l.borrow_mut().clear());
    let input = &case["input"];
    let res = if let Some(h) = input["mem"].as_str() {
        let mem = unhex(h);
        scanner.scan_mem(&mem)
    } else if input["fill"].is_object() {
        // huge periodic input, described by a short pattern and a repeat count (the case file stays small);
        // with "splits" the same bytes are delivered as adjacent regions of a fragmented memory starting at 0
        let f = &input["fill"];
        let pat = get_bytes(f, "pattern");
        let rep = get_usize(f, "repeat");
        if let Some(splits) = f["splits"].as_array() {
            let mut regions = Vec::new();
            let mut addr = 0usize;
            for k in splits {
                let data = pat.repeat(k.as_u64().unwrap() as usize);
                let len = data.len();
                regions.push((addr, data, false, None));
                addr += len;
            }
            scanner.scan_fragmented(bvh::scan::Regions {
                regions,
                cur: None,
                log: std::sync::Arc::new(std::sync::Mutex::new(Vec::new())),
            })
        } else {
            let mem = pat.repeat(rep);
            scanner.scan_mem(&mem)
        }
    } else {
        scanner.scan_fragmented(make_regions(input))
    };
    let err = res.err().map(|(e, _)| error_name(&e));
    let n = get_usize(case, "nprobes");
    let mut vals = vec![Value::Null; n];
    let mut calls = vec![0u64; n];
    LOG.with(|l| {
        for (id, v) in l.borrow().iter() {
            if let Some(slot) = usize::try_from(*id).ok().filter(|i| *i < n) {
                // a probe evaluated twice must see the same value twice; keep the first, flag a difference
                if calls[slot] > 0 && vals[slot] != *v {
                    vals[slot] = json!({"unstable": [vals[slot].clone(), v.clone()]});
                } else {
                    vals[slot] = v.clone();
                }
                calls[slot] += 1;
            }
        }
    });
    json!({"vals": vals, "error": err})
}

fn main() {
    bvh::run_main(run);
}
