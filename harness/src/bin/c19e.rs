// C19 end-to-end: a cooperating victim process (this same binary with argument "victim") maps anonymous
// and file-backed regions, plants needles, dirties pages and waits; the parent scans it with
// Scanner::scan_process under several chunk / fetch settings and reports the match addresses that fall
// inside the planted mappings.
use std::io::{BufRead, Read, Write};
use std::process::{Command, Stdio};

use serde_json::{json, Value};

fn needle() -> Vec<u8> {
    // built at run time so that the needle is not a constant of the victim's image
    let mut v = b"VRF".to_vec();
    v.extend_from_slice(b"NDL");
    v.extend_from_slice(&[0x5f, 0x30, 0x31, 0xfe, 0xed, 0x42]);
    v
}

/// Where the file behind a file mapping lives: the work directory, or /dev/shm (POSIX shared memory objects are
/// regular files of a tmpfs there) when the mapping says `"dir": "shm"`.
fn victim_path(case: &Value, m: &Value, pid: u32, i: usize) -> String {
    if m["dir"].as_str() == Some("shm") {
        format!("/dev/shm/bvh_victim_{pid}_{i}.bin")
    } else {
        format!("{}/victim_{}_{}.bin", case["workdir"].as_str().unwrap(), pid, i)
    }
}

fn victim() {
    let mut line = String::new();
    std::io::stdin().lock().read_line(&mut line).unwrap();
    let case: Value = serde_json::from_str(&line).unwrap();
    let nd = needle();
    let page = 4096usize;
    let mut bases = Vec::new();
    let mut keep = Vec::new();
    for (i, m) in case["mappings"].as_array().unwrap().iter().enumerate() {
        let len = m["pages"].as_u64().unwrap() as usize * page;
        let kind = m["kind"].as_str().unwrap();
        let ptr = if kind == "anon_shared" {
            // A shared anonymous mapping (the kernel lists it as `/dev/zero (deleted)`): backed by its own shmem
            // object, so never merged with a neighbour.
            // Safety: plain anonymous shared mapping
            unsafe {
                libc::mmap(std::ptr::null_mut(), len, libc::PROT_READ | libc::PROT_WRITE,
                           libc::MAP_SHARED | libc::MAP_ANONYMOUS, -1, 0)
            }
        } else if kind == "anon" {
            // An anonymous mapping between two inaccessible guard pages: the kernel merges adjacent anonymous
            // mappings of equal protection into one region, which would move chunk boundaries and fetch caps.
            // Safety: plain anonymous private mapping, then a protection change inside it
            unsafe {
                let whole = libc::mmap(std::ptr::null_mut(), len + 2 * page, libc::PROT_NONE,
                                       libc::MAP_PRIVATE | libc::MAP_ANONYMOUS, -1, 0);
                assert!(whole != libc::MAP_FAILED);
                let inner = whole.cast::<u8>().add(page).cast::<libc::c_void>();
                assert!(libc::mprotect(inner, len, libc::PROT_READ | libc::PROT_WRITE) == 0);
                inner
            }
        } else {
            let path = victim_path(&case, m, std::process::id(), i);
            // the mapping starts `foff` bytes into the file (a multiple of the page size); offsets of the case
            // are relative to the mapping
            let foff = m["foff_pages"].as_u64().unwrap_or(0) as usize * page;
            let flen = m["file_len"].as_u64().unwrap() as usize;
            let mut content = vec![0u8; foff + flen];
            for (k, b) in content.iter_mut().enumerate() {
                *b = (k % 251) as u8 | 0x80;
            }
            for o in m["disk_needles"].as_array().unwrap() {
                let o = o.as_u64().unwrap() as usize;
                if o + nd.len() <= flen {
                    content[foff + o..foff + o + nd.len()].copy_from_slice(&nd);
                }
            }
            std::fs::write(&path, &content).unwrap();
            let f = std::fs::OpenOptions::new().read(true).write(true).open(&path).unwrap();
            use std::os::unix::io::AsRawFd;
            let flags = if kind == "file_shared" { libc::MAP_SHARED } else { libc::MAP_PRIVATE };
            // Safety: mapping a regular file we just created
            let p = unsafe {
                libc::mmap(std::ptr::null_mut(), len, libc::PROT_READ | libc::PROT_WRITE, flags, f.as_raw_fd(),
                           foff as libc::off_t)
            };
            keep.push(f);
            p
        };
        assert!(ptr != libc::MAP_FAILED);
        // Safety: the mapping is ours and `len` bytes long
        let mem = unsafe { std::slice::from_raw_parts_mut(ptr.cast::<u8>(), len) };
        if kind == "anon" || kind == "anon_shared" {
            for (k, b) in mem.iter_mut().enumerate() {
                *b = (k % 241) as u8 | 0x80;
            }
        }
        for o in m["erase"].as_array().unwrap() {
            // overwrite an on-disk needle in memory only (private) or everywhere (shared)
            let o = o.as_u64().unwrap() as usize;
            if o + nd.len() <= len {
                for b in &mut mem[o..o + nd.len()] {
                    *b = 0x81;
                }
            }
        }
        for o in m["plant"].as_array().unwrap() {
            let o = o.as_u64().unwrap() as usize;
            if o + nd.len() <= len {
                mem[o..o + nd.len()].copy_from_slice(&nd);
            }
        }
        if m["lookalike"].as_bool() == Some(true) {
            // The backing file is deleted once mapped (the kernel then lists the mapping as `<path> (deleted)`)
            // and ANOTHER file is created under exactly that name, holding other bytes: whatever the scanner
            // opens under the listed name is not the file behind the mapping (its inode differs).
            let path = victim_path(&case, m, std::process::id(), i);
            std::fs::remove_file(&path).unwrap();
            let foff = m["foff_pages"].as_u64().unwrap_or(0) as usize * page;
            let mut content = vec![0x82u8; foff + len];
            for o in m["decoys"].as_array().unwrap() {
                let o = o.as_u64().unwrap() as usize;
                if o + nd.len() <= len {
                    content[foff + o..foff + o + nd.len()].copy_from_slice(&nd);
                }
            }
            std::fs::write(format!("{path} (deleted)"), &content).unwrap();
        }
        bases.push(ptr as usize);
    }
    println!("{}", json!({"bases": bases, "pid": std::process::id()}));
    std::io::stdout().flush().unwrap();
    // wait until the parent closes our stdin
    let mut buf = Vec::new();
    let _ = std::io::stdin().read_to_end(&mut buf);
    drop(keep);
}

fn run(case: &Value) -> Value {
    let exe = std::env::current_exe().unwrap();
    let mut child = Command::new(exe).arg("victim").stdin(Stdio::piped()).stdout(Stdio::piped()).spawn().unwrap();
    let mut stdin = child.stdin.take().unwrap();
    writeln!(stdin, "{case}").unwrap();
    stdin.flush().unwrap();
    let mut out = std::io::BufReader::new(child.stdout.take().unwrap());
    let mut line = String::new();
    out.read_line(&mut line).unwrap();
    let info: Value = serde_json::from_str(&line).unwrap();
    let pid = info["pid"].as_u64().unwrap() as u32;
    let bases: Vec<usize> = info["bases"].as_array().unwrap().iter().map(|b| b.as_u64().unwrap() as usize).collect();
    let nd = needle();
    let mut hexs = String::new();
    for b in &nd {
        hexs.push_str(&format!("{b:02X} "));
    }
    let rule = format!("rule needle {{ strings: $a = {{ {hexs}}} condition: $a }}");
    let mut c = boreal::Compiler::new();
    c.add_rules_str(&rule).unwrap();
    let mut scanner = c.finalize();
    let mut results = Vec::new();
    for cfg in case["configs"].as_array().unwrap() {
        let mut p = boreal::scanner::ScanParams::default().compute_full_matches(true).string_max_nb_matches(100_000);
        if let Some(v) = cfg["chunk"].as_u64() {
            p = p.memory_chunk_size(Some(v as usize));
        }
        if let Some(v) = cfg["max_fetch"].as_u64() {
            p = p.max_fetched_region_size(v as usize);
        }
        scanner.set_scan_params(p);
        let res = scanner.scan_process(pid);
        let (err, r) = match res {
            Ok(r) => (None, r),
            Err((e, r)) => (Some(format!("{e:?}")), r),
        };
        let mut per_mapping: Vec<Vec<usize>> = vec![Vec::new(); bases.len()];
        for rule in &r.rules {
            for s in &rule.matches {
                for m in &s.matches {
                    let addr = m.base + m.offset;
                    for (i, b) in bases.iter().enumerate() {
                        let len = case["mappings"][i]["pages"].as_u64().unwrap() as usize * 4096;
                        if addr >= *b && addr < *b + len {
                            per_mapping[i].push(addr - *b);
                        }
                    }
                }
            }
        }
        results.push(json!({"error": err, "found": per_mapping}));
    }
    drop(stdin);
    let _ = child.wait();
    for (i, _) in bases.iter().enumerate() {
        let p = victim_path(case, &case["mappings"][i], pid, i);
        let _ = std::fs::remove_file(&p);
        let _ = std::fs::remove_file(format!("{p} (deleted)"));
    }
    json!({"results": results, "needle_len": nd.len()})
}

fn main() {
    if std::env::args().nth(1).as_deref() == Some("victim") {
        victim();
    } else {
        bvh::run_main(run);
    }
}
