// C06: run one rule set + input under a list of configurations; each configuration is a JSON object
// merged over the base case (keys: params, api, profile, input_kind = mem|file|mmap|frag).
use serde_json::{json, Value};
use std::io::Write;

fn run(case: &Value) -> Value {
    let mut outs = Vec::new();
    let mem_hex = case["input"]["mem"].as_str().unwrap().to_string();
    for cfg in case["configs"].as_array().unwrap() {
        let mut c = case.clone();
        for (k, v) in cfg.as_object().unwrap() {
            if k != "input_kind" && k != "path" {
                c[k] = v.clone();
            }
        }
        let mut tmp = None;
        match cfg["input_kind"].as_str().unwrap_or("mem") {
            "mem" => (),
            "frag" => {
                c["input"] = json!({"regions": [{"start": 0, "hex": mem_hex}]});
            }
            kind if cfg["path"].is_string() => {
                // an existing file given by its path (special files whose reported size is not their content's)
                let path = cfg["path"].as_str().unwrap().to_string();
                c["input"] = if kind == "file" { json!({"file": path}) } else { json!({"mmap": path}) };
            }
            kind => {
                let path = format!("{}/c06_{}_{}.bin", case["workdir"].as_str().unwrap(), std::process::id(), outs.len());
                let mut f = std::fs::File::create(&path).unwrap();
                f.write_all(&bvh::util::unhex(&mem_hex)).unwrap();
                drop(f);
                c["input"] = if kind == "file" { json!({"file": path}) } else { json!({"mmap": path}) };
                tmp = Some(path);
            }
        }
        let out = std::panic::catch_unwind(std::panic::AssertUnwindSafe(|| bvh::scan::run(&c)))
            .unwrap_or_else(|e| json!({"panic": bvh::panic_message(&*e)}));
        if let Some(p) = tmp {
            let _ = std::fs::remove_file(p);
        }
        outs.push(out);
    }
    json!({"outs": outs})
}

fn main() {
    bvh::run_main(run);
}
