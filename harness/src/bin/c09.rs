// C09: scan an asset + edit list (or raw bytes) with module-querying rules in every scan mode; report whether the
// scan returned, what it returned, and the sizes of the collections the modules published.  A panic is caught by
// run_main ({"panic": msg}); an abort / stack overflow kills this process and is attributed by the driver.
//
// Case: {"asset"|"base_hex", "edits":[..], "layout": null|[{"start","off","len","fail","described"?}..],
//        "params": {"process_memory":b, "mode":"legacy"|"fast"|"single_pass", ...bvh::scan params},
//        "rules": [{"tag":"r0","imports":["pe",..],"cond":"<condition>"}..]}
//  → {"rejected": [[tag, msg]..], "error": e, "matched": [tag..], "logs": [..], "lens": {module: {path: n}},
//     "size": n, "ms": t}
#[path = "../modval.rs"]
mod modval;

use std::collections::BTreeMap;
use std::sync::{Arc, Mutex};

use boreal::compiler::CompilerBuilder;
use boreal::module::Console;
use boreal::scanner::ScanResult;
use serde_json::{json, Map, Value};

use bvh::util::*;

fn take<'a>(res: Result<ScanResult<'a>, (boreal::scanner::ScanError, ScanResult<'a>)>) -> (Option<String>, ScanResult<'a>) {
    match res {
        Ok(r) => (None, r),
        Err((e, r)) => (Some(bvh::scan::error_name(&e)), r),
    }
}

pub fn run(case: &Value) -> Value {
    let t0 = std::time::Instant::now();
    let input = modval::build_input(case);
    let logs: Arc<Mutex<Vec<String>>> = Arc::new(Mutex::new(Vec::new()));
    let l2 = logs.clone();
    let mut c = CompilerBuilder::new()
        .add_module(Console::with_callback(move |s| {
            let mut g = l2.lock().unwrap();
            if g.len() < 4096 {
                g.push(s)
            }
        }))
        .build();
    let mut rejected = Vec::new();
    for r in case["rules"].as_array().unwrap() {
        let tag = get_str(r, "tag");
        let imps: String = r["imports"]
            .as_array()
            .unwrap()
            .iter()
            .map(|m| format!("import \"{}\"\n", m.as_str().unwrap()))
            .collect();
        let strings = r["strings"].as_str().map(|s| format!("strings: {s} ")).unwrap_or_default();
        let src = format!("{imps}rule {tag} {{ {strings}condition: {} }}", get_str(r, "cond"));
        if let Err(e) = c.add_rules_str(&src) {
            rejected.push(json!([tag, format!("{e}").chars().take(160).collect::<String>()]));
        }
    }
    let mut scanner = c.finalize();
    // a generated condition may be slow by construction; the timeout turns that into a scan error (a legal outcome)
    scanner.set_scan_params(
        bvh::scan::build_params(&case["params"]).timeout_duration(Some(std::time::Duration::from_secs(20))),
    );
    let (err, res) = if case["layout"].is_array() {
        take(scanner.scan_fragmented(modval::Layout::new(&input, &case["layout"])))
    } else {
        take(scanner.scan_mem(&input))
    };
    let mut lens = Map::new();
    let mut ints = Map::new();
    for m in &res.modules {
        if let boreal::module::Value::Object(o) = &m.dynamic_values {
            let mut mi = Map::new();
            for (k, v) in o {
                if let boreal::module::Value::Integer(i) = v {
                    mi.insert((*k).to_string(), json!(i));
                }
            }
            if !mi.is_empty() {
                ints.insert(m.module.get_name().into(), Value::Object(mi));
            }
        }
        let mut l = BTreeMap::new();
        modval::collect_lens(&m.dynamic_values, "", &mut l);
        if !l.is_empty() {
            lens.insert(m.module.get_name().into(), json!(l));
        }
    }
    let matched: Vec<&str> = res.rules.iter().map(|r| r.name).collect();
    let logs = logs.lock().unwrap().clone();
    json!({"rejected": rejected, "error": err, "matched": matched, "logs": logs, "lens": lens, "ints": ints, "size": input.len(),
           "ms": t0.elapsed().as_millis() as u64})
}

/// Like bvh::run_main, but every case runs in its own thread (8 MiB stack, as the main thread) under a watchdog:
/// a case that does not return within HANG_SECS is reported as {"hang": secs} and the process exits (the driver
/// re-runs the remaining cases of the shard one by one).
const HANG_SECS: u64 = 40;

fn main() {
    use std::io::{BufRead, Write};
    if std::env::var_os("VERIF_PANIC_TRACE").is_none() {
        std::panic::set_hook(Box::new(|_| {}));
    }
    let stdin = std::io::stdin();
    for line in stdin.lock().lines() {
        let Ok(line) = line else { break };
        if line.trim().is_empty() {
            continue;
        }
        let case: Value = match serde_json::from_str(&line) {
            Ok(v) => v,
            Err(e) => {
                println!("{}", json!({"error": format!("bad json: {e}")}));
                continue;
            }
        };
        let (tx, rx) = std::sync::mpsc::channel();
        let worker = std::thread::Builder::new()
            .stack_size(8 << 20)
            .spawn(move || {
                let out = match std::panic::catch_unwind(std::panic::AssertUnwindSafe(|| run(&case))) {
                    Ok(v) => v,
                    Err(e) => json!({"panic": bvh::panic_message(&*e)}),
                };
                let _ = tx.send(out);
            })
            .unwrap();
        let out = match rx.recv_timeout(std::time::Duration::from_secs(HANG_SECS)) {
            Ok(v) => v,
            Err(_) => {
                println!("{}", json!({"hang": HANG_SECS}));
                let _ = std::io::stdout().flush();
                std::process::exit(3);
            }
        };
        let _ = worker.join();
        let stdout = std::io::stdout();
        let mut o = stdout.lock();
        let _ = writeln!(o, "{out}");
        let _ = o.flush();
    }
}
