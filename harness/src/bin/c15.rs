// C15: enumerate every callback-abort point and every timeout check of one (rule set, input, configuration).
use serde_json::{json, Value};

fn strip(v: &Value) -> Value {
    let mut v = v.clone();
    if let Some(o) = v.as_object_mut() {
        o.remove("checks");
    }
    v
}

fn run(case: &Value) -> Value {
    let scanner = match bvh::scan::compile(case) {
        Ok(s) => s,
        Err(e) => return json!({"compile_error": e}),
    };
    let mut base = case.clone();
    base["count_checks"] = json!(true);
    let full = bvh::scan::scan_with(&scanner, &base);
    let checks = full["checks"].as_u64().unwrap_or(0);
    let nevents = full["events"].as_array().map_or(0, Vec::len) as u64;
    let mut runs = Vec::new();
    let max_points = case["max_points"].as_u64().unwrap_or(80);
    if case["api"].as_str() == Some("callback") {
        for k in 1..=(nevents + 1).min(max_points) {
            let mut c = base.clone();
            c["abort_at"] = json!(k);
            let out = bvh::scan::scan_with(&scanner, &c);
            let next = bvh::scan::scan_with(&scanner, &base);
            runs.push(json!({"kind": "abort", "at": k, "out": out, "next_ok": strip(&next) == strip(&full)}));
        }
    }
    for j in 1..=(checks + 1).min(max_points) {
        let mut c = base.clone();
        c["timeout_at"] = json!(j);
        let out = bvh::scan::scan_with(&scanner, &c);
        let next = bvh::scan::scan_with(&scanner, &base);
        // the same point when only this one check fires (the clock is looked at on some checks only): a
        // timeout that is propagated at once gives the same outcome
        c["timeout_once"] = json!(true);
        let once = bvh::scan::scan_with(&scanner, &c);
        let once_same = once == out;
        let mut run = json!({"kind": "timeout", "at": j, "out": out, "next_ok": strip(&next) == strip(&full),
                             "once_same": once_same});
        if !once_same {
            run["once_out"] = once;
        }
        runs.push(run);
    }
    let kinds: Vec<String> = scanner
        .verif_describe_strings()
        .iter()
        .map(|d| d.kind.split_whitespace().next().unwrap_or("").to_string())
        .collect();
    json!({"full": full, "runs": runs, "kinds": kinds})
}

fn main() {
    bvh::run_main(run);
}
