// C15: enumerate every callback-abort point and every timeout check of one (rule set, input, configuration).
use serde_json::{json, Value};

fn strip(v: &Value) -> Value {
    let mut v = v.clone();
    if let Some(o) = v.as_object_mut() {
        o.remove("checks");
    }
    v
}

fn run(case: &Value) -> Value {
    let scanner = match bvh::scan::compile(case) {
        Ok(s) => s,
        Err(e) => return json!({"compile_error": e}),
    };
    let mut base = case.clone();
    base["count_checks"] = json!(true);
    let full = bvh::scan::scan_with(&scanner, &base);
    let checks = full["checks"].as_u64().unwrap_or(0);
    let nevents = full["events"].as_array().map_or(0, Vec::len) as u64;
    let mut runs = Vec::new();
    let max_points = case["max_points"].as_u64().unwrap_or(80);
    if case["api"].as_str() == Some("callback") {
        for k in 1..=(nevents + 1).min(max_points) {
            let mut c = base.clone();
            c["abort_at"] = json!(k);
            let out = bvh::scan::scan_with(&scanner, &c);
            let next = bvh::scan::scan_with(&scanner, &base);
            runs.push(json!({"kind": "abort", "at": k, "out": out, "next_ok": strip(&next) == strip(&full)}));
        }
    }
    for j in 1..=(checks + 1).min(max_points) {
        let mut c = base.clone();
        c["timeout_at"] = json!(j);
        let out = bvh::scan::scan_with(&scanner, &c);
        let next = bvh::scan::scan_with(&scanner, &base);
        runs.push(json!({"kind": "timeout", "at": j, "out": out, "next_ok": strip(&next) == strip(&full)}));
    }
    json!({"full": full, "runs": runs})
}

fn main() {
    bvh::run_main(run);
}
