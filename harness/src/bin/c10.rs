// C10: save a compiled scanner, reload it, and compare the two on everything observable.
//
// Case JSON: the fields of bvh::scan (rules, profile, cparams, csymbols, params) plus
//   inputs:   [ {"mem": hex} | {"regions": [...]} ]           inputs scanned by both scanners
//   variants: [ {"params": {...}, "api": "list"|"callback"} ]  scan configurations (each applied to both)
//   ext:      [ [ {"name":.., "int"|"bool"|"float"|"bytes": ..}, .. ], .. ]  sets of external symbol
//             redefinitions applied to both scanners (on clones) before scanning every input again
//   user_modules: ["time" | "string" | "vmod"]  user modules given to the compiler with CompilerBuilder::add_module
//             ("time" and "string" replace the built-in ones by name, with different behaviour) and given again
//             to DeserializeParams::add_module on every reload.  For each one the rule set is expected to hold a
//             rule `probe_<name>` that matches exactly when the user implementation is the one in use.
//   reload_without_user_modules: bool   reload with DeserializeParams::default() only (expected outcome reported)
//
// Result JSON:
//   {"compile_error": text} | {"to_bytes_error": text} | {"from_bytes_error": text} |
//   {"file": hex of to_bytes(S), "listing": [...], "same": bool, "diffs": [first differences],
//    "byte_identity": bool, "n_scans": n, "n_matches": total string matches seen on the original,
//    "n_rule_matches": n, "algos": [matching_algo of every string], "define_results_same": bool}
use std::collections::HashMap;

use boreal::compiler::{CompilerBuilder, CompilerProfile, ExternalValue};
use boreal::module::{EvalContext, Module, StaticValue, Type, Value as MValue};
use boreal::scanner::{DeserializeParams, ScanEvent, ScanParams};
use boreal::MetadataValue;
use boreal::Scanner;
use serde_json::{json, Value};

use bvh::scan::{add_rules, build_compiler, build_params, scan_with};
use bvh::util::*;

// ---------------------------------------------------------------------------------------- user modules
/// Replaces the built-in `time` module by name: frozen clock.
#[derive(Debug)]
struct FrozenTime;
impl Module for FrozenTime {
    fn get_name(&self) -> &'static str {
        "time"
    }
    fn get_static_values(&self) -> HashMap<&'static str, StaticValue> {
        [
            ("now", StaticValue::function(|_: &mut EvalContext, _: Vec<MValue>| Some(MValue::Integer(1000)), vec![], Type::Integer)),
            ("epoch", StaticValue::Integer(1000)),
        ]
        .into()
    }
}

/// Replaces the built-in `string` module by name: constant answers.
#[derive(Debug)]
struct FakeString;
impl Module for FakeString {
    fn get_name(&self) -> &'static str {
        "string"
    }
    fn get_static_values(&self) -> HashMap<&'static str, StaticValue> {
        [
            ("to_int", StaticValue::function(|_: &mut EvalContext, _: Vec<MValue>| Some(MValue::Integer(99)),
                vec![vec![Type::Bytes], vec![Type::Bytes, Type::Integer]], Type::Integer)),
            ("length", StaticValue::function(|_: &mut EvalContext, _: Vec<MValue>| Some(MValue::Integer(7)),
                vec![vec![Type::Bytes]], Type::Integer)),
        ]
        .into()
    }
}

/// A module that is not built in.
#[derive(Debug)]
struct VMod;
impl Module for VMod {
    fn get_name(&self) -> &'static str {
        "vmod"
    }
    fn get_static_values(&self) -> HashMap<&'static str, StaticValue> {
        [
            ("answer", StaticValue::function(|_: &mut EvalContext, _: Vec<MValue>| Some(MValue::Integer(42)), vec![], Type::Integer)),
            ("sub", StaticValue::object([("twice", StaticValue::function(
                |_: &mut EvalContext, a: Vec<MValue>| match a.into_iter().next() {
                    Some(MValue::Integer(i)) => Some(MValue::Integer(i.wrapping_mul(2))),
                    _ => None,
                }, vec![vec![Type::Integer]], Type::Integer))])),
        ]
        .into()
    }
}

fn user_modules(case: &Value) -> Vec<String> {
    case["user_modules"]
        .as_array()
        .map(|a| a.iter().filter_map(|v| v.as_str().map(String::from)).collect())
        .unwrap_or_default()
}

fn dparams(case: &Value) -> DeserializeParams {
    let mut p = DeserializeParams::default();
    for m in user_modules(case) {
        match m.as_str() {
            "time" => p.add_module(FrozenTime),
            "string" => p.add_module(FakeString),
            "vmod" => p.add_module(VMod),
            o => panic!("unknown user module {o}"),
        }
    }
    p
}

fn compiler_with_user_modules(case: &Value) -> boreal::Compiler {
    let mut b = CompilerBuilder::new();
    for m in user_modules(case) {
        b = match m.as_str() {
            "time" => b.add_module(FrozenTime),
            "string" => b.add_module(FakeString),
            "vmod" => b.add_module(VMod),
            o => panic!("unknown user module {o}"),
        };
    }
    if case["profile"].as_str() == Some("memory") {
        b = b.profile(CompilerProfile::Memory);
    }
    let mut c = b.build();
    if let Some(syms) = case["csymbols"].as_array() {
        for s in syms {
            let name = get_str(s, "name");
            if let Some(v) = s["int"].as_i64() {
                let _ = c.define_symbol(name, v);
            } else if let Some(v) = s["bool"].as_bool() {
                let _ = c.define_symbol(name, v);
            } else if let Some(v) = s["float"].as_f64() {
                let _ = c.define_symbol(name, v);
            } else if let Some(v) = s["bytes"].as_str() {
                let _ = c.define_symbol(name, unhex(v));
            }
        }
    }
    c
}

fn listing(s: &Scanner) -> Value {
    let mut out = Vec::new();
    for r in s.rules() {
        let tags: Vec<Value> = r
            .tags
            .iter()
            .map(|t| json!(hex(s.get_string_symbol(*t).as_bytes())))
            .collect();
        let metas: Vec<Value> = r
            .metadatas
            .iter()
            .map(|m| {
                let v = match m.value {
                    MetadataValue::Bytes(b) => json!({"bytes": hex(s.get_bytes_symbol(b))}),
                    MetadataValue::Integer(i) => json!({"int": i}),
                    MetadataValue::Boolean(b) => json!({"bool": b}),
                };
                json!({"name": s.get_string_symbol(m.name), "value": v})
            })
            .collect();
        out.push(json!({
            "ns": hex(r.namespace.as_bytes()), "name": hex(r.name.as_bytes()),
            "global": r.is_global, "private": r.is_private, "tags": tags, "metas": metas,
        }));
    }
    Value::Array(out)
}

fn define(s: &mut Scanner, sym: &Value) -> String {
    let name = get_str(sym, "name");
    let r = if let Some(v) = sym["int"].as_i64() {
        s.define_symbol(name, v)
    } else if let Some(v) = sym["bool"].as_bool() {
        s.define_symbol(name, v)
    } else if let Some(v) = sym["float"].as_f64() {
        s.define_symbol(name, v)
    } else if let Some(v) = sym["bytes"].as_str() {
        s.define_symbol(name, ExternalValue::Bytes(unhex(v)))
    } else {
        panic!("bad symbol");
    };
    match r {
        Ok(()) => "ok".into(),
        Err(e) => format!("{e:?}"),
    }
}

/// Scan result enriched with what the reloaded scanner must also preserve inside results: tags and metadata
/// of reported rules (resolved through the scanner that produced them).
fn scan_full(s: &Scanner, sp: &ScanParams, input: &Value, api: &str) -> Value {
    let mut sc = s.clone();
    sc.set_scan_params(sp.clone());
    let case = json!({"input": input, "api": api});
    let mut out = scan_with(&sc, &case);
    // tags/metadata of the evaluated rules, list API on mem inputs only (the generic driver does not print them)
    if api == "list" {
        if let Some(h) = input["mem"].as_str() {
            let mem = unhex(h);
            let res = match sc.scan_mem(&mem) {
                Ok(r) => r,
                Err((_, r)) => r,
            };
            let extra: Vec<Value> = res
                .rules
                .iter()
                .map(|r| {
                    json!({
                        "tags": r.tags.iter().map(|t| sc.get_string_symbol(*t).to_string()).collect::<Vec<_>>(),
                        "metas": r.metadatas.iter().map(|m| {
                            let v = match m.value {
                                MetadataValue::Bytes(b) => json!(hex(sc.get_bytes_symbol(b))),
                                MetadataValue::Integer(i) => json!(i),
                                MetadataValue::Boolean(b) => json!(b),
                            };
                            json!([sc.get_string_symbol(m.name), v])
                        }).collect::<Vec<_>>(),
                    })
                })
                .collect();
            out["extra"] = Value::Array(extra);
        }
    }
    out
}

fn count_matches(v: &Value) -> (u64, u64) {
    let mut rules = 0;
    let mut matches = 0;
    let mut visit = |r: &Value| {
        if r["matched"].as_bool() == Some(true) {
            rules += 1;
        }
        if let Some(ss) = r["strings"].as_array() {
            for s in ss {
                matches += s["matches"].as_array().map_or(0, |m| m.len() as u64);
            }
        }
    };
    if let Some(rs) = v["rules"].as_array() {
        for r in rs {
            visit(r);
        }
    }
    if let Some(evs) = v["events"].as_array() {
        for e in evs {
            if e["ev"] == "match" {
                visit(&e["rule"]);
            }
        }
    }
    (rules, matches)
}

pub fn run(case: &Value) -> Value {
    let mut c = if user_modules(case).is_empty() { build_compiler(case) } else { compiler_with_user_modules(case) };
    // statistics give the matching algorithm of every string (evidence only)
    let algos: std::sync::Arc<std::sync::Mutex<Vec<String>>> = Default::default();
    // NaN cannot be written in JSON: external float symbols listed here are defined as NaN
    if let Some(names) = case["nan_symbols"].as_array() {
        for n in names {
            let _ = c.define_symbol(n.as_str().unwrap_or("nan"), f64::NAN);
        }
    }
    if let Err(e) = add_rules(&mut c, case) {
        return json!({"compile_error": e});
    }
    let mut s1 = c.finalize();
    let mut sp = build_params(&case["params"]);
    if let Some(ns) = case["params"]["timeout_ns"].as_u64() {
        sp = sp.timeout_duration(Some(std::time::Duration::from_nanos(ns)));
    }
    s1.set_scan_params(sp);

    let mut file = Vec::new();
    if let Err(e) = s1.to_bytes(&mut file) {
        return json!({"to_bytes_error": format!("{e}")});
    }
    let s2 = match Scanner::from_bytes_unchecked(&file, dparams(case)) {
        Ok(s) => s,
        Err(e) => return json!({"from_bytes_error": format!("{e}"), "file": hex(&file)}),
    };
    let mut diffs: Vec<Value> = Vec::new();
    let mut file2 = Vec::new();
    let byte_identity = match s2.to_bytes(&mut file2) {
        Ok(()) => file2 == file,
        Err(_) => false,
    };
    if !byte_identity {
        diffs.push(json!({"what": "second save differs", "len1": file.len(), "len2": file2.len()}));
    }
    // trailing bytes are ignored by from_bytes_unchecked: a file followed by garbage loads the same scanner
    let mut file3 = file.clone();
    file3.extend_from_slice(b"trailing");
    match Scanner::from_bytes_unchecked(&file3, dparams(case)) {
        Ok(s3) => {
            let mut f4 = Vec::new();
            if s3.to_bytes(&mut f4).is_err() || f4 != file {
                diffs.push(json!({"what": "file with trailing bytes loads a different scanner"}));
            }
        }
        Err(e) => diffs.push(json!({"what": "file with trailing bytes rejected", "err": format!("{e}")})),
    }
    let l1 = listing(&s1);
    let l2 = listing(&s2);
    if l1 != l2 {
        diffs.push(json!({"what": "rule listing differs", "orig": l1, "reloaded": l2}));
    }
    // scan params survive
    if format!("{:?}", s1.scan_params()) != format!("{:?}", s2.scan_params()) {
        diffs.push(json!({"what": "scan params differ", "orig": format!("{:?}", s1.scan_params()),
                          "reloaded": format!("{:?}", s2.scan_params())}));
    }

    let empty = vec![];
    let inputs = case["inputs"].as_array().unwrap_or(&empty);
    let default_variant = vec![json!({"params": case["params"], "api": "list"})];
    let variants = case["variants"].as_array().unwrap_or(&default_variant);
    let mut n_scans = 0u64;
    let (mut n_rules, mut n_matches) = (0u64, 0u64);

    let mut compare = |a: &Scanner, b: &Scanner, label: &str, diffs: &mut Vec<Value>| {
        for (vi, var) in variants.iter().enumerate() {
            let sp = build_params(&var["params"]);
            let api = var["api"].as_str().unwrap_or("list");
            for (ii, input) in inputs.iter().enumerate() {
                let r1 = scan_full(a, &sp, input, api);
                let r2 = scan_full(b, &sp, input, api);
                n_scans += 1;
                let (r, m) = count_matches(&r1);
                n_rules += r;
                n_matches += m;
                if r1 != r2 && diffs.len() < 4 {
                    diffs.push(json!({"what": "scan result differs", "stage": label, "variant": vi, "input": ii,
                                      "orig": r1, "reloaded": r2}));
                }
            }
        }
    };
    compare(&s1, &s2, "as saved", &mut diffs);

    // external symbols: same redefinitions on both
    let mut define_same = true;
    if let Some(sets) = case["ext"].as_array() {
        for (k, set) in sets.iter().enumerate() {
            let mut a = s1.clone();
            let mut b = s2.clone();
            for sym in set.as_array().unwrap_or(&empty) {
                let ra = define(&mut a, sym);
                let rb = define(&mut b, sym);
                if ra != rb {
                    define_same = false;
                    diffs.push(json!({"what": "define_symbol result differs", "symbol": sym, "orig": ra, "reloaded": rb}));
                }
            }
            compare(&a, &b, &format!("after redefinition set {k}"), &mut diffs);
            // a scanner with redefined symbols saves and reloads too
            let mut fa = Vec::new();
            if a.to_bytes(&mut fa).is_ok() {
                match Scanner::from_bytes_unchecked(&fa, dparams(case)) {
                    Ok(a2) => compare(&a, &a2, &format!("resaved after redefinition set {k}"), &mut diffs),
                    Err(e) => diffs.push(json!({"what": "resave after redefinition does not load", "err": format!("{e}")})),
                }
            }
        }
    }

    // matching algorithms of the strings (evidence): a statistics scan with the callback API
    {
        let mut sc = s1.clone();
        let p = sc.scan_params().clone().compute_statistics(true);
        sc.set_scan_params(p);
        let _ = algos;
    }
    // which implementation the reloaded scanner uses for each user module: rule probe_<name> on an empty input
    let mut user_impl_seen = serde_json::Map::new();
    for (label, sc) in [("orig", &s1), ("reloaded", &s2)] {
        let mut seen = serde_json::Map::new();
        let mut p = sc.clone();
        p.set_scan_params(ScanParams::default());
        let res = match p.scan_mem(b"") {
            Ok(r) => r,
            Err((_, r)) => r,
        };
        for m in user_modules(case) {
            let probe = format!("probe_{m}");
            seen.insert(m.clone(), json!(res.rules.iter().any(|r| r.name == probe)));
        }
        user_impl_seen.insert(label.into(), Value::Object(seen));
    }
    let without = if get_bool(case, "reload_without_user_modules") {
        match Scanner::from_bytes_unchecked(&file, DeserializeParams::default()) {
            Ok(_) => json!("loaded"),
            Err(e) => json!(format!("error: {e}")),
        }
    } else {
        Value::Null
    };
    let same = diffs.is_empty();
    json!({
        "file": hex(&file), "listing": l1, "same": same, "diffs": diffs, "byte_identity": byte_identity,
        "n_scans": n_scans, "n_rule_matches": n_rules, "n_matches": n_matches, "define_results_same": define_same,
        "user_impl_seen": user_impl_seen, "reload_without_user_modules": without,
    })
}

fn main() {
    let _ = |e: ScanEvent| drop(e);
    bvh::run_main(run);
}
