// Shared by bin/c17.rs and bin/c09.rs (included with #[path]): input construction from an asset + edit list,
// canonical dumps of module::Value / module::Type trees, sizes per path, region layouts.
#![allow(dead_code)]
use std::collections::BTreeMap;

use boreal::memory::{FragmentedMemory, MemoryParams, Region, RegionDescription};
use boreal::module::{Type, Value as MV};
use serde_json::{json, Value};

use bvh::util::*;

/// Build the scanned bytes: read `asset` (or start from `base_hex`), then apply `edits` in order.
///   {"op":"set","off":n,"hex":h}        overwrite (clipped to the buffer)
///   {"op":"flip","off":n,"bit":k}
///   {"op":"trunc","len":n}
///   {"op":"append","hex":h}
///   {"op":"insert","off":n,"hex":h}
///   {"op":"splice","file":p,"src_off":a,"len":l,"dst_off":b}   overwrite with a slice of another file (extends)
///   {"op":"zero","off":n,"len":l}
pub fn build_input(case: &Value) -> Vec<u8> {
    let mut buf = if let Some(p) = case["asset"].as_str() {
        std::fs::read(p).unwrap_or_else(|e| panic!("cannot read asset {p}: {e}"))
    } else if let Some(h) = case["base_hex"].as_str() {
        unhex(h)
    } else {
        Vec::new()
    };
    if let Some(edits) = case["edits"].as_array() {
        for e in edits {
            match get_str(e, "op") {
                "set" => {
                    let off = get_usize(e, "off");
                    for (i, b) in get_bytes(e, "hex").into_iter().enumerate() {
                        if let Some(x) = buf.get_mut(off + i) {
                            *x = b;
                        }
                    }
                }
                "flip" => {
                    let off = get_usize(e, "off");
                    if let Some(x) = buf.get_mut(off) {
                        *x ^= 1 << (get_u64(e, "bit") & 7);
                    }
                }
                "trunc" => buf.truncate(get_usize(e, "len")),
                "append" => buf.extend(get_bytes(e, "hex")),
                "insert" => {
                    let off = get_usize(e, "off").min(buf.len());
                    let ins = get_bytes(e, "hex");
                    buf.splice(off..off, ins);
                }
                "zero" => {
                    let off = get_usize(e, "off");
                    for i in 0..get_usize(e, "len") {
                        if let Some(x) = buf.get_mut(off + i) {
                            *x = 0;
                        }
                    }
                }
                "splice" => {
                    let other = std::fs::read(get_str(e, "file")).expect("splice file");
                    let a = get_usize(e, "src_off").min(other.len());
                    let l = get_usize(e, "len").min(other.len() - a);
                    let b = get_usize(e, "dst_off").min(buf.len());
                    if buf.len() < b + l {
                        buf.resize(b + l, 0);
                    }
                    buf[b..b + l].copy_from_slice(&other[a..a + l]);
                }
                o => panic!("unknown edit op {o}"),
            }
        }
    }
    buf
}

/// Region layout over the built input.
///   [{"start": addr, "off": o, "len": l, "fail": bool, "described": n?}]
/// Each region exposes input[o..o+l] (clipped) at address `start`.
/// `bytes` copied into a fresh buffer so that the first byte sits at an address congruent to `shift` modulo 16:
/// returns the buffer and the offset of the first byte in it.  (Scanning the same bytes at different alignments must
/// give the same module values.)
pub fn place(bytes: &[u8], shift: usize) -> (Vec<u8>, usize) {
    let mut v = vec![0u8; bytes.len() + 32];
    let base = v.as_ptr() as usize;
    let pad = (16 - base % 16) % 16 + (shift % 16);
    v[pad..pad + bytes.len()].copy_from_slice(bytes);
    (v, pad)
}

#[derive(Debug)]
pub struct Layout {
    // start, buffer, offset of the region bytes in the buffer, length, fetch fails, described length override
    pub regions: Vec<(usize, Vec<u8>, usize, usize, bool, Option<usize>)>,
    pub cur: Option<usize>,
}

impl Layout {
    pub fn new(input: &[u8], layout: &Value) -> Self {
        Self::with_shift(input, layout, 0)
    }

    pub fn with_shift(input: &[u8], layout: &Value, shift: usize) -> Self {
        let regions = layout
            .as_array()
            .unwrap()
            .iter()
            .map(|r| {
                let o = get_usize(r, "off").min(input.len());
                let l = get_usize(r, "len").min(input.len() - o);
                let (buf, pad) = place(&input[o..o + l], shift);
                (get_usize(r, "start"), buf, pad, l, get_bool(r, "fail"), get_opt_usize(r, "described"))
            })
            .collect();
        Self { regions, cur: None }
    }
}

impl FragmentedMemory for Layout {
    fn next(&mut self, _params: &MemoryParams) -> Option<RegionDescription> {
        let n = match self.cur {
            None => 0,
            Some(i) => i + 1,
        };
        self.cur = Some(n);
        self.regions.get(n).map(|r| RegionDescription {
            start: r.0,
            length: r.5.unwrap_or(r.3),
        })
    }
    fn fetch(&mut self, _params: &MemoryParams) -> Option<Region<'_>> {
        let r = self.regions.get(self.cur?)?;
        if r.4 {
            return None;
        }
        Some(Region { start: r.0, mem: &r.1[r.2..r.2 + r.3] })
    }
    fn reset(&mut self) {
        self.cur = None;
    }
}

// ------------------------------------------------------------------------------------------ value dumps
/// Pruned dump: arrays keep the first `keep` elements, dictionaries the first `keep_dict` entries in key order,
/// byte strings the first `keep_bytes` bytes; real sizes are always reported.
///   {"i": n} | {"f": "<bits>"} | {"b": [len, hex]} | "re" | {"bool": b} | {"o": [[name, d]..]} (sorted)
///   | {"a": [len, [d..]]} | {"d": [len, [[hexkey, d]..]]} (sorted) | "fn" | "undef"
pub fn dump_pruned(v: &MV, keep: usize, keep_dict: usize, keep_bytes: usize) -> Value {
    match v {
        MV::Integer(i) => json!({"i": i}),
        MV::Float(f) => json!({"f": f.to_bits().to_string()}),
        MV::Bytes(b) => json!({"b": [b.len(), hex(&b[..b.len().min(keep_bytes)])]}),
        MV::Regex(_) => json!("re"),
        MV::Boolean(b) => json!({"bool": b}),
        MV::Object(m) => {
            let mut keys: Vec<_> = m.keys().collect();
            keys.sort();
            json!({"o": keys.iter().map(|k| json!([k, dump_pruned(&m[**k], keep, keep_dict, keep_bytes)])).collect::<Vec<_>>()})
        }
        MV::Array(a) => json!({"a": [a.len(), a.iter().take(keep).map(|x| dump_pruned(x, keep, keep_dict, keep_bytes)).collect::<Vec<_>>()]}),
        MV::Dictionary(d) => {
            let mut keys: Vec<_> = d.keys().collect();
            keys.sort();
            json!({"d": [d.len(), keys.iter().take(keep_dict).map(|k| json!([hex(k), dump_pruned(&d[*k], keep, keep_dict, keep_bytes)])).collect::<Vec<_>>()]})
        }
        MV::Function(_) => json!({"fn": []}),
        MV::Undefined => json!("undef"),
    }
}

/// Arguments for sampling published functions: [["int", n] | ["bytes", hex] | ["float", f] | ["bool", b]]
pub fn arg_value(a: &Value) -> Option<MV> {
    let k = a[0].as_str()?;
    Some(match k {
        "int" => MV::Integer(a[1].as_i64()?),
        "bytes" => MV::Bytes(unhex(a[1].as_str()?)),
        "float" => MV::Float(a[1].as_f64()?),
        "bool" => MV::Boolean(a[1].as_bool()?),
        _ => return None,
    })
}

fn arg_matches(t: &Type, a: &Value) -> bool {
    matches!(
        (t, a[0].as_str()),
        (Type::Integer, Some("int")) | (Type::Bytes, Some("bytes")) | (Type::Float, Some("float")) | (Type::Boolean, Some("bool"))
    )
}

/// Like dump_pruned, but walks the declared type alongside and, at every published function whose slot is declared
/// as a function, calls it with each argument list of `fn_args` that one of the declared alternatives accepts
/// (what the type checker would let a rule pass) and records the results:  {"fn": [[args, result|null]..]}.
pub fn dump_typed(
    t: Option<&Type>,
    v: &MV,
    keep: usize,
    keep_dict: usize,
    keep_bytes: usize,
    fn_args: &[Value],
    ctx: &mut boreal::module::EvalContext,
) -> Value {
    match v {
        MV::Object(m) => {
            let ft = match t {
                Some(Type::Object(ft)) => Some(ft),
                _ => None,
            };
            let mut keys: Vec<_> = m.keys().collect();
            keys.sort();
            json!({"o": keys.iter().map(|k| json!([k, dump_typed(ft.and_then(|f| f.get(**k)), &m[**k], keep, keep_dict,
                keep_bytes, fn_args, ctx)])).collect::<Vec<_>>()})
        }
        MV::Array(a) => {
            let et = match t {
                Some(Type::Array { value_type }) => Some(&**value_type),
                _ => None,
            };
            json!({"a": [a.len(), a.iter().take(keep).map(|x| dump_typed(et, x, keep, keep_dict, keep_bytes, fn_args, ctx))
                .collect::<Vec<_>>()]})
        }
        MV::Dictionary(d) => {
            let et = match t {
                Some(Type::Dictionary { value_type }) => Some(&**value_type),
                _ => None,
            };
            let mut keys: Vec<_> = d.keys().collect();
            keys.sort();
            json!({"d": [d.len(), keys.iter().take(keep_dict).map(|k| json!([hex(k), dump_typed(et, &d[*k], keep, keep_dict,
                keep_bytes, fn_args, ctx)])).collect::<Vec<_>>()]})
        }
        MV::Function(f) => {
            let mut samples = Vec::new();
            if let Some(Type::Function { arguments_types, return_type }) = t {
                for args in fn_args {
                    let Some(args_arr) = args.as_array() else { continue };
                    let ok = (arguments_types.is_empty() && args_arr.is_empty())
                        || arguments_types.iter().any(|alt| {
                            alt.len() == args_arr.len() && alt.iter().zip(args_arr.iter()).all(|(t, a)| arg_matches(t, a))
                        });
                    if !ok {
                        continue;
                    }
                    let vals: Option<Vec<MV>> = args_arr.iter().map(arg_value).collect();
                    let Some(vals) = vals else { continue };
                    let r = f(ctx, vals);
                    samples.push(json!([args, r.map(|r| dump_typed(Some(&**return_type), &r, keep, keep_dict, keep_bytes,
                        fn_args, ctx))]));
                }
            }
            json!({"fn": samples})
        }
        other => dump_pruned(other, keep, keep_dict, keep_bytes),
    }
}

fn fnv(h: &mut u64, bytes: &[u8]) {
    for b in bytes {
        *h ^= u64::from(*b);
        *h = h.wrapping_mul(0x100000001b3);
    }
}

fn hash_into(v: &MV, h: &mut u64) {
    match v {
        MV::Integer(i) => {
            fnv(h, b"I");
            fnv(h, &i.to_le_bytes());
        }
        MV::Float(f) => {
            fnv(h, b"F");
            fnv(h, &f.to_bits().to_le_bytes());
        }
        MV::Bytes(b) => {
            fnv(h, b"B");
            fnv(h, &(b.len() as u64).to_le_bytes());
            fnv(h, b);
        }
        MV::Regex(_) => fnv(h, b"R"),
        MV::Boolean(b) => fnv(h, if *b { b"T" } else { b"t" }),
        MV::Object(m) => {
            fnv(h, b"O");
            fnv(h, &(m.len() as u64).to_le_bytes());
            let mut keys: Vec<_> = m.keys().collect();
            keys.sort();
            for k in keys {
                fnv(h, k.as_bytes());
                fnv(h, b"=");
                hash_into(&m[*k], h);
            }
        }
        MV::Array(a) => {
            fnv(h, b"A");
            fnv(h, &(a.len() as u64).to_le_bytes());
            for x in a {
                hash_into(x, h);
            }
        }
        MV::Dictionary(d) => {
            fnv(h, b"D");
            fnv(h, &(d.len() as u64).to_le_bytes());
            let mut keys: Vec<_> = d.keys().collect();
            keys.sort();
            for k in keys {
                fnv(h, &(k.len() as u64).to_le_bytes());
                fnv(h, k);
                hash_into(&d[k], h);
            }
        }
        MV::Function(_) => fnv(h, b"f"),
        MV::Undefined => fnv(h, b"U"),
    }
}

/// Hash of the complete (unpruned) value, floats by bits, maps in key order.
pub fn canon_hash(v: &MV) -> u64 {
    let mut h = 0xcbf29ce484222325u64;
    hash_into(v, &mut h);
    h
}

pub fn node_count(v: &MV) -> usize {
    match v {
        MV::Object(m) => 1 + m.values().map(node_count).sum::<usize>(),
        MV::Array(a) => 1 + a.iter().map(node_count).sum::<usize>(),
        MV::Dictionary(d) => 1 + d.values().map(node_count).sum::<usize>(),
        _ => 1,
    }
}

/// Maximum size of every collection / byte string per path pattern ("sections", "sections[].name", …).
pub fn collect_lens(v: &MV, path: &str, out: &mut BTreeMap<String, usize>) {
    let mut put = |p: &str, n: usize| {
        let e = out.entry(p.to_string()).or_insert(0);
        if n > *e {
            *e = n;
        }
    };
    match v {
        MV::Bytes(b) => put(path, b.len()),
        MV::Object(m) => {
            for (k, x) in m {
                let p = if path.is_empty() { (*k).to_string() } else { format!("{path}.{k}") };
                collect_lens(x, &p, out);
            }
        }
        MV::Array(a) => {
            put(path, a.len());
            let p = format!("{path}[]");
            for x in a {
                collect_lens(x, &p, out);
            }
        }
        MV::Dictionary(d) => {
            put(path, d.len());
            let p = format!("{path}[]");
            for x in d.values() {
                collect_lens(x, &p, out);
            }
        }
        _ => (),
    }
}

/// Full-tree conformance computed in the harness against the types the *running* module declares (an independent
/// re-implementation of `conforms`; the Coq predicate is evaluated on the pruned dump).  Returns the first
/// offending path.
pub fn conforms_full(t: &Type, v: &MV, path: &str) -> Option<String> {
    match (t, v) {
        (_, MV::Undefined) => None,
        (Type::Integer, MV::Integer(_))
        | (Type::Float, MV::Float(_))
        | (Type::Bytes, MV::Bytes(_))
        | (Type::Regex, MV::Regex(_))
        | (Type::Boolean, MV::Boolean(_))
        | (Type::Function { .. }, MV::Function(_)) => None,
        (Type::Object(ft), MV::Object(fv)) => {
            for (k, x) in fv {
                match ft.get(k) {
                    Some(t2) => {
                        if let Some(p) = conforms_full(t2, x, &format!("{path}.{k}")) {
                            return Some(p);
                        }
                    }
                    None => {
                        if !matches!(x, MV::Undefined) {
                            return Some(format!("{path}.{k} (undeclared)"));
                        }
                    }
                }
            }
            None
        }
        (Type::Array { value_type }, MV::Array(a)) => {
            for (i, x) in a.iter().enumerate() {
                if let Some(p) = conforms_full(value_type, x, &format!("{path}[{i}]")) {
                    return Some(p);
                }
            }
            None
        }
        (Type::Dictionary { value_type }, MV::Dictionary(d)) => {
            for (k, x) in d {
                if let Some(p) = conforms_full(value_type, x, &format!("{path}[{}]", hex(k))) {
                    return Some(p);
                }
            }
            None
        }
        _ => Some(format!("{path} (kind mismatch)")),
    }
}

// ------------------------------------------------------------------------------------------ type dumps
/// {"t":"integer"} … {"t":"object","fields":[[name,type]..]} (sorted) / array / dict / function
pub fn type_json(t: &Type) -> Value {
    match t {
        Type::Integer => json!({"t": "integer"}),
        Type::Float => json!({"t": "float"}),
        Type::Bytes => json!({"t": "bytes"}),
        Type::Regex => json!({"t": "regex"}),
        Type::Boolean => json!({"t": "boolean"}),
        Type::Object(m) => {
            let mut keys: Vec<_> = m.keys().collect();
            keys.sort();
            json!({"t": "object", "fields": keys.iter().map(|k| json!([k, type_json(&m[**k])])).collect::<Vec<_>>()})
        }
        Type::Array { value_type } => json!({"t": "array", "elem": type_json(value_type)}),
        Type::Dictionary { value_type } => json!({"t": "dict", "elem": type_json(value_type)}),
        Type::Function { arguments_types, return_type } => json!({"t": "function",
            "args": arguments_types.iter().map(|a| a.iter().map(type_json).collect::<Vec<_>>()).collect::<Vec<_>>(),
            "ret": type_json(return_type)}),
    }
}
