// bvh — harness running the real boreal code for the correspondence checks.
// Protocol: `bvh <sub>`; one JSON case per stdin line, one JSON result per stdout line.
use std::io::{BufRead, Write};
use std::panic::{catch_unwind, AssertUnwindSafe};

use serde_json::{json, Value};

mod util;
mod c19;

fn dispatch(sub: &str, case: &Value) -> Value {
    match sub {
        "c19" => c19::run(case),
        _ => json!({"error": format!("unknown subcommand {sub}")}),
    }
}

fn main() {
    let sub = std::env::args().nth(1).unwrap_or_default();
    // keep panics quiet: they are reported in the JSON
    std::panic::set_hook(Box::new(|_| {}));
    let stdin = std::io::stdin();
    let stdout = std::io::stdout();
    for line in stdin.lock().lines() {
        let Ok(line) = line else { break };
        if line.trim().is_empty() {
            continue;
        }
        let case: Value = match serde_json::from_str(&line) {
            Ok(v) => v,
            Err(e) => {
                println!("{}", json!({"error": format!("bad json: {e}")}));
                continue;
            }
        };
        let res = catch_unwind(AssertUnwindSafe(|| dispatch(&sub, &case)));
        let out = match res {
            Ok(v) => v,
            Err(e) => {
                let msg = if let Some(s) = e.downcast_ref::<String>() {
                    s.clone()
                } else if let Some(s) = e.downcast_ref::<&str>() {
                    (*s).to_string()
                } else {
                    "panic".to_string()
                };
                json!({"panic": msg})
            }
        };
        let mut o = stdout.lock();
        let _ = writeln!(o, "{out}");
        let _ = o.flush();
    }
}
