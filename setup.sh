#!/bin/sh
# Build the framework from files on disk only (offline).  Each check rebuilds exactly what it needs
# afterwards, so a failure to build one part here is reported but does not stop the others.
cd "$(dirname "$0")"
export CARGO_NET_OFFLINE=true
mkdir -p evidence .locks .work replays coq/cases_tmp
python3 - <<'PY'
import sys, glob, os
sys.path.insert(0, '.')
from vlib import core
with core.Lock("coq"):
    core.coq_prepare()
    rc, out = core.sh(["make", "-k", "-j16"], cwd=core.COQ, timeout=3000)
print(out[-3000:])
if rc != 0:
    print("setup: WARNING some Coq files did not build (each check reports its own targets)")
bins = [os.path.basename(f)[:-3] for f in glob.glob('harness/src/bin/*.rs')]
ok, out, binp = core.harness_build(bins)
print(out[-3000:])
if not ok:
    print("setup: WARNING harness build failed for some binary; building them one by one")
    for b in bins:
        ok1, out1, _ = core.harness_build((b,))
        if not ok1:
            print("setup: WARNING harness binary %s does not build" % b)
# C07: separate crate linking libyara 4.5.5 (vendored in yara-sys 0.32.0), built against /repo like the harness
import shutil
hy = 'harness_yara'
if os.path.isdir(hy):
    with core.Lock("cargo_yara"):
        if not os.path.exists(os.path.join(hy, 'Cargo.lock')):
            shutil.copy(os.path.join(core.REPO, 'Cargo.lock'), os.path.join(hy, 'Cargo.lock'))
        rc, out = core.cargo_build(["cargo", "build", "--offline", "--quiet"], os.path.abspath(hy), "debug",
                                   ("boreal", "boreal-parser", "bvy"), timeout=1500,
                                   env={"CARGO_NET_OFFLINE": "true", "RUSTFLAGS": "--cfg boreal_verif"})
    print(out[-2000:])
    if rc != 0:
        print("setup: WARNING harness_yara does not build")
sys.exit(0)
PY
