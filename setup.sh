#!/bin/sh
# Build the framework from files on disk only (offline).
set -e
cd "$(dirname "$0")"
export CARGO_NET_OFFLINE=true
mkdir -p evidence .locks .work replays coq/cases_tmp
python3 - <<'PY'
import sys
sys.path.insert(0, '.')
from vlib import core
ok, out = core.coq_make([], timeout=3000)
print(out[-3000:])
if not ok:
    sys.exit(1)
import glob, os
bins = [os.path.basename(f)[:-3] for f in glob.glob('harness/src/bin/*.rs')]
ok, out, binp = core.harness_build(bins)
print(out[-3000:])
sys.exit(0 if ok else 1)
PY
