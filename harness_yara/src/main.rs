// bvy — three-way conformance driver for C07: the same rule files and inputs through libyara 4.5.5
// (yara crate 0.32, vendored C source of yara-sys) and through boreal (current /repo working tree).
//
// Protocol: one JSON case per stdin line, one JSON result per stdout line.
//
// Case:   {"rules": [{"ns": null|"name", "src": "<yara text>"}], "inputs": ["<hex>", ...]}
//         {"probe": ["hash", "math", ...]}          which modules does each engine know
// Result: {"yara":   {"error": text} | {"scans": [SCAN, ...]},
//          "boreal": {"error": text} | {"panic": text} | {"scans": [SCAN, ...]},     CompilerProfile::Speed (default)
//          "boreal_mem": the same under CompilerProfile::Memory}
//   SCAN (yara):   {"err": null|text, "rules": [RULE, ...]}        every non-private rule, matched or not
//   boreal also: "desc": [[nb literals, kind, reverse validator and literals of unequal lengths], ...] per string in compilation order (global rules' strings first),
//                read through the hook Scanner::verif_describe_strings (cfg boreal_verif)
//   SCAN (boreal): {"err": null|text, "rules": [RULE, ...],        compute_full_matches + include_not_matched
//                   "default": ["ns:name", ...]}                   matched rules under default ScanParams
//   RULE: {"ns", "name", "matched", "strings": [{"name", "matches": [[offset, length], ...]}]}
//         strings with zero matches are omitted (libyara lists private strings with zero matches, boreal does not
//         list them at all)
use std::io::{BufRead, Write};
use std::panic::{catch_unwind, AssertUnwindSafe};

use std::sync::atomic::{AtomicU64, AtomicU8, Ordering};

use serde_json::{json, Value};

// Watchdog: libyara's regex engine does not poll the scan timeout (`/1_(x{0}b)+\x2e/` on `1_b.` never returns in
// 4.5.5).  Stage: 0 idle, 1 libyara, 2 boreal.  A case that stays in one stage for more than HANG_SECS is answered
// with {"hang": "yara"|"boreal"} and the process exits (the driver re-runs the rest of the shard case by case).
static STAGE: AtomicU8 = AtomicU8::new(0);
static STAGE_SINCE: AtomicU64 = AtomicU64::new(0);
const HANG_SECS: u64 = 20;

fn now_secs() -> u64 {
    std::time::SystemTime::now()
        .duration_since(std::time::UNIX_EPOCH)
        .map(|d| d.as_secs())
        .unwrap_or(0)
}

fn set_stage(s: u8) {
    STAGE_SINCE.store(now_secs(), Ordering::SeqCst);
    STAGE.store(s, Ordering::SeqCst);
}

fn watchdog() {
    loop {
        std::thread::sleep(std::time::Duration::from_millis(500));
        let st = STAGE.load(Ordering::SeqCst);
        if st != 0 && now_secs().saturating_sub(STAGE_SINCE.load(Ordering::SeqCst)) > HANG_SECS {
            let who = if st == 1 { "yara" } else { "boreal" };
            println!("{}", json!({"hang": who}));
            let _ = std::io::stdout().flush();
            std::process::exit(3);
        }
    }
}

fn unhex(s: &str) -> Vec<u8> {
    (0..s.len() / 2)
        .map(|i| u8::from_str_radix(&s[2 * i..2 * i + 2], 16).unwrap())
        .collect()
}

fn panic_message(e: &(dyn std::any::Any + Send)) -> String {
    if let Some(s) = e.downcast_ref::<String>() {
        s.clone()
    } else if let Some(s) = e.downcast_ref::<&str>() {
        (*s).to_string()
    } else {
        "panic".to_string()
    }
}

// ------------------------------------------------------------------ libyara
fn yara_rule_json(r: &yara::Rule, matched: bool) -> Value {
    json!({
        "ns": r.namespace,
        "name": r.identifier,
        "matched": matched,
        "strings": r.strings.iter().filter(|s| !s.matches.is_empty()).map(|s| json!({
            "name": s.identifier.trim_start_matches('$'),
            "matches": s.matches.iter().map(|m| json!([m.base + m.offset, m.length])).collect::<Vec<_>>(),
        })).collect::<Vec<_>>(),
    })
}

fn yara_compile(case: &Value) -> Result<yara::Rules, String> {
    let mut c = yara::Compiler::new().map_err(|e| format!("{e:?}"))?;
    for r in case["rules"].as_array().expect("rules") {
        let src = r["src"].as_str().expect("src");
        c = match r["ns"].as_str() {
            Some(ns) => c.add_rules_str_with_namespace(src, ns),
            None => c.add_rules_str(src),
        }
        .map_err(|e| match e {
            // warnings come in the same list: only the error-level messages say why the file was rejected
            yara::Error::Compile(ce) => ce
                .iter()
                .filter(|m| m.level == yara::errors::CompileErrorLevel::Error)
                .map(|m| format!("line {}: {}", m.line, m.message))
                .collect::<Vec<_>>()
                .join(" | "),
            other => format!("{other}"),
        })?;
    }
    c.compile_rules().map_err(|e| format!("{e:?}"))
}

fn run_yara(case: &Value) -> Value {
    let rules = match yara_compile(case) {
        Ok(r) => r,
        Err(e) => return json!({"error": e}),
    };
    let mut scans = Vec::new();
    for h in case["inputs"].as_array().expect("inputs") {
        let mem = unhex(h.as_str().unwrap());
        let mut scanner = match rules.scanner() {
            Ok(s) => s,
            Err(e) => {
                scans.push(json!({"err": format!("{e:?}"), "rules": []}));
                continue;
            }
        };
        scanner.set_flags(yara::ScanFlags::REPORT_RULES_MATCHING | yara::ScanFlags::REPORT_RULES_NOT_MATCHING);
        scanner.set_timeout(60);
        let mut out: Vec<Value> = Vec::new();
        let res = scanner.scan_mem_callback(&mem, |msg| {
            match msg {
                yara::CallbackMsg::RuleMatching(r) => out.push(yara_rule_json(&r, true)),
                yara::CallbackMsg::RuleNotMatching(r) => out.push(yara_rule_json(&r, false)),
                _ => (),
            }
            yara::CallbackReturn::Continue
        });
        scans.push(json!({"err": res.err().map(|e| format!("{e:?}")), "rules": out}));
    }
    json!({"scans": scans})
}

// ------------------------------------------------------------------ boreal
fn boreal_rule_json(r: &boreal::scanner::EvaluatedRule) -> Value {
    json!({
        "ns": r.namespace,
        "name": r.name,
        "matched": r.matched,
        "strings": r.matches.iter().filter(|s| !s.matches.is_empty()).map(|s| json!({
            "name": s.name,
            "matches": s.matches.iter().map(|m| json!([m.base + m.offset, m.length])).collect::<Vec<_>>(),
        })).collect::<Vec<_>>(),
    })
}

fn boreal_compile(case: &Value, memory_profile: bool) -> Result<boreal::Scanner, String> {
    let mut c = if memory_profile {
        boreal::compiler::CompilerBuilder::new()
            .profile(boreal::compiler::CompilerProfile::Memory)
            .build()
    } else {
        boreal::Compiler::new()
    };
    for r in case["rules"].as_array().expect("rules") {
        let src = r["src"].as_str().expect("src");
        match r["ns"].as_str() {
            Some(ns) => c.add_rules_str_in_namespace(src, ns),
            None => c.add_rules_str(src),
        }
        .map_err(|e| format!("{e}"))?;
    }
    Ok(c.finalize())
}

fn run_boreal(case: &Value, memory_profile: bool) -> Value {
    let scanner = match boreal_compile(case, memory_profile) {
        Ok(s) => s,
        Err(e) => return json!({"error": e}),
    };
    #[cfg(boreal_verif)]
    let desc: Vec<Value> = scanner
        .verif_describe_strings()
        .iter()
        .map(|d| {
            let unequal = d.literals.iter().any(|l| l.len() != d.literals[0].len());
            json!([d.literals.len(), d.kind, unequal && d.pre_hir.is_some()])
        })
        .collect();
    #[cfg(not(boreal_verif))]
    let desc: Vec<Value> = Vec::new();
    let mut full = scanner.clone();
    full.set_scan_params(
        boreal::scanner::ScanParams::default()
            .compute_full_matches(true)
            .include_not_matched_rules(true),
    );
    let mut scans = Vec::new();
    for h in case["inputs"].as_array().expect("inputs") {
        let mem = unhex(h.as_str().unwrap());
        let (err, res) = match full.scan_mem(&mem) {
            Ok(r) => (None, r),
            Err((e, r)) => (Some(format!("{e:?}")), r),
        };
        let rules: Vec<Value> = res.rules.iter().map(boreal_rule_json).collect();
        let (err2, res2) = match scanner.scan_mem(&mem) {
            Ok(r) => (None, r),
            Err((e, r)) => (Some(format!("{e:?}")), r),
        };
        let default: Vec<String> = res2
            .rules
            .iter()
            .filter(|r| r.matched)
            .map(|r| format!("{}:{}", r.namespace, r.name))
            .collect();
        scans.push(json!({"err": err.or(err2), "rules": rules, "default": default}));
    }
    json!({"scans": scans, "desc": desc})
}

fn probe(mods: &[Value]) -> Value {
    let mut y = Vec::new();
    let mut b = Vec::new();
    for m in mods {
        let name = m.as_str().unwrap();
        let case = json!({"rules": [{"ns": null, "src": format!("import \"{name}\"\nrule r {{ condition: true }}")}],
                          "inputs": []});
        if yara_compile(&case).is_ok() {
            y.push(name.to_string());
        }
        if boreal_compile(&case, false).is_ok() {
            b.push(name.to_string());
        }
    }
    json!({"yara_modules": y, "boreal_modules": b})
}

fn run(case: &Value) -> Value {
    if let Some(mods) = case["probe"].as_array() {
        return probe(mods);
    }
    set_stage(1);
    let y = run_yara(case);
    set_stage(2);
    let b = match catch_unwind(AssertUnwindSafe(|| run_boreal(case, false))) {
        Ok(v) => v,
        Err(e) => json!({"panic": panic_message(&*e)}),
    };
    // the compiler profile is a user option (CLI --profile memory): same file, same inputs again
    set_stage(2);
    let bm = match catch_unwind(AssertUnwindSafe(|| run_boreal(case, true))) {
        Ok(v) => v,
        Err(e) => json!({"panic": panic_message(&*e)}),
    };
    set_stage(0);
    json!({"yara": y, "boreal": b, "boreal_mem": bm})
}

fn main() {
    std::panic::set_hook(Box::new(|_| {}));
    std::thread::spawn(watchdog);
    let stdin = std::io::stdin();
    let stdout = std::io::stdout();
    for line in stdin.lock().lines() {
        let Ok(line) = line else { break };
        if line.trim().is_empty() {
            continue;
        }
        let out = match serde_json::from_str::<Value>(&line) {
            Ok(case) => run(&case),
            Err(e) => json!({"error": format!("bad json: {e}")}),
        };
        let mut o = stdout.lock();
        let _ = writeln!(o, "{out}");
        let _ = o.flush();
    }
}
