(* Spec/TextSpec.v — what a text string must match, written without reference to how boreal finds it:
   the set of encodings of a declaration, occurrence of an encoding at an offset, the fullword
   rule, and the list of offsets a scan must report. *)
From Boreal Require Import Base.Prelude Base.ListX Base.Bytes Base.Consts Model.Literals.

(* one encoding of the declared text: its bytes, the xor key it was made with (0 when the string
   has no xor modifier), and whether it is a wide (UTF-16LE) encoding of the text *)
Record enc := { e_bytes : bytes; e_key : N; e_wide : bool }.

(* wide form: every byte followed by a NUL *)
Fixpoint widen (s : bytes) : bytes :=
  match s with [] => [] | b :: s' => b :: 0 :: widen s' end.

(* ---- base64, declaratively.
   The text s placed at byte offset `off` (0,1,2) of a stream is bits [8 off, 8 (off + |s|)) of
   that stream.  Character i of the stream's base64 form is made of bits [6 i, 6 i + 6).  The
   characters that depend on s only are those whose 6 bits lie inside s; their value does not
   depend on the surrounding bytes, so zeros are used for them. *)
Fixpoint bits_of_byte (n : nat) (b : N) : list bool :=   (* n most significant first, of the low n bits *)
  match n with O => [] | S k => N.testbit b (N.of_nat k) :: bits_of_byte k b end.
Definition bits_of (s : bytes) : list bool := flat_map (bits_of_byte 8) s.
Fixpoint val_of_bits (acc : N) (l : list bool) : N :=
  match l with [] => acc | b :: l' => val_of_bits (2 * acc + (if b then 1 else 0)) l' end.

Definition spec_b64 (alphabet : bytes) (s : bytes) (off : N) : bytes :=
  let stream := bits_of (repeat 0 (N.to_nat off) ++ s ++ [0; 0]) in
  let lo := 8 * off in
  let hi := 8 * (off + nlen s) in
  flat_map (fun i =>
      if (lo <=? 6 * i) && (6 * i + 6 <=? hi)
      then [nnth 0 (val_of_bits 0 (slice (6 * i) (6 * i + 6) stream)) alphabet]
      else [])
    (iota 0 ((hi + 5) / 6)).

(* ---- the encodings of a declaration *)
Definition eff_ascii (d : tdecl) : bool := t_ascii d || negb (t_wide d).   (* ascii is the default *)

(* plain byte forms before xor / base64: (bytes, is wide) *)
Definition plain_forms (d : tdecl) : list (bytes * bool) :=
  (if eff_ascii d then [(t_text d, false)] else [])
  ++ (if t_wide d then [(widen (t_text d), true)] else []).

Definition keys (lo hi : N) : list N := iota lo (hi + 1 - lo).

Definition enc_set (d : tdecl) : list enc :=
  match t_xor d with
  | Some (lo, hi) =>
      flat_map (fun f => map (fun k => {| e_bytes := xor_bytes k (fst f); e_key := k; e_wide := snd f |})
                             (keys lo hi)) (plain_forms d)
  | None =>
      match t_b64 d with
      | Some b =>
          let alphabet := match b_alpha b with Some a => a | None => BASE64_DEFAULT_ALPHABET end in
          flat_map (fun f => flat_map (fun off =>
              let e := spec_b64 alphabet (fst f) off in
              match e with
              | [] => []                 (* nothing of the text survives the trimming *)
              | _ => (if b_ascii b then [{| e_bytes := e; e_key := 0; e_wide := false |}] else [])
                     ++ (if b_wide b then [{| e_bytes := widen e; e_key := 0; e_wide := true |}] else [])
              end) [0; 1; 2]) (plain_forms d)
      | None => map (fun f => {| e_bytes := fst f; e_key := 0; e_wide := snd f |}) (plain_forms d)
      end
  end.

(* ---- occurrence of byte string x at offset o of m *)
Definition occurs_at (nocase : bool) (x : bytes) (m : bytes) (o : N) : bool :=
  (o + nlen x <=? nlen m)
  && let w := slice o (o + nlen x) m in if nocase then eq_nocase x w else bytes_eqb x w.

(* ---- fullword: the occurrence m[o, o+n) is delimited.
   ascii: no alphanumeric byte just before or just after.
   wide:  no wide alphanumeric character (alphanumeric byte then NUL) just before or just after. *)
Definition alnum_before (m : bytes) (o : N) : bool :=
  (1 <=? o) && match slice (o - 1) o m with [c] => is_alnum c | _ => false end.
Definition alnum_after (m : bytes) (e : N) : bool :=
  match slice e (e + 1) m with [c] => is_alnum c | _ => false end.
Definition wide_alnum_before (m : bytes) (o : N) : bool :=
  (2 <=? o) && match slice (o - 2) o m with [c; z] => is_alnum c && (z =? 0) | _ => false end.
Definition wide_alnum_after (m : bytes) (e : N) : bool :=
  match slice e (e + 2) m with [c; z] => is_alnum c && (z =? 0) | _ => false end.

Definition delimited (wide : bool) (m : bytes) (o n : N) : bool :=
  if wide then negb (wide_alnum_before m o) && negb (wide_alnum_after m (o + n))
  else negb (alnum_before m o) && negb (alnum_after m (o + n)).

(* encoding e of d occurs at o and satisfies the fullword rule *)
Definition occ (d : tdecl) (m : bytes) (o : N) (e : enc) : bool :=
  occurs_at (t_nocase d) (e_bytes e) m o
  && (negb (t_fullword d) || delimited (e_wide e) m o (nlen (e_bytes e))).

(* the offsets a scan of m must report, ascending, one per offset *)
Definition spec_offsets (d : tdecl) (m : bytes) : list N :=
  filter (fun o => existsb (occ d m o) (enc_set d)) (iota 0 (nlen m)).

(* a reported record (offset, length, key, data) is that of a true encoding occurrence;
   data is the matched bytes capped at max_len *)
Definition record_ok (d : tdecl) (m : bytes) (max_len : N) (o len key : N) (data : bytes) : bool :=
  existsb (fun e => occ d m o e && (len =? nlen (e_bytes e)) && (key =? e_key e)) (enc_set d)
  && bytes_eqb data (slice o (o + N.min len max_len) m).

(* un-xoring the matched bytes with the reported key gives the declared text (widened when wide) *)
Definition unxor_ok (d : tdecl) (m : bytes) (o len key : N) : bool :=
  match t_xor d with
  | Some (lo, hi) =>
      (lo <=? key) && (key <=? hi)
      && let u := xor_bytes key (slice o (o + len) m) in
         (eff_ascii d && bytes_eqb u (t_text d)) || (t_wide d && bytes_eqb u (widen (t_text d)))
  | None => key =? 0
  end.
