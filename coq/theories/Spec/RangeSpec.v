(* Spec/RangeSpec.v — which bytes a call over (offset, size) is about.
   File / byte-slice scan: the bytes of the range clipped to the data; undefined when an argument is negative or the
   range starts outside the data.
   Fragmented memory (regions listed in ascending address order): as documented on `Memory::on_range` — the bytes
   from `offset` on, through regions that follow each other without a hole, until `size` bytes are collected or the
   data ends; undefined if `offset` is in no region's available bytes, if a region needed cannot be fetched, or if a
   hole is followed by another region.  Only the bytes actually fetched of a region are available (a fetch may be
   shorter than the description); a range reaching past them is truncated there. *)
From Boreal Require Import Base.Prelude Spec.MathSpec Model.ModFuncs.
Open Scope N_scope.

Definition clip_direct (l : list N) (o n : Z) : option (list N) :=
  if (o <? 0)%Z || (n <? 0)%Z || (Z.of_N (nlen l) <=? o)%Z then None
  else Some (firstn (N.to_nat (N.min (Z.to_N n) (nlen l))) (skipn (Z.to_nat o) l)).

Definition avail (r : region) : list N := firstn (N.to_nat (rg_len r)) (rg_data r).
Definition is_short (r : region) : bool := nlen (rg_data r) <? rg_len r.
Definition takeN (n : N) (l : list N) : list N := firstn (N.to_nat n) l.

(* the regions that must continue the range at address `pos`, `want` bytes still missing *)
Fixpoint collect (rs : list region) (pos want : N) : option (list N) :=
  match rs with
  | [] => Some []
  | r :: rs' =>
      if negb (rg_start r =? pos) then None
      else if rg_len r =? 0 then collect rs' pos want
      else if rg_fail r then None
      else
        let a := avail r in
        if want <=? nlen a then Some (takeN want a)
        else if is_short r then Some a
        else match collect rs' (pos + rg_len r) (want - rg_len r) with
             | Some t => Some (a ++ t)
             | None => None
             end
  end.

Fixpoint spec_frag (rs : list region) (start n : N) : option (list N) :=
  match rs with
  | [] => None
  | r :: rs' =>
      if start <? rg_start r then None
      else if start <? rg_start r + rg_len r then
        if rg_fail r then None
        else
          let a := skipn (N.to_nat (start - rg_start r)) (avail r) in
          match a with
          | [] => None
          | _ =>
              if n <=? nlen a then Some (takeN n a)
              else if is_short r then Some a
              else match collect rs' (rg_start r + rg_len r) (n - nlen a) with
                   | Some t => Some (a ++ t)
                   | None => None
                   end
          end
      else spec_frag rs' start n
  end.

Definition spec_range (m : memory) (o n : Z) : option (list N) :=
  match m with
  | Direct l => clip_direct l o n
  | Frag refetch rs =>
      if (o <? 0)%Z || (n <? 0)%Z || negb refetch then None else spec_frag rs (Z.to_N o) (Z.to_N n)
  end.
