(* Spec/PeriodicSpec.v — the math functions (and checksum32) over an input that is k copies of a short pattern p,
   in closed form, so that inputs of tens of MiB can be specified without materialising them: over a range made of
   q whole periods every sum is q times the pattern's.  Used by the "huge input" family of the C16 correspondence
   (sums beyond 2^32 / 2^53).  Proofs/ModFuncsPeriodic.v relates these closed forms to the list-based MathSpec on
   `rep p q`. *)
From Coq Require Import QArith Qabs Qreduction.
From Boreal Require Import Base.Prelude Spec.MathSpec.
Open Scope N_scope.

Fixpoint rep (p : list N) (q : nat) : list N := match q with O => [] | S q' => p ++ rep p q' end.

(* the range (o, n) of k copies of a pattern of length plen: undefined (Some None), q whole periods (Some (Some q)),
   or not period-aligned (None: outside this family) *)
Definition periods (plen k : N) (o n : Z) : option (option N) :=
  if plen =? 0 then None
  else if (o <? 0)%Z || (n <? 0)%Z then Some None
  else
    let o' := Z.to_N o in
    let len := plen * k in
    if len <=? o' then Some None
    else if negb (o' mod plen =? 0) then None
    else
      let e := N.min len (o' + Z.to_N n) in
      if negb (e mod plen =? 0) then None else Some (Some ((e - o') / plen)).

Section Scaled.
  Variable p : list N.
  Variable q : N.

  Definition p_len : N := q * nlen p.
  Definition p_sum : N := q * sum_list p.
  Definition p_hist : list N := map (N.mul q) (histogram p).
  Definition p_count (b : N) : N := q * count_of b p.

  Definition p_mean : option fval := if p_len =? 0 then None else Some (fq (qdiv_n (NQ p_sum) p_len)).

  Definition p_deviation (mu : Q) : option fval :=
    if p_len =? 0 then None
    else Some (fq (qdiv_n (sumq (map (fun c => Qabs (NQ c - mu) * NQ (p_count c))%Q all_bytes)) p_len)).

  Definition p_percentage (b : N) : option fval :=
    if 256 <=? b then None else if p_len =? 0 then None else Some (fq (qdiv_n (NQ (p_count b)) p_len)).

  Definition p_count_opt (b : N) : option Z := if 256 <=? b then None else Some (Z.of_N (p_count b)).

  Definition p_entropy : fval := FEntropy p_hist p_len.

  Definition p_mode : Z := mode_spec (if q =? 0 then [] else p).

  (* cyclic lag-1 products of q copies = q times those of one copy *)
  Definition p_scc : fval :=
    let n := Z.of_N p_len in
    let t1 := Z.of_N (q * mul_pairs p (rot1 p)) in
    let s := Z.of_N p_sum in
    let t3 := Z.of_N (q * sum_list (map (fun x => x * x) p)) in
    let den := (n * t3 - s * s)%Z in
    if (den =? 0)%Z then fq (inject_Z (-100000))
    else fq (inject_Z (n * t1 - s * s) / inject_Z den)%Q.

  (* groups of six: six copies of the pattern are a whole number of groups *)
  Definition p_monte : option fval :=
    let p6 := rep p 6 in
    let a := q / 6 in
    let r := rep p (N.to_nat (q mod 6)) in
    let hits := a * nlen (filter in_circle (groups6 p6)) + nlen (filter in_circle (groups6 r)) in
    let total := a * nlen (groups6 p6) + nlen (groups6 r) in
    if total =? 0 then None else Some (FMonte hits total).

  Definition p_checksum32 : N := p_sum mod 4294967296.
End Scaled.
