(* Spec/IncludeSpec.v — what "includes are transparent" means.

   A document is a list of components; an `include "name"` directive denotes another
   document (which one is decided by a *resolver*: the file system relative to the
   including file, or the user's callback).  Textual inlining replaces every directive
   by the inlined content of the document it denotes.  Compiling a document with includes
   must be the same as compiling the inlined component list with the compiler for
   include-free text (`compile_items`), and when something goes wrong the first problem
   in inlined document order decides the error kind.

   The spec is generic in how a single rule / import is compiled (`step`): whatever a
   rule does to the compiler state, includes must not change it. *)
From Coq Require Import String.
From Boreal Require Import Base.Prelude.
Open Scope string_scope.
Open Scope list_scope.

(* ---------------------------------------------------------------- paths *)
Inductive seg := SUp | SCur | SName (s : string).
Definition path := list string.            (* canonical path below the root: names only *)

Inductive fcontent (plain : Type) :=
| FText (cs : list (string + plain))       (* inl name = `include "name"`, inr x = rule / import *)
| FBadSyntax                               (* text the parser rejects *)
| FNotUtf8.                                (* a file `read_to_string` rejects *)
Arguments FText {plain}. Arguments FBadSyntax {plain}. Arguments FNotUtf8 {plain}.

Inductive node (plain : Type) := NDir | NFile (c : fcontent plain).
Arguments NDir {plain}. Arguments NFile {plain}.

Definition path_eqb (a b : path) : bool := list_eqb String.eqb a b.

(* A file system: association list from canonical paths to nodes; the root [] is a directory. *)
Definition fsys (plain : Type) := list (path * node plain).

Fixpoint fs_lookup {plain} (fs : fsys plain) (p : path) : option (node plain) :=
  match fs with
  | [] => None
  | (q, n) :: rest => if path_eqb q p then Some n else fs_lookup rest p
  end.
Definition fs_node {plain} (fs : fsys plain) (p : path) : option (node plain) :=
  match p with [] => Some NDir | _ => fs_lookup fs p end.
Definition is_dir {plain} (fs : fsys plain) (p : path) : bool :=
  match fs_node fs p with Some NDir => true | _ => false end.
Definition exists_node {plain} (fs : fsys plain) (p : path) : bool :=
  match fs_node fs p with Some _ => true | None => false end.

(* What a path denotes (POSIX path walk without symbolic links), as a relation:
   `Resolves fs dir segs q` — starting in directory `dir`, the segments lead to `q`. *)
Inductive Resolves {plain} (fs : fsys plain) : path -> list seg -> path -> Prop :=
| Res_nil  : forall d, Resolves fs d [] d
| Res_cur  : forall d rest q, is_dir fs d = true -> Resolves fs d rest q -> Resolves fs d (SCur :: rest) q
| Res_up   : forall d rest q, is_dir fs d = true -> Resolves fs (removelast d) rest q ->
                              Resolves fs d (SUp :: rest) q
| Res_name : forall d n rest q, is_dir fs d = true -> exists_node fs (d ++ [n]) = true ->
                              Resolves fs (d ++ [n]) rest q -> Resolves fs d (SName n :: rest) q.

(* ---------------------------------------------------------------- errors *)
Inductive err (E : Type) :=
| EIO                 (* AddRuleErrorKind::IO *)
| EInvalidInclude     (* AddRuleErrorKind::InvalidInclude: cannot resolve / callback failed *)
| ETooDeep            (* AddRuleErrorKind::InvalidInclude "includes depth exceeded" *)
| EUnauthorized       (* AddRuleErrorKind::UnauthorizedInclude *)
| EParse              (* AddRuleErrorKind::Parse *)
| ECompile (e : E).   (* AddRuleErrorKind::Compilation *)
Arguments EIO {E}. Arguments EInvalidInclude {E}. Arguments ETooDeep {E}.
Arguments EUnauthorized {E}. Arguments EParse {E}. Arguments ECompile {E}.

(* ---------------------------------------------------------------- inlining *)
Section Spec.
  Variables plain St E cur : Type.
  (* compiling one rule / import into namespace ns *)
  Variable step : St -> string -> plain -> St * option E.
  (* `add_component` looks the namespace up (creating it) before anything else *)
  Variable touch : St -> string -> St.
  (* what an include directive denotes, given the document it appears in *)
  Variable resolve : cur -> string -> err E + (cur * fcontent plain).
  (* CompilerParams::disable_includes: every directive is an error *)
  Variable disabled : bool.

  Inductive item := IPlain (x : plain) | IErr (e : err E).

  (* The compiler for include-free text: components in order, the first error stops. *)
  Fixpoint compile_items (st : St) (ns : string) (items : list item) : St * option (err E) :=
    match items with
    | [] => (st, None)
    | IErr e :: _ => (touch st ns, Some e)
    | IPlain x :: rest =>
        match step (touch st ns) ns x with
        | (st', None) => compile_items st' ns rest
        | (st', Some e) => (st', Some (ECompile e))
        end
    end.

  (* Pure textual inlining, no bound on nesting: defined exactly when every directive
     resolves to parsable text and the nesting is finite.  The index bounds the nesting depth. *)
  Inductive Inl : nat -> cur -> list (string + plain) -> list plain -> Prop :=
  | Inl_nil : forall n c, Inl n c [] []
  | Inl_plain : forall n c x cs xs, Inl n c cs xs -> Inl n c (inr x :: cs) (x :: xs)
  | Inl_include : forall n c name cs c' cs' xs ys,
      resolve c name = inr (c', FText cs') ->
      Inl n c' cs' xs -> Inl (S n) c cs ys ->
      Inl (S n) c (inl name :: cs) (xs ++ ys).

  (* Executable inlining with a nesting bound and error markers where inlining is
     undefined: includes disabled, nesting too deep, unresolvable directive, unparsable /
     unreadable target (checked in this order, the order of the compiler). *)
  Definition doc_items (inl_cs : cur -> list (string + plain) -> list item)
             (c : cur) (doc : fcontent plain) : list item :=
    match doc with
    | FText cs => inl_cs c cs
    | FBadSyntax => [IErr EParse]
    | FNotUtf8 => [IErr EIO]
    end.

  Fixpoint inline_cs (rec : option (cur -> list (string + plain) -> list item))
           (c : cur) (cs : list (string + plain)) : list item :=
    match cs with
    | [] => []
    | inr x :: rest => IPlain x :: inline_cs rec c rest
    | inl name :: rest =>
        (if disabled then [IErr EUnauthorized] else
         match rec with
         | None => [IErr ETooDeep]
         | Some r =>
             match resolve c name with
             | inl e => [IErr e]
             | inr (c', doc) => doc_items r c' doc
             end
         end) ++ inline_cs rec c rest
    end.

  (* `inline d`: at most d nested directives *)
  Fixpoint inline (d : nat) : cur -> list (string + plain) -> list item :=
    inline_cs (match d with O => None | S d' => Some (inline d') end).
End Spec.
