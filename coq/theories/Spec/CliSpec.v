(* Spec/CliSpec.v — the documented output format of the `boreal` command-line tool, written
   declaratively from the help texts / README (boreal-cli/src/args/*.rs, README.md), without
   reference to how main.rs produces it.

     <namespace>:<rule> [<tags>] [<metadata>] <scanned object>          one line per reported rule
     0x<offset>:<length>:$<string>:xor(0x<key>,<plaintext>): <data>     one line per string match

   Inputs of the specification are
     - the command-line options,
     - the *declarations* of the rules (what the rule files say: tags, metadata, private/global,
       which strings are private),
     - per scanned file, what the library's result-list API (`Scanner::scan_mem`, every
       non-private rule with its verdict and its full match lists) reports,
     - the regular files below the target, as a flat list with depth / size / reached-through-a-link.
   The output is specified as a multiset of lines. *)
From Coq Require Import String Ascii.
From Boreal Require Import Base.Prelude.

Definition bytes := list N.

(* Coq string literal -> bytes, for the constant parts of the format *)
Definition B (s : string) : bytes := map N_of_ascii (list_ascii_of_string s).

Definition bytes_eqb (a b : bytes) : bool := list_eqb N.eqb a b.

(* ------------------------------------------------------------------ numbers and escapes *)
Definition digit_char (d : N) : N := if d <? 10 then 48 + d else 87 + d.

Fixpoint digits_fuel (fuel : nat) (base n : N) (acc : bytes) : bytes :=
  match fuel with
  | O => acc
  | S k => let acc' := digit_char (n mod base) :: acc in
           if n / base =? 0 then acc' else digits_fuel k base (n / base) acc'
  end.

(* positional notation without leading zeros ("0" for 0) *)
Definition to_base (base n : N) : bytes := digits_fuel (S (N.to_nat (N.log2 n))) base n [].
Definition dec (n : N) : bytes := to_base 10 n.
Definition hex (n : N) : bytes := to_base 16 n.
Definition hex2 (n : N) : bytes := [digit_char (n / 16 mod 16); digit_char (n mod 16)].
Definition decZ (z : Z) : bytes := if (z <? 0)%Z then 45 :: dec (Z.to_N (- z)) else dec (Z.to_N z).

(* Rust's std::ascii::escape_default *)
Definition escape_byte (c : N) : bytes :=
  if c =? 9 then B "\t" else if c =? 13 then B "\r" else if c =? 10 then B "\n"
  else if c =? 39 then B "\'" else if c =? 34 then [92; 34] else if c =? 92 then [92; 92]
  else if (32 <=? c) && (c <=? 126) then [c]
  else 92 :: 120 :: hex2 c.

Definition escaped (data : bytes) : bytes := flat_map escape_byte data.
Definition xor_bytes (key : N) (data : bytes) : bytes := map (fun c => N.lxor c key) data.

Fixpoint join (sep : bytes) (l : list bytes) : bytes :=
  match l with
  | [] => []
  | [x] => x
  | x :: rest => x ++ sep ++ join sep rest
  end.

(* ------------------------------------------------------------------ shared vocabulary *)
Record smatch := { m_base : N; m_offset : N; m_length : N; m_key : N; m_data : bytes }.
Inductive meta_value := MBytes (b : bytes) | MInt (z : Z) | MBool (b : bool).
Record rule_info := { r_ns : bytes; r_name : bytes; r_tags : list bytes; r_metas : list (bytes * meta_value) }.

Inductive wmode := WFail | WPrint | WIgnore.

(* display / filter options (args/callback.rs) *)
Record cb_options := {
  o_strings : bool;          (* -s *)
  o_length : bool;           (* -L *)
  o_xor : bool;              (* -X *)
  o_meta : bool;             (* -m *)
  o_ns : bool;               (* -e *)
  o_tags : bool;             (* -g *)
  o_count : bool;            (* -c *)
  o_stats : bool;            (* --scan-stats *)
  o_module_data : bool;      (* -D *)
  o_match_max_length : option N;
  o_limit : option N;        (* -l *)
  o_ident : option bytes;    (* -i *)
  o_tag : option bytes;      (* -t *)
  o_negate : bool;           (* -n *)
  o_warning : wmode }.

(* input options (args/input.rs) *)
Record in_options := {
  i_scan_list : bool; i_no_follow : bool; i_recursive : bool; i_skip_larger : option N;
  i_no_mmap : bool; i_threads : option N }.

(* a line of output: (is_stderr, text without the newline) *)
Definition line := (bool * bytes)%type.
Definition so (b : bytes) : line := (false, b).
Definition se (b : bytes) : line := (true, b).
Definition line_eqb (a b : line) : bool := Bool.eqb (fst a) (fst b) && bytes_eqb (snd a) (snd b).

(* ------------------------------------------------------------------ declarations and library results *)
Record decl := { d_info : rule_info; d_private : bool; d_global : bool; d_strings : list (bytes * bool) (* name, private *) }.

(* one rule of a ScanResult (include_not_matched_rules = true, compute_full_matches = true) *)
Record rres := { rr_ns : bytes; rr_name : bytes; rr_matched : bool; rr_strings : list (bytes * list smatch) }.

Fixpoint find_decl (ds : list decl) (ns name : bytes) : option decl :=
  match ds with
  | [] => None
  | d :: rest => if bytes_eqb (r_ns (d_info d)) ns && bytes_eqb (r_name (d_info d)) name then Some d
                 else find_decl rest ns name
  end.

Definition mem_bytes (x : bytes) (l : list bytes) : bool := existsb (bytes_eqb x) l.

(* ------------------------------------------------------------------ the format *)
Definition print_strings (o : cb_options) : bool := o_strings o || o_length o || o_xor o.

Definition meta_text (m : bytes * meta_value) : bytes :=
  fst m ++ B "=" ++ match snd m with
                    | MBytes b => B """" ++ escaped b ++ B """"
                    | MInt z => decZ z
                    | MBool true => B "true"
                    | MBool false => B "false"
                    end.

Definition rule_line (o : cb_options) (i : rule_info) (what : bytes) : bytes :=
  (if o_ns o then r_ns i ++ B ":" else [])
  ++ r_name i
  ++ (if o_tags o then B " [" ++ join (B ",") (r_tags i) ++ B "]" else [])
  ++ (if o_meta o then B " [" ++ join (B ",") (map meta_text (r_metas i)) ++ B "]" else [])
  ++ B " " ++ what.

Definition match_line (o : cb_options) (sname : bytes) (m : smatch) : bytes :=
  B "0x" ++ hex (m_base m + m_offset m) ++ B ":"
  ++ (if o_length o then dec (m_length m) ++ B ":" else [])
  ++ B "$" ++ sname
  ++ (if o_xor o then B ":xor(0x" ++ hex2 (m_key m) ++ B "," ++ escaped (xor_bytes (m_key m) (m_data m)) ++ B ")" else [])
  ++ (if o_strings o then B ": " ++ escaped (m_data m) else []).

(* which rules are reported: matching ones, or with -n the ones that did not match; at most
   -l of them (the count is taken before the display filters -i / -t) *)
Definition wanted (o : cb_options) (r : rres) : bool := if o_negate o then negb (rr_matched r) else rr_matched r.

Definition limited {A} (o : cb_options) (l : list A) : list A :=
  match o_limit o with Some n => firstn (N.to_nat n) l | None => l end.

Definition shown (o : cb_options) (d : decl) : bool :=
  match o_ident o with Some id => bytes_eqb (r_name (d_info d)) id | None => true end
  && match o_tag o with Some t => mem_bytes t (r_tags (d_info d)) | None => true end.

Definition string_is_private (d : decl) (sname : bytes) : bool :=
  existsb (fun s => bytes_eqb (fst s) sname && snd s) (d_strings d).

Definition rule_lines (o : cb_options) (ds : list decl) (what : bytes) (r : rres) : option (list bytes) :=
  match find_decl ds (rr_ns r) (rr_name r) with
  | None => None                                (* the library reports a rule nobody declared *)
  | Some d =>
      if d_private d then None                  (* private rules are never reported *)
      else if negb (shown o d) then Some []
      else Some (rule_line o (d_info d) what
                 :: (if print_strings o
                     then flat_map (fun s => if string_is_private d (fst s) then []
                                             else map (match_line o (fst s)) (snd s)) (rr_strings r)
                     else []))
  end.

Fixpoint concat_opt {A} (l : list (option (list A))) : option (list A) :=
  match l with
  | [] => Some []
  | None :: _ => None
  | Some x :: rest => match concat_opt rest with Some r => Some (x ++ r) | None => None end
  end.

(* stdout lines for one scanned file; `res = None`: the file cannot be read *)
Definition spec_file_lines (o : cb_options) (ds : list decl) (what : bytes) (res : option (list rres))
  : option (list bytes) :=
  match res with
  | None => if o_count o then Some [what ++ B ": 0"] else Some []
  | Some rs =>
      let sel := limited o (filter (wanted o) rs) in
      if o_count o then Some [what ++ B ": " ++ dec (nlen sel)]
      else concat_opt (map (rule_lines o ds what) sel)
  end.

(* ------------------------------------------------------------------ which files are scanned *)
(* a regular file found below a directory target *)
Record found := { f_path : bytes; f_depth : N; f_size : N; f_via_link : bool }.

Definition file_selected (io : in_options) (f : found) : bool :=
  (i_recursive io || (f_depth f <=? 1))
  && (negb (i_no_follow io) || negb (f_via_link f))
  && match i_skip_larger io with
     | Some mx => negb ((0 <? mx) && (mx <=? f_size f))
     | None => true
     end.

(* ------------------------------------------------------------------ scan parameters the options stand for *)
Record scan_params := {
  p_full_matches : bool; p_match_max_length : N; p_string_max_nb_matches : N;
  p_include_not_matched : bool; p_events : N; p_statistics : bool;
  p_memory_chunk_size : option N; p_timeout : option N; p_max_fetched_region_size : N;
  p_frag_mode : N (* 0 legacy, 1 fast, 2 single pass *) }.

Definition EV_RULE_MATCH := 1.
Definition EV_RULE_NO_MATCH := 2.
Definition EV_MODULE_IMPORT := 4.
Definition EV_SCAN_STATISTICS := 8.
Definition EV_STRING_LIMIT := 16.

(* scanner options (args/scanner.rs) that reach ScanParams *)
Record sc_options := {
  s_memory_chunk_size : option N; s_timeout : option N; s_max_fetched_region_size : option N;
  s_frag_mode : option N; s_string_max_nb_matches : option N }.

Definition dflt {A} (o : option A) (d : A) : A := match o with Some x => x | None => d end.

(* documented meaning of the options, field by field *)
Definition spec_params_ok (s : sc_options) (o : cb_options) (p : scan_params) : bool :=
  Bool.eqb (p_full_matches p) (print_strings o)
  && (p_match_max_length p =? dflt (o_match_max_length o) 512)
  && (p_string_max_nb_matches p =? dflt (s_string_max_nb_matches s) 1000)
  && Bool.eqb (p_include_not_matched p) (o_negate o)
  && Bool.eqb (N.testbit (p_events p) 0) (negb (o_negate o))
  && Bool.eqb (N.testbit (p_events p) 1) (o_negate o)
  && Bool.eqb (N.testbit (p_events p) 2) (o_module_data o)
  && Bool.eqb (N.testbit (p_events p) 3) (o_stats o)
  && Bool.eqb (N.testbit (p_events p) 4) (match o_warning o with WIgnore => false | _ => true end)
  && Bool.eqb (p_statistics p) (o_stats o)
  && opt_eqb N.eqb (p_memory_chunk_size p) (s_memory_chunk_size s)
  && opt_eqb N.eqb (p_timeout p) (s_timeout s)
  && (p_max_fetched_region_size p =? dflt (s_max_fetched_region_size s) 1073741824)
  && (p_frag_mode p =? dflt (s_frag_mode s) 0).

(* ------------------------------------------------------------------ multisets of lines *)
(* [mset_eqb], [mset_subb]: decision procedures for "same multiset" / "sub-multiset" *)
Fixpoint remove_first {A} (eqb : A -> A -> bool) (x : A) (l : list A) : option (list A) :=
  match l with
  | [] => None
  | y :: rest => if eqb x y then Some rest
                 else match remove_first eqb x rest with Some r => Some (y :: r) | None => None end
  end.

(* multiset equality: every element of a is removed once from b, nothing is left *)
Fixpoint mset_eqb {A} (eqb : A -> A -> bool) (a b : list A) : bool :=
  match a with
  | [] => match b with [] => true | _ => false end
  | x :: a' => match remove_first eqb x b with Some b' => mset_eqb eqb a' b' | None => false end
  end.

(* sub-multiset: every element of a is removed once from b *)
Fixpoint mset_subb {A} (eqb : A -> A -> bool) (a b : list A) : bool :=
  match a with
  | [] => true
  | x :: a' => match remove_first eqb x b with Some b' => mset_subb eqb a' b' | None => false end
  end.

(* remove the elements of a from b (None when one is missing) *)
Fixpoint mset_diff {A} (eqb : A -> A -> bool) (a b : list A) : option (list A) :=
  match a with
  | [] => Some b
  | x :: a' => match remove_first eqb x b with Some b' => mset_diff eqb a' b' | None => None end
  end.
