(* Spec/Strtol.v — C `strtoll` (ISO C 7.22.1.4, "C" locale) followed by the three tests libyara's string.to_int
   makes on its result (errno == 0, endp != s, *endp == 0): the whole byte string must be consumed.
   Written from the standard's description: white space, optional sign, optional 0x/0X prefix when the base is 16
   or 0 (only when a hexadecimal digit follows: otherwise the subject sequence is the single "0"), base 0 = octal
   after a leading 0 and decimal otherwise, the longest run of digits of the base, value accumulated without bound,
   range test at the end (ERANGE).
   Byte strings are taken as they are: a NUL byte is an ordinary non-digit (libyara's C-string view would stop
   there); see notes/C16.md. *)
From Boreal Require Import Base.Prelude.
Open Scope Z_scope.

Definition c_isspace (b : N) : bool := (b =? 32)%N || ((9 <=? b)%N && (b <=? 13)%N).

Definition digit_val (b : N) : option N :=
  if (48 <=? b)%N && (b <=? 57)%N then Some (b - 48)%N
  else if (97 <=? b)%N && (b <=? 122)%N then Some (b - 87)%N
  else if (65 <=? b)%N && (b <=? 90)%N then Some (b - 55)%N
  else None.

Definition digit_in (base : N) (b : N) : option N :=
  match digit_val b with Some d => if (d <? base)%N then Some d else None | None => None end.

Fixpoint skip_spaces (s : list N) : list N :=
  match s with b :: r => if c_isspace b then skip_spaces r else s | [] => [] end.

(* longest run of digits of the base, as values, and what is left *)
Fixpoint span_digits (base : N) (s : list N) : list N * list N :=
  match s with
  | [] => ([], [])
  | b :: r => match digit_in base b with
              | Some d => let (ds, rest) := span_digits base r in (d :: ds, rest)
              | None => ([], s)
              end
  end.

Definition value_of (base : N) (ds : list N) : Z := fold_left (fun acc d => acc * Z.of_N base + Z.of_N d) ds 0.

Definition i64_min : Z := -9223372036854775808.
Definition i64_max : Z := 9223372036854775807.
Definition in_i64 (z : Z) : bool := (i64_min <=? z) && (z <=? i64_max).

Definition base_ok (base : Z) : bool := (base =? 0) || ((2 <=? base) && (base <=? 36)).

Definition is_x (b : N) : bool := (b =? 120)%N || (b =? 88)%N.
Definition is_digit_of (base : N) (b : N) : bool := match digit_in base b with Some _ => true | None => false end.

(* optional sign *)
Definition sign_of (s : list N) : bool * list N :=
  match s with
  | c :: r => if (c =? 45)%N then (true, r) else if (c =? 43)%N then (false, r) else (false, s)
  | [] => (false, [])
  end.

(* "0x"/"0X" followed by a hexadecimal digit *)
Definition has_hex_prefix (s : list N) : bool :=
  match s with
  | c :: x :: h :: _ => (c =? 48)%N && is_x x && is_digit_of 16 h
  | _ => false
  end.
Definition leading_zero (s : list N) : bool := match s with c :: _ => (c =? 48)%N | [] => false end.

(* digits, full consumption, range *)
Definition convert (neg : bool) (b : N) (s : list N) : option Z :=
  let '(ds, rest) := span_digits b s in
  match ds, rest with
  | [], _ => None                      (* no conversion: endp == s *)
  | _, _ :: _ => None                  (* *endp != 0 *)
  | _, [] =>
      let v := value_of b ds in
      let r := if neg then - v else v in
      if in_i64 r then Some r else None (* ERANGE *)
  end.

Definition strtoll_full (s : list N) (base : Z) : option Z :=
  if negb (base_ok base) then None else
  let s1 := skip_spaces s in
  let '(neg, s2) := sign_of s1 in
  if ((base =? 0) || (base =? 16)) && has_hex_prefix s2 then convert neg 16 (skipn 2 s2)
  else if base =? 0 then convert neg (if leading_zero s2 then 8%N else 10%N) s2
  else convert neg (Z.to_N base) s2.

(* a few values straight from the C standard's examples and from libyara's tests *)
Example strtoll_0x10_16 : strtoll_full [48;120;49;48]%N 16 = Some 16. Proof. vm_compute. reflexivity. Qed.
Example strtoll_vt12 : strtoll_full [11;49;50]%N 0 = Some 12. Proof. vm_compute. reflexivity. Qed.
Example strtoll_neg_oct : strtoll_full [45;48;49;48]%N 0 = Some (-8). Proof. vm_compute. reflexivity. Qed.
Example strtoll_0x_alone : strtoll_full [48;120]%N 0 = None. Proof. vm_compute. reflexivity. Qed.
Example strtoll_min : strtoll_full [45;57;50;50;51;51;55;50;48;51;54;56;53;52;55;55;53;56;48;56]%N 10
                      = Some i64_min. Proof. vm_compute. reflexivity. Qed.
Example strtoll_over : strtoll_full [57;50;50;51;51;55;50;48;51;54;56;53;52;55;55;53;56;48;56]%N 10 = None.
Proof. vm_compute. reflexivity. Qed.
