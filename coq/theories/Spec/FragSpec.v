(* Spec/FragSpec.v — what a fragmented scan must report and what address-based conditions must see,
   stated on the region layout itself (address -> byte), without cursors. *)
From Boreal Require Import Base.Prelude Base.ListX Base.Bytes Model.Literals Model.AcScan.

(* a match of a per-region scan, reported with that region's base address *)
Definition rebase (b : N) (x : smatch) : smatch :=
  {| sm_base := b; sm_off := sm_off x; sm_len := sm_len x; sm_data := sm_data x; sm_key := sm_key x |}.

(* matches = per-region contiguous scans of the fetched regions, rebased, in region order *)
Definition frag_union (per_region : list (list smatch)) (regions : list fregion) : list smatch :=
  concat (map (fun p => map (rebase (f_start (fst p))) (snd p))
              (combine (filter (fun r => negb (f_fail r)) regions) per_region)).

(* the byte at an absolute address: inside the described extent of some region, that region is
   fetched and the fetched data reaches it *)
Inductive cell := Byte (b : N) | Unfetchable | Unmapped.

Fixpoint cell_at (regions : list fregion) (a : N) : cell :=
  match regions with
  | [] => Unmapped
  | r :: rest =>
      if (f_start r <=? a) && (a <? f_start r + f_described r) then
        if f_fail r then Unfetchable
        else match nnth_opt (a - f_start r) (f_mem r) with Some b => Byte b | None => Unfetchable end
      else cell_at rest a
  end.

(* no match spans two regions: it lies inside the region whose base it carries *)
Definition inside_one_region (regions : list fregion) (x : smatch) : bool :=
  existsb (fun r => negb (f_fail r) && (f_start r =? sm_base x)
                    && (sm_off x + sm_len x <=? nlen (f_mem r))) regions.

(* `$a at X`, `$a in (lo..hi)`, `#a`, `@a[i]` read on the reported list with absolute addresses *)
Definition spec_at (t : list smatch) (x : N) : bool := existsb (fun m => sm_base m + sm_off m =? x) t.
Definition spec_in (t : list smatch) (lo hi : N) : bool :=
  existsb (fun m => (lo <=? sm_base m + sm_off m) && (sm_base m + sm_off m <=? hi)) t.

(* integer read of n bytes at a: defined iff one fetched region covers [a, a+n) and the scan mode
   allows refetching *)
Definition spec_read (can_refetch : bool) (regions : list fregion) (a n : N) : option bytes :=
  if can_refetch then
    match filter (fun r => (f_start r <=? a) && (a <? f_start r + f_described r)) regions with
    | r :: _ =>
        if negb (f_fail r) && (a + n <=? f_start r + nlen (f_mem r))
        then Some (slice (a - f_start r) (a - f_start r + n) (f_mem r)) else None
    | [] => None
    end
  else None.

(* range [s, e): the bytes from s up to the first address that is not a fetched byte (or e).
   Defined iff at least one byte was read and the walk stopped at e, at the truncated end of a
   short fetch, or beyond the last region; a gap before further regions or a failed fetch makes it
   undefined. *)
Fixpoint walk_bytes (fuel : nat) (regions : list fregion) (a e : N) : bytes * N :=
  match fuel with
  | O => ([], a)
  | S fuel' =>
      if e <=? a then ([], a)
      else match cell_at regions a with
           | Byte b => let '(bs, stop) := walk_bytes fuel' regions (a + 1) e in (b :: bs, stop)
           | _ => ([], a)
           end
  end.

Definition region_of (regions : list fregion) (a : N) : option fregion :=
  match filter (fun r => (f_start r <=? a) && (a <? f_start r + f_described r)) regions with
  | r :: _ => Some r | [] => None end.

Definition spec_range (can_refetch : bool) (regions : list fregion) (s e : N) : option bytes :=
  if e <? s then None
  else if negb can_refetch then None
  else
    let '(bs, stop) := walk_bytes (S (N.to_nat (e - s))) regions s e in
    match bs with
    | [] => if (s =? e) then (match cell_at regions s with Byte _ => Some [] | _ => None end) else None
    | _ =>
        if e <=? stop then Some bs
        else match region_of regions stop with
             | Some r => if f_fail r then None else Some bs            (* short fetch: truncated *)
             | None =>
                 (* a later mapping (an empty region exactly at `stop` adds neither bytes nor a gap) *)
                 if existsb (fun r => (stop <? f_start r) || ((stop =? f_start r) && (0 <? f_described r))) regions
                 then None else Some bs
             end
    end.
