(* Spec/Log2Enc.v — an executable rational enclosure of the Shannon entropy of a byte histogram,
     H = - sum_c (c/n) log2 (c/n) = log2 n - (1/n) sum_c c log2 c        (sum_c c = n),
   from the series ln k = e ln 2 + 2 atanh ((k - 2^e)/(k + 2^e)), 2^e <= k < 2^(e+1), ln 2 = 2 atanh (1/3),
   atanh y = sum_j y^(2j+1)/(2j+1) with the tail after J terms bounded by y^(2J+1) / ((2J+1)(1 - y^2)) for 0 <= y < 1.
   Fixed point with 2^-120 resolution, every term rounded down for the lower and up for the upper bound.
   That the real entropy lies in the enclosure is the classical series argument; it is NOT proved in Coq here
   (notes/C16.md) — the enclosure (width < 2^-100) is an executable reference value, cross-checked in
   Proofs against exactly known entropies (uniform histograms: H = log2 k). *)
From Coq Require Import QArith.
From Boreal Require Import Base.Prelude.
Open Scope Z_scope.

Definition fp : Z := 2 ^ 120.
Definition cdiv (a b : Z) : Z := (a + b - 1) / b.      (* ceiling, b > 0, a >= 0 *)

(* sum_{j<J} P*a^(2j+1) / ((2j+1) b^(2j+1)), rounded down / up; pa = a^(2j+1), pb = b^(2j+1) *)
Fixpoint atanh_terms (up : bool) (J : nat) (j : Z) (pa pb a2 b2 : Z) : Z :=
  match J with
  | O => 0
  | S J' =>
      let num := fp * pa in let den := (2 * j + 1) * pb in
      (if up then cdiv num den else num / den) + atanh_terms up J' (j + 1) (pa * a2) (pb * b2) a2 b2
  end.

Definition nterms : nat := 48.

(* enclosure of fp * atanh (a/b) from J terms, 0 <= a < b; the tail bound makes the upper end valid for any J *)
Definition atanh_lo_n (J : nat) (a b : Z) : Z := atanh_terms false J 0 a b (a * a) (b * b).
Definition atanh_hi_n (J : nat) (a b : Z) : Z :=
  let Jz := Z.of_nat J in
  atanh_terms true J 0 a b (a * a) (b * b)
  + cdiv (fp * a ^ (2 * Jz + 1) * (b * b)) ((2 * Jz + 1) * b ^ (2 * Jz + 1) * (b * b - a * a)).
Definition atanh_lo := atanh_lo_n nterms.   (* used with 3a <= b *)
Definition atanh_hi := atanh_hi_n nterms.

Definition ln2_lo : Z := 2 * atanh_lo 1 3.
Definition ln2_hi : Z := 2 * atanh_hi 1 3.

(* enclosure of fp * ln k, k >= 1: one reduction by the power of two *)
Definition ln_small_lo (k : Z) : Z := let e := Z.log2 k in e * ln2_lo + 2 * atanh_lo (k - 2 ^ e) (k + 2 ^ e).
Definition ln_small_hi (k : Z) : Z := let e := Z.log2 k in e * ln2_hi + 2 * atanh_hi (k - 2 ^ e) (k + 2 ^ e).

(* k >= 32: a second reduction by c/16, c = floor (16 k / 2^e) in 16..31:
   ln k = (e - 4) ln 2 + ln c + 2 atanh ((16 k - 2^e c) / (16 k + 2^e c)), argument below 1/33, 14 terms
   (keeps the numbers small for counts in the tens of millions) *)
Definition ln_lo (k : Z) : Z :=
  if k <? 32 then ln_small_lo k
  else let e := Z.log2 k in let c := (16 * k) / 2 ^ e in
       (e - 4) * ln2_lo + ln_small_lo c + 2 * atanh_lo_n 14 (16 * k - 2 ^ e * c) (16 * k + 2 ^ e * c).
Definition ln_hi (k : Z) : Z :=
  if k <? 32 then ln_small_hi k
  else let e := Z.log2 k in let c := (16 * k) / 2 ^ e in
       (e - 4) * ln2_hi + ln_small_hi c + 2 * atanh_hi_n 14 (16 * k - 2 ^ e * c) (16 * k + 2 ^ e * c).

(* enclosure of log2 k as rationals *)
Definition log2_lo (k : Z) : Q := if k <=? 1 then 0%Q else Qmake (ln_lo k) (Z.to_pos ln2_hi).
Definition log2_hi (k : Z) : Q := if k <=? 1 then 0%Q else Qmake (ln_hi k) (Z.to_pos ln2_lo).

(* equal counts are grouped: (count, how many buckets have it) *)
Fixpoint add_count (c : Z) (l : list (Z * Z)) : list (Z * Z) :=
  match l with
  | [] => [(c, 1)]
  | (c', m) :: r => if c =? c' then (c', m + 1) :: r else (c', m) :: add_count c r
  end.

Definition entropy_bounds (hist : list N) (n : N) : Q * Q :=
  if (n =? 0)%N then (0%Q, 0%Q)
  else
    let nz := Z.of_N n in
    let cs := map Z.of_N (filter (fun c => negb (c =? 0)%N) hist) in
    let groups := fold_right add_count [] cs in
    let s_lo := fold_right (fun cm acc => Qred (inject_Z (fst cm * snd cm) * log2_lo (fst cm) + acc)%Q) 0%Q groups in
    let s_hi := fold_right (fun cm acc => Qred (inject_Z (fst cm * snd cm) * log2_hi (fst cm) + acc)%Q) 0%Q groups in
    (Qred (log2_lo nz - s_hi / inject_Z nz)%Q, Qred (log2_hi nz - s_lo / inject_Z nz)%Q).

(* sanity: 4 equally frequent values -> exactly 2 bits; enclosure is tight *)
Example entropy_uniform4 :
  let (lo, hi) := entropy_bounds [5; 5; 0; 5; 5]%N 20 in
  (Qle_bool lo 2 && Qle_bool 2 hi && Qle_bool (hi - lo) (1 # 1000000000000000000000000))%Q = true.
Proof. vm_compute. reflexivity. Qed.
Example ln2_digits :   (* ln 2 = 0.693147180559945309417232121458... *)
  (693147180559945309417232121458 * fp <=? ln2_lo * 1000000000000000000000000000000)
  && (ln2_hi * 1000000000000000000000000000000 <=? 693147180559945309417232121459 * fp) = true.
Proof. vm_compute. reflexivity. Qed.

(* the two reductions agree (k >= 32), and a large uniform histogram: 256 buckets of 2^16 -> exactly 8 bits *)
Example ln_reductions_agree :
  forallb (fun k => (ln_lo k <=? ln_small_hi k) && (ln_small_lo k <=? ln_hi k) && (ln_hi k - ln_lo k <=? 2 ^ 20))
          [32; 33; 47; 48; 63; 64; 1000; 65535; 65536; 1048577] = true.
Proof. vm_compute. reflexivity. Qed.
Example entropy_uniform256_large :
  let (lo, hi) := entropy_bounds (map (fun _ => 65536%N) (seq 0 256)) 16777216 in
  (Qle_bool lo 8 && Qle_bool 8 hi && Qle_bool (hi - lo) (1 # 1000000000000000000000000))%Q = true.
Proof. vm_compute. reflexivity. Qed.
