(* Spec/MathSpec.v — textbook definitions of the `math` module functions over a byte list, in exact arithmetic.
   Real-valued results are given as `fval`: an exact rational, or the integer data from which the irrational value
   is defined (hit ratio for monte_carlo_pi, histogram for entropy).  Nothing here follows boreal's code: sums run
   over the bytes themselves, not over a histogram or a stream. *)
From Coq Require Import QArith Qabs Qreduction Qminmax.
From Boreal Require Import Base.Prelude.
Open Scope N_scope.

Inductive fval :=
| FQ (q : Q)                          (* the value is the rational q (kept reduced) *)
| FMonte (hits total : N)             (* | 4*hits/total - pi | / pi,  total > 0 *)
| FEntropy (hist : list N) (n : N).   (* - sum_{c in hist, c<>0} c/n * log2 (c/n) *)

Definition NQ (n : N) : Q := inject_Z (Z.of_N n).
Definition fq (q : Q) : fval := FQ (Qred q).
Definition qdiv_n (num : Q) (n : N) : Q := (num / NQ n)%Q.

Definition sum_list (l : list N) : N := fold_right N.add 0 l.
Definition sumq (l : list Q) : Q := fold_right Qplus 0%Q l.

Fixpoint upto (k : nat) (from : N) : list N := match k with O => [] | S k' => from :: upto k' (from + 1) end.
Definition all_bytes : list N := upto 256 0.

Definition count_of (b : N) (l : list N) : N := nlen (filter (N.eqb b) l).
Definition histogram (l : list N) : list N := map (fun b => count_of b l) all_bytes.

(* ---- mean, deviation, percentage: undefined on the empty list (0/0) *)
Definition mean_spec (l : list N) : option fval :=
  match l with [] => None | _ => Some (fq (qdiv_n (NQ (sum_list l)) (nlen l))) end.

Definition deviation_spec (l : list N) (mu : Q) : option fval :=
  match l with [] => None | _ => Some (fq (qdiv_n (sumq (map (fun x => Qabs (NQ x - mu)) l)) (nlen l))) end.

Definition percentage_spec (b : N) (l : list N) : option fval :=
  if 256 <=? b then None else
  match l with [] => None | _ => Some (fq (qdiv_n (NQ (count_of b l)) (nlen l))) end.

Definition count_spec (b : N) (l : list N) : option Z :=
  if 256 <=? b then None else Some (Z.of_N (count_of b l)).

(* ---- mode: the smallest byte value whose count is maximal (0 on the empty list) *)
Definition mode_spec (l : list N) : Z :=
  let h := histogram l in
  match find (fun b => forallb (fun c => c <=? nth (N.to_nat b) h 0) h) all_bytes with
  | Some b => Z.of_N b
  | None => 0%Z
  end.

(* ---- serial correlation coefficient (Knuth / ent): cyclic lag-1 products *)
Fixpoint mul_pairs (a b : list N) : N :=
  match a, b with x :: a', y :: b' => x * y + mul_pairs a' b' | _, _ => 0 end.
Definition rot1 (l : list N) : list N := match l with [] => [] | a :: r => r ++ [a] end.

Definition scc_spec (l : list N) : fval :=
  let n := Z.of_N (nlen l) in
  let t1 := Z.of_N (mul_pairs l (rot1 l)) in
  let s := Z.of_N (sum_list l) in
  let t3 := Z.of_N (sum_list (map (fun x => x * x) l)) in
  let den := (n * t3 - s * s)%Z in
  if (den =? 0)%Z then fq (inject_Z (-100000))
  else fq (inject_Z (n * t1 - s * s) / inject_Z den)%Q.

(* ---- Monte-Carlo pi: successive complete groups of six bytes = two 24-bit big-endian coordinates *)
Fixpoint groups6 (l : list N) {struct l} : list (list N) :=
  match l with
  | a :: b :: c :: d :: e :: g :: r => [a; b; c; d; e; g] :: groups6 r
  | _ => []
  end.

Definition coord (a b c : N) : N := a * 65536 + b * 256 + c.
Definition in_circle (g : list N) : bool :=
  match g with
  | [a; b; c; d; e; f] =>
      let x := coord a b c in let y := coord d e f in
      x * x + y * y <=? 16777215 * 16777215
  | _ => false
  end.

Definition monte_spec (l : list N) : option fval :=
  let gs := groups6 l in
  match gs with
  | [] => None
  | _ => Some (FMonte (nlen (filter in_circle gs)) (nlen gs))
  end.

Definition entropy_spec (l : list N) : fval := FEntropy (histogram l) (nlen l).

(* ---- integer helpers *)
Definition two64 : Z := 18446744073709551616.
Definition as_u64 (z : Z) : Z := (z mod two64)%Z.
Definition min_spec (a b : Z) : Z := if (as_u64 a <? as_u64 b)%Z then a else b.   (* libyara compares as uint64 *)
Definition max_spec (a b : Z) : Z := if (as_u64 a >? as_u64 b)%Z then a else b.
Definition abs_spec (z : Z) : option Z := if (z =? -9223372036854775808)%Z then None else Some (Z.abs z).
Definition to_number_spec (b : bool) : Z := if b then 1%Z else 0%Z.

(* digits of a natural number in a base, most significant first, as ASCII bytes *)
Fixpoint digits_rev (fuel : nat) (base n : N) : list N :=
  match fuel with
  | O => []
  | S f => let d := n mod base in
           let c := if d <? 10 then 48 + d else 87 + d in
           if n / base =? 0 then [c] else c :: digits_rev f base (n / base)
  end.
Definition digits (base n : N) : list N := rev (digits_rev 70 base n).

(* printf %lld / %llx / %llo of an int64 (the latter two print the two's complement) *)
Definition to_string_spec (v : Z) (base : option Z) : option (list N) :=
  match base with
  | None | Some 10%Z => Some (if (v <? 0)%Z then 45 :: digits 10 (Z.to_N (- v)) else digits 10 (Z.to_N v))
  | Some 16%Z => Some (digits 16 (Z.to_N (as_u64 v)))
  | Some 8%Z => Some (digits 8 (Z.to_N (as_u64 v)))
  | _ => None
  end.

Definition length_spec (s : list N) : Z := Z.of_N (nlen s).

(* ------------------------------------------------------------------ comparing an f64 with a real value
   The implementation's f64 is given exactly as m * 2^e.  Tolerance: 1e-9 relative + 1e-12 absolute. *)
Definition f64_q (m e : Z) : Q :=
  if (0 <=? e)%Z then inject_Z (m * 2 ^ e) else (inject_Z m / inject_Z (2 ^ (- e)))%Q.

Definition tol_rel : Q := (1 # 1000000000)%Q.
Definition tol_abs : Q := (1 # 1000000000000)%Q.

Definition q_close (f q : Q) : bool := Qle_bool (Qabs (f - q)) (tol_rel * Qabs q + tol_abs)%Q.
Definition q_within (f lo hi : Q) : bool :=
  let t := (tol_rel * Qmax (Qabs lo) (Qabs hi) + tol_abs)%Q in
  Qle_bool (lo - t) f && Qle_bool f (hi + t).

(* pi to 30 decimals, as an enclosure *)
Definition pi_lo : Q := (3141592653589793238462643383279 # 1000000000000000000000000000000)%Q.
Definition pi_hi : Q := (3141592653589793238462643383280 # 1000000000000000000000000000000)%Q.

Definition monte_bounds (hits total : N) : Q * Q :=
  let r := (4 * NQ hits / NQ total)%Q in
  let g p := Qabs ((r - p) / p)%Q in
  let a := g pi_lo in let b := g pi_hi in
  (* r is rational: it is on one side of the enclosure of pi unless it falls inside it *)
  if Qle_bool pi_lo r && Qle_bool r pi_hi then (0%Q, Qmax a b) else (Qmin a b, Qmax a b).
