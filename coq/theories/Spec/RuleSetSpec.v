(* Spec/RuleSetSpec.v — what a rule set means: a rule is reported iff its own condition holds and
   every global rule of its namespace holds; private rules are never reported; reported order is
   global rules in declaration order, then ordinary rules in declaration order. *)
From Boreal Require Import Base.Prelude Base.Res Model.Eval Spec.CondSem Model.EvalCost Model.Scanner.

(* own condition of each global rule (global rules see no rule results), given the per-variable
   matches (variables of global rules first) *)
Fixpoint gowns (inp : inputs) (ms : list (list smatch)) (gs : list rule) : list bool :=
  match gs with
  | [] => []
  | g :: rest =>
      let q := {| q_matches := firstn (r_nvars g) ms; q_prev := []; q_ext := i_ext inp;
                  q_filesize := i_filesize inp; q_mem := i_mem inp |} in
      sem_rule q (r_cond g) :: gowns inp (skipn (r_nvars g) ms) rest
  end.

Definition nvars_of (rs : list rule) : nat := fold_right (fun r n => (r_nvars r + n)%nat) 0%nat rs.

(* every global rule of the namespace holds *)
Definition ns_ok (gs : list rule) (gown : list bool) (ns : nat) : bool :=
  forallb (fun gb => negb (Nat.eqb (r_ns (fst gb)) ns) || snd gb) (combine gs gown).

(* verdict of each ordinary rule: its namespace is not disabled and its own condition holds, where a
   reference to an earlier ordinary rule sees that rule's verdict *)
Fixpoint rverdicts (inp : inputs) (ok : nat -> bool) (ms : list (list smatch)) (prev : list bool) (rs : list rule)
  : list bool :=
  match rs with
  | [] => []
  | r :: rest =>
      let q := {| q_matches := firstn (r_nvars r) ms; q_prev := prev; q_ext := i_ext inp;
                  q_filesize := i_filesize inp; q_mem := i_mem inp |} in
      let b := ok (r_ns r) && sem_rule q (r_cond r) in
      b :: rverdicts inp ok (skipn (r_nvars r) ms) (prev ++ [b]) rest
  end.

Definition spec_verdicts (sc : scanner) (inp : inputs) : list (rule * bool) :=
  let gown := gowns inp (i_matches inp) (s_globals sc) in
  let ok := ns_ok (s_globals sc) gown in
  combine (s_globals sc) (map (fun gb => snd gb && ok (r_ns (fst gb))) (combine (s_globals sc) gown))
  ++ combine (s_rules sc)
             (rverdicts inp ok (skipn (nvars_of (s_globals sc)) (i_matches inp)) [] (s_rules sc)).

Definition spec_reported (sc : scanner) (inp : inputs) (nm : bool) : list erule :=
  map (fun rb => {| er_id := r_id (fst rb); er_ns := r_ns (fst rb); er_matched := snd rb |})
      (filter (fun rb => negb (r_private (fst rb)) && (snd rb || nm)) (spec_verdicts sc inp)).

Definition spec_events (c : cfg) (sc : scanner) (inp : inputs) : list event :=
  flat_map (fun r => if er_matched r then (if c_ev_match c then [EvMatch (er_id r)] else [])
                     else (if c_ev_nomatch c then [EvNoMatch (er_id r)] else []))
           (spec_reported sc inp (c_nm c)).

(* does an expression look at the results of ordinary rules *)
Fixpoint refs_rules (e : expr) {struct e} : bool :=
  match e with
  | ERule _ => true
  | EForRules _ se _ elems => negb (is_nil elems) || refs_rules se
  | EReadInt _ a | EUn _ a | EDefined a | EOffset _ a | ELength _ a | EVarAt _ a => refs_rules a
  | ECountIn _ a b | EVarIn _ a b | EBin _ a b => refs_rules a || refs_rules b
  | EAnd l | EOr l => existsb refs_rules l
  | EFor _ se _ body => refs_rules se || refs_rules body
  | EForRange _ se f t body => refs_rules se || refs_rules f || refs_rules t || refs_rules body
  | EForList _ se elems body => refs_rules se || existsb refs_rules elems || refs_rules body
  | _ => false
  end.

(* known-finding class C05-global-refs-ordinary: a global rule refers to an ordinary rule *)
Definition kf_global_refs_ordinary (sc : scanner) : bool :=
  existsb (fun g => refs_rules (r_cond g)) (s_globals sc).
