(* Spec/Digest.v — reference implementations of the digests of the `hash` module, written from the standards
   (RFC 1321, FIPS 180-4, ISO 3309 CRC-32), over byte lists.  Executable; used by the correspondence to compute the
   expected value of hash.md5/sha1/sha256/crc32/checksum32 and by the theorems of Properties/C16.v.
   Test vectors are checked at the end (Examples closed by vm_compute). *)
From Boreal Require Import Base.Prelude.

Definition mask32 : N := 4294967295.
Definition add32 (a b : N) : N := (a + b) mod 4294967296.
Definition not32 (a : N) : N := N.lxor (N.land a mask32) mask32.
Definition rotl32 (x k : N) : N := N.lor (N.land (N.shiftl x k) mask32) (N.shiftr x (32 - k)).
Definition rotr32 (x k : N) : N := rotl32 x (32 - k).

(* ------------------------------------------------------------------ checksum32 / CRC-32 *)
Definition sum_bytes (l : list N) : N := fold_right N.add 0 l.
Definition checksum32_ref (l : list N) : N := sum_bytes l mod 4294967296.

Definition crc_poly : N := 3988292384. (* 0xEDB88320, reflected polynomial *)
Definition crc_step (c : N) : N := if N.odd c then N.lxor (N.shiftr c 1) crc_poly else N.shiftr c 1.
Fixpoint crc_iter (k : nat) (c : N) : N := match k with O => c | S k' => crc_iter k' (crc_step c) end.
Definition crc_byte_ref (c b : N) : N := crc_iter 8 (N.lxor c b).
Definition crc32_ref (l : list N) : N := N.lxor (fold_left crc_byte_ref l mask32) mask32.

(* ------------------------------------------------------------------ padding, words *)
Fixpoint zeros (k : nat) : list N := match k with O => [] | S k' => 0 :: zeros k' end.

Fixpoint be_bytes (k : nat) (v : N) : list N :=   (* k bytes, most significant first *)
  match k with O => [] | S k' => (N.shiftr v (8 * N.of_nat k')) mod 256 :: be_bytes k' v end.
Definition le_bytes (k : nat) (v : N) : list N := rev (be_bytes k v).

Definition pad_zero_count (len : N) : nat := N.to_nat ((119 - len mod 64) mod 64).
Definition md_pad (big_endian : bool) (msg : list N) : list N :=
  let len := nlen msg in
  let bits := (len * 8) mod 18446744073709551616 in
  msg ++ [128] ++ zeros (pad_zero_count len) ++ (if big_endian then be_bytes 8 bits else le_bytes 8 bits).

Definition be_word (a b c d : N) : N := a * 16777216 + b * 65536 + c * 256 + d.

Fixpoint words (big_endian : bool) (fuel : nat) (l : list N) : list N :=
  match fuel with
  | O => []
  | S f => match l with
           | a :: b :: c :: d :: r =>
               (if big_endian then be_word a b c d else be_word d c b a) :: words big_endian f r
           | _ => []
           end
  end.

Fixpoint blocks (fuel : nat) (ws : list N) : list (list N) :=   (* 16-word blocks *)
  match fuel with
  | O => []
  | S f => match ws with [] => [] | _ => firstn 16 ws :: blocks f (skipn 16 ws) end
  end.

Definition md_blocks (big_endian : bool) (msg : list N) : list (list N) :=
  let p := md_pad big_endian msg in
  let ws := words big_endian (length p) p in
  blocks (length ws) ws.

Fixpoint extend (k : nat) (f : list N -> N) (rev_w : list N) : list N :=
  match k with O => rev_w | S k' => extend k' f (f rev_w :: rev_w) end.

Definition w_at (rev_w : list N) (back : nat) : N := nth (back - 1) rev_w 0.   (* w[i - back] *)

Definition hexdigit (v : N) : N := if v <? 10 then 48 + v else 87 + v.
Definition hex_encode (l : list N) : list N := flat_map (fun b => [hexdigit (b / 16); hexdigit (b mod 16)]) l.

(* ------------------------------------------------------------------ SHA-256 (FIPS 180-4 §6.2) *)
Definition sha256_k : list N :=
 [1116352408;1899447441;3049323471;3921009573;961987163;1508970993;2453635748;2870763221;
  3624381080;310598401;607225278;1426881987;1925078388;2162078206;2614888103;3248222580;
  3835390401;4022224774;264347078;604807628;770255983;1249150122;1555081692;1996064986;
  2554220882;2821834349;2952996808;3210313671;3336571891;3584528711;113926993;338241895;
  666307205;773529912;1294757372;1396182291;1695183700;1986661051;2177026350;2456956037;
  2730485921;2820302411;3259730800;3345764771;3516065817;3600352804;4094571909;275423344;
  430227734;506948616;659060556;883997877;958139571;1322822218;1537002063;1747873779;
  1955562222;2024104815;2227730452;2361852424;2428436474;2756734187;3204031479;3329325298].
Definition sha256_h0 : list N :=
 [1779033703;3144134277;1013904242;2773480762;1359893119;2600822924;528734635;1541459225].

Definition sha256_sched (blk : list N) : list N :=
  let s0 x := N.lxor (N.lxor (rotr32 x 7) (rotr32 x 18)) (N.shiftr x 3) in
  let s1 x := N.lxor (N.lxor (rotr32 x 17) (rotr32 x 19)) (N.shiftr x 10) in
  rev (extend 48 (fun w => add32 (add32 (s1 (w_at w 2)) (w_at w 7)) (add32 (s0 (w_at w 15)) (w_at w 16))) (rev blk)).

Definition sha256_round (st : list N) (kw : N * N) : list N :=
  match st with
  | [a;b;c;d;e;f;g;h] =>
      let S1 := N.lxor (N.lxor (rotr32 e 6) (rotr32 e 11)) (rotr32 e 25) in
      let ch := N.lxor (N.land e f) (N.land (not32 e) g) in
      let t1 := add32 (add32 (add32 h S1) (add32 ch (fst kw))) (snd kw) in
      let S0 := N.lxor (N.lxor (rotr32 a 2) (rotr32 a 13)) (rotr32 a 22) in
      let maj := N.lxor (N.lxor (N.land a b) (N.land a c)) (N.land b c) in
      let t2 := add32 S0 maj in
      [add32 t1 t2; a; b; c; add32 d t1; e; f; g]
  | _ => st
  end.

Fixpoint map2 {A B C} (f : A -> B -> C) (a : list A) (b : list B) : list C :=
  match a, b with x :: a', y :: b' => f x y :: map2 f a' b' | _, _ => [] end.

Definition sha256_block (h : list N) (blk : list N) : list N :=
  map2 add32 h (fold_left sha256_round (combine sha256_k (sha256_sched blk)) h).

Definition sha256_ref (msg : list N) : list N :=
  flat_map (be_bytes 4) (fold_left sha256_block (md_blocks true msg) sha256_h0).

(* ------------------------------------------------------------------ SHA-1 (FIPS 180-4 §6.1) *)
Definition sha1_h0 : list N := [1732584193;4023233417;2562383102;271733878;3285377520].

Definition sha1_sched (blk : list N) : list N :=
  rev (extend 64 (fun w => rotl32 (N.lxor (N.lxor (w_at w 3) (w_at w 8)) (N.lxor (w_at w 14) (w_at w 16))) 1) (rev blk)).

Definition sha1_round (st : list N) (iw : N * N) : list N :=
  match st with
  | [a;b;c;d;e] =>
      let i := fst iw in
      let fk :=
        if i <? 20 then (N.lor (N.land b c) (N.land (not32 b) d), 1518500249)
        else if i <? 40 then (N.lxor (N.lxor b c) d, 1859775393)
        else if i <? 60 then (N.lor (N.lor (N.land b c) (N.land b d)) (N.land c d), 2400959708)
        else (N.lxor (N.lxor b c) d, 3395469782) in
      let t := add32 (add32 (add32 (rotl32 a 5) (fst fk)) (add32 e (snd fk))) (snd iw) in
      [t; a; rotl32 b 30; c; d]
  | _ => st
  end.

Fixpoint nseq (k : nat) (from : N) : list N := match k with O => [] | S k' => from :: nseq k' (from + 1) end.

Definition sha1_block (h : list N) (blk : list N) : list N :=
  map2 add32 h (fold_left sha1_round (combine (nseq 80 0) (sha1_sched blk)) h).

Definition sha1_ref (msg : list N) : list N :=
  flat_map (be_bytes 4) (fold_left sha1_block (md_blocks true msg) sha1_h0).

(* ------------------------------------------------------------------ MD5 (RFC 1321) *)
Definition md5_s : list N :=
 [7;12;17;22;7;12;17;22;7;12;17;22;7;12;17;22; 5;9;14;20;5;9;14;20;5;9;14;20;5;9;14;20;
  4;11;16;23;4;11;16;23;4;11;16;23;4;11;16;23; 6;10;15;21;6;10;15;21;6;10;15;21;6;10;15;21].
Definition md5_k : list N :=   (* floor(2^32 * |sin(i+1)|) *)
 [3614090360;3905402710;606105819;3250441966;4118548399;1200080426;2821735955;4249261313;
  1770035416;2336552879;4294925233;2304563134;1804603682;4254626195;2792965006;1236535329;
  4129170786;3225465664;643717713;3921069994;3593408605;38016083;3634488961;3889429448;
  568446438;3275163606;4107603335;1163531501;2850285829;4243563512;1735328473;2368359562;
  4294588738;2272392833;1839030562;4259657740;2763975236;1272893353;4139469664;3200236656;
  681279174;3936430074;3572445317;76029189;3654602809;3873151461;530742520;3299628645;
  4096336452;1126891415;2878612391;4237533241;1700485571;2399980690;4293915773;2240044497;
  1873313359;4264355552;2734768916;1309151649;4149444226;3174756917;718787259;3951481745].
Definition md5_h0 : list N := [1732584193;4023233417;2562383102;271733878].

Definition md5_round (blk : list N) (st : list N) (isk : N * (N * N)) : list N :=
  match st with
  | [a;b;c;d] =>
      let i := fst isk in
      let fg :=
        if i <? 16 then (N.lor (N.land b c) (N.land (not32 b) d), i)
        else if i <? 32 then (N.lor (N.land d b) (N.land (not32 d) c), (5 * i + 1) mod 16)
        else if i <? 48 then (N.lxor (N.lxor b c) d, (3 * i + 5) mod 16)
        else (N.lxor c (N.lor b (not32 d)), (7 * i) mod 16) in
      let f := add32 (add32 (fst fg) a) (add32 (snd (snd isk)) (nth (N.to_nat (snd fg)) blk 0)) in
      [d; add32 b (rotl32 f (fst (snd isk))); b; c]
  | _ => st
  end.

Definition md5_block (h : list N) (blk : list N) : list N :=
  map2 add32 h (fold_left (md5_round blk) (combine (nseq 64 0) (combine md5_s md5_k)) h).

Definition md5_ref (msg : list N) : list N :=
  flat_map (le_bytes 4) (fold_left md5_block (md_blocks false msg) md5_h0).

(* ------------------------------------------------------------------ test vectors *)
Definition ascii_abc : list N := [97;98;99].
Definition of_hex_ascii (l : list N) : list N := l.

Example crc32_check : crc32_ref [49;50;51;52;53;54;55;56;57] = 3421780262. (* "123456789" -> 0xCBF43926 *)
Proof. vm_compute. reflexivity. Qed.

Example md5_empty : hex_encode (md5_ref []) =
  [100;52;49;100;56;99;100;57;56;102;48;48;98;50;48;52;101;57;56;48;48;57;57;56;101;99;102;56;52;50;55;101].
Proof. vm_compute. reflexivity. Qed.   (* d41d8cd98f00b204e9800998ecf8427e *)

Example md5_abc : md5_ref ascii_abc =
  [144;1;80;152;60;210;79;176;214;150;63;125;40;225;127;114].   (* 900150983cd24fb0d6963f7d28e17f72 *)
Proof. vm_compute. reflexivity. Qed.

Example sha1_abc : sha1_ref ascii_abc =
  [169;153;62;54;71;6;129;106;186;62;37;113;120;80;194;108;156;208;216;157].  (* a9993e36...d89d *)
Proof. vm_compute. reflexivity. Qed.

Example sha256_abc : sha256_ref ascii_abc =
  [186;120;22;191;143;1;207;234;65;65;64;222;93;174;34;35;176;3;97;163;150;23;122;156;180;16;255;97;242;0;21;173].
Proof. vm_compute. reflexivity. Qed.   (* ba7816bf 8f01cfea 414140de 5dae2223 b00361a3 96177a9c b410ff61 f20015ad *)
