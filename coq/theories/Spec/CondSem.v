(* Spec/CondSem.v — declarative three-valued semantics of YARA conditions.
   `None` is YARA's undefined.  Written independently of the evaluator's control flow:
   connectives and quantifiers are defined by *counting over the whole operand list*, string
   queries by membership in the match set.  The arithmetic / comparison / string operator
   tables on defined values (`eval_bin`, `eval_un`, `read_int`) are shared with the model:
   they are the definition of the operators, not part of what is being checked. *)
From Boreal Require Import Base.Prelude Base.Res Model.Eval.

Definition of_res {A} (r : res A) : option A := match r with Ok a => Some a | _ => None end.
Definition to_res {A} (o : option A) : res A := match o with Some a => Ok a | None => Undef end.

(* undefined counts as false *)
Definition holds (o : option value) : bool := match o with Some v => truthy v | None => false end.

Definition count_true (l : list bool) : N := nlen (filter (fun b => b) l).

Record senv := {
  q_matches : list (list smatch);
  q_prev : list bool;
  q_ext : list value;
  q_filesize : option N;
  q_mem : option (list N)
}.

Definition obind {A B} (o : option A) (f : A -> option B) : option B :=
  match o with Some a => f a | None => None end.
Definition onum (o : option value) : option Z :=
  match o with Some (VInt z) => Some z | _ => None end.

Definition var_index (sel : option nat) (v : option nat) : option nat :=
  match v with Some i => Some i | None => sel end.

Definition var_ms (q : senv) (sel : option nat) (v : option nat) : option (list smatch) :=
  obind (var_index sel v) (fun i => nth_error (q_matches q) i).

(* quota of a selection: how many of the n elements must hold.
   QAtLeast k (k >= 1) | QAll | QNone | QTrue (a non-positive count: vacuously true)
   | QFalse (undefined count) *)
Inductive quota := QAtLeast (k : N) | QAll | QNone | QTrue | QFalse.

Definition quota_of (k : selk) (sv : option value) (n : N) : quota :=
  match k with
  | KAny => QAtLeast 1
  | KAll => QAll
  | KNone => QNone
  | KExpr pct =>
      match onum sv with
      | None => QFalse
      | Some v =>
          if pct then
            let q := pct_quota v n in if (q <=? 0)%Z then QTrue else QAtLeast (Z.to_N q)
          else if (v =? 0)%Z then QNone
          else if (v <? 0)%Z then QTrue
          else QAtLeast (Z.to_N v)
      end
  end.

Definition quant (qt : quota) (bs : list bool) : bool :=
  match qt with
  | QAtLeast k => k <=? count_true bs
  | QAll => count_true bs =? nlen bs
  | QNone => count_true bs =? 0
  | QTrue => true
  | QFalse => false
  end.

(* a list iteration with an undefined element: only what the elements before it decide counts *)
Fixpoint defined_prefix {A} (l : list (option A)) : list A * bool (* all defined *) :=
  match l with
  | [] => ([], true)
  | Some a :: r => let '(p, d) := defined_prefix r in (a :: p, d)
  | None :: _ => ([], false)
  end.

Fixpoint sem (q : senv) (sel : option nat) (stack : list value) (e : expr) {struct e} : option value :=
  match e with
  | EInt z => Some (VInt z)
  | EDouble f => Some (VFloat f)
  | EBytes b => Some (VBytes b)
  | EBool b => Some (VBool b)
  | EFilesize => option_map (fun n => VInt (Z.min (Z.of_N n) i64_max)) (q_filesize q)
  | EReadInt ty addr => obind (onum (sem q sel stack addr)) (fun a => of_res (read_int (q_mem q) ty a))
  | ECount v => option_map (fun l => VInt (Z.of_N (nlen l))) (var_ms q sel v)
  | ECountIn v from to =>
      obind (onum (sem q sel stack from)) (fun f =>
      obind (onum (sem q sel stack to)) (fun t =>
      option_map (fun l =>
        VInt (Z.of_N (nlen (filter (fun m => (f <=? Z.of_N (mabs m))%Z && (Z.of_N (mabs m) <=? t)%Z) l))))
        (var_ms q sel v)))
  | EOffset v occ =>
      obind (onum (sem q sel stack occ)) (fun n =>
      if (n <=? 0)%Z then None else
      obind (var_ms q sel v) (fun l =>
      obind (nth_z l (n - 1)) (fun m =>
      if (Z.of_N (m_off m + m_base m) <=? i64_max)%Z then Some (VInt (Z.of_N (m_off m + m_base m))) else None)))
  | ELength v occ =>
      obind (onum (sem q sel stack occ)) (fun n =>
      if (n <=? 0)%Z then None else
      obind (var_ms q sel v) (fun l =>
      obind (nth_z l (n - 1)) (fun m =>
      if (Z.of_N (m_len m) <=? i64_max)%Z then Some (VInt (Z.of_N (m_len m))) else None)))
  | EVar v => option_map (fun l => VBool (negb (is_nil l))) (var_ms q sel v)
  | EVarAt v off =>
      obind (onum (sem q sel stack off)) (fun o =>
      if (o <? 0)%Z then Some (VBool false) else
      option_map (fun l => VBool (existsb (fun m => (Z.of_N (mabs m) =? o)%Z) l)) (var_ms q sel v))
  | EVarIn v from to =>
      obind (onum (sem q sel stack from)) (fun f =>
      obind (onum (sem q sel stack to)) (fun t =>
      if (t <? 0)%Z || (t <? f)%Z then Some (VBool false) else
      option_map (fun l => VBool (existsb (fun m => (f <=? Z.of_N (mabs m))%Z && (Z.of_N (mabs m) <=? t)%Z) l))
                 (var_ms q sel v)))
  | EUn o a => obind (sem q sel stack a) (fun x => of_res (eval_un o x))
  | EBin o l r =>
      obind (sem q sel stack l) (fun x =>
      obind (sem q sel stack r) (fun y => of_res (eval_bin o x y)))
  | EAnd l => Some (VBool (forallb holds (map (sem q sel stack) l)))
  | EOr l => Some (VBool (existsb holds (map (sem q sel stack) l)))
  | EDefined a => Some (VBool (match sem q sel stack a with Some _ => true | None => false end))
  | EFor k se set body =>
      Some (VBool (quant (quota_of k (sem q sel stack se) (nlen set))
                         (map (fun idx => holds (sem q (Some idx) stack body)) set)))
  | EForRange k se from to body =>
      let qt := quota_of k (sem q sel stack se) 0 in
      match qt with
      | QTrue => Some (VBool true)
      | QFalse => Some (VBool false)
      | _ =>
          match onum (sem q sel stack from), onum (sem q sel stack to) with
          | Some f, Some t =>
              if (t <? f)%Z then Some (VBool false)
              else Some (VBool (quant qt (map (fun z => holds (sem q sel (stack ++ [VInt z]) body)) (zrange f t))))
          | _, _ => Some (VBool false)
          end
      end
  | EForList k se elems body =>
      let qt := quota_of k (sem q sel stack se) 0 in
      match qt with
      | QTrue => Some (VBool true)
      | QFalse => Some (VBool false)
      | _ =>
          let items := map (fun el => match sem q sel stack el with
                                      | Some (VBool _) => None
                                      | Some v => Some (holds (sem q sel (stack ++ [v]) body))
                                      | None => None
                                      end) elems in
          let '(bs, alldef) := defined_prefix items in
          if alldef then Some (VBool (quant qt bs))
          else Some (VBool (match qt with QAtLeast k => k <=? count_true bs | _ => false end))
      end
  | EForRules k se already elems =>
      let n := nlen elems + N.of_nat already in
      Some (VBool (quant (quota_of k (sem q sel stack se) n)
                         (repeat true already ++ map (fun i => nth i (q_prev q) false) elems)))
  | ERule i => option_map VBool (nth_error (q_prev q) i)
  | EExt i => nth_error (q_ext q) i
  | EBound i => nth_error stack i
  end.

(* a rule matches iff its condition is defined and true *)
Definition sem_rule (q : senv) (cond : expr) : bool := holds (sem q None [] cond).

(* typing of iterated list elements: the compiler only accepts integer or bytes elements *)
Definition nonbool_val (v : value) : bool := match v with VBool _ => false | _ => true end.
Definition nonbool (ext : list value) (e : expr) : bool :=
  match e with
  | EInt _ | EBytes _ | EFilesize | EReadInt _ _ | ECount _ | ECountIn _ _ _ | EOffset _ _ | ELength _ _ => true
  | EUn UNeg _ | EUn UBnot _ => true
  | EBin o _ _ =>
      match o with
      | OAdd | OSub | OMul | ODiv | OMod | OXor | OBand | OBor | OShl | OShr => true
      | _ => false
      end
  | EExt i => match nth_error ext i with Some v => nonbool_val v | None => true end
  | EBound _ => true   (* bound identifiers hold integers or bytes *)
  | _ => false
  end.

(* well-formedness: every index the compiler emits is in range, iterated lists are typed *)
Fixpoint wf_expr (ext : list value) (nvars nprev : nat) (e : expr) {struct e} : bool :=
  let wv (v : option nat) := match v with Some i => Nat.ltb i nvars | None => true end in
  let wf := wf_expr ext nvars nprev in
  match e with
  | EInt _ | EBytes _ | EBool _ | EDouble _ | EFilesize | EExt _ | EBound _ => true
  | EReadInt _ a | EUn _ a | EDefined a => wf a
  | ECount v | EVar v => wv v
  | ECountIn v a b | EVarIn v a b => wv v && wf a && wf b
  | EOffset v a | ELength v a | EVarAt v a => wv v && wf a
  | EBin _ l r => wf l && wf r
  | EAnd l | EOr l => forallb wf l
  | EFor _ se set body => wf se && forallb (fun i => Nat.ltb i nvars) set && wf body
  | EForRange _ se f t body => wf se && wf f && wf t && wf body
  | EForList _ se elems body => wf se && forallb wf elems && forallb (nonbool ext) elems && wf body
  | EForRules _ se _ elems => wf se && forallb (fun i => Nat.ltb i nprev) elems
  | ERule i => Nat.ltb i nprev
  end.
