(* Spec/ProcessSpec.v — what a chunked walk over a mapping must look like. *)
From Boreal Require Import Base.Prelude.

(* `tiles_end pos l = Some e`: the chunks of l are non-empty, start at pos, each starts
   where the previous one ends (contiguous, hence disjoint), and the last ends at e. *)
Fixpoint tiles_end (pos : N) (l : list (N * N)) : option N :=
  match l with
  | [] => Some pos
  | (s, n) :: rest => if (s =? pos) && (0 <? n) then tiles_end (pos + n) rest else None
  end.

Definition Tiles (start len : N) (l : list (N * N)) : Prop :=
  tiles_end start l = Some (start + len).

(* pagemap entry, top 4 bits: 8 = present, 4 = swapped, 2 = file-page / shared-anon, 1 = exclusive *)
Definition spec_page_from_mem (bits4 : N) : bool :=
  let present := N.testbit bits4 3 in
  let swapped := N.testbit bits4 2 in
  let filepage := N.testbit bits4 1 in
  (present || swapped) && negb filepage.
