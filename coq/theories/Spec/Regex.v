(* Spec/Regex.v — reference semantics of boreal's regex HIR (boreal/src/regex/hir.rs).

   `ends fl mem h i` is the list of end offsets of the matches of `h` that start at offset `i` of the
   haystack `mem`, in the order a backtracking matcher explores them (alternation order, greedy =
   longest first, lazy = shortest first), without repetition.  Look-around assertions look at the whole
   haystack, never at a window of it.  This is the contract of the regex-automata searches boreal
   uses (DESIGN §3): an anchored leftmost-first forward search returns the first element (within the
   searched span); an anchored reverse `MatchKind::All` search returns the smallest start; an
   unanchored `find` returns the leftmost start with its first end; `is_match` is existence.

   Written independently of how boreal decomposes a pattern: nothing here knows about atoms,
   literals or validators. *)
From Boreal Require Import Base.Prelude.

(* ------------------------------------------------------------------ datatype (mirrors hir.rs) *)
Inductive akind := StartLine | EndLine | WordBoundary | NonWordBoundary.
Inductive pkind := PWord | PSpace | PDigit.
Inductive citem := CPerl (k : pkind) (neg : bool) | CLit (b : N) | CRange (a b : N).
Inductive cls := ClsPerl (k : pkind) (neg : bool) | ClsBracket (items : list citem) (neg : bool).
Inductive rkind := ZeroOrOne | ZeroOrMore | OneOrMore | Exactly (n : N) | AtLeast (n : N) | Bounded (n m : N).

Inductive hir :=
| HAlt (l : list hir)
| HAssert (k : akind)
| HClass (c : cls)
| HMask (value mask : N) (negated : bool)
| HConcat (l : list hir)
| HDot
| HEmpty
| HLit (b : N)
| HGroup (h : hir)
| HRep (h : hir) (k : rkind) (greedy : bool).

(* `wide`: the pattern is matched against UCS-2-like text: every byte consumed must be followed by a
   NUL byte (and both are consumed); word boundaries look at the neighbouring wide characters. *)
Record rflags := { nocase : bool; dot_all : bool; wide : bool }.

(* ------------------------------------------------------------------ bytes *)
Definition in_range (lo hi b : N) : bool := (lo <=? b) && (b <=? hi).
Definition is_digit (b : N) := in_range 48 57 b.
Definition is_upper (b : N) := in_range 65 90 b.
Definition is_lower (b : N) := in_range 97 122 b.
Definition is_alnum (b : N) := is_digit b || is_upper b || is_lower b.
Definition is_word (b : N) := is_alnum b || (b =? 95).
Definition is_space (b : N) := in_range 9 13 b || (b =? 32).
Definition swapcase (b : N) : N := if is_upper b then b + 32 else if is_lower b then b - 32 else b.
Definition eq_nocase (nc : bool) (a b : N) : bool := (a =? b) || (nc && (swapcase a =? b)).

Definition perl_mem (k : pkind) (b : N) : bool :=
  match k with PWord => is_word b | PSpace => is_space b | PDigit => is_digit b end.

Definition item_mem (it : citem) (b : N) : bool :=
  match it with
  | CPerl k neg => xorb neg (perl_mem k b)
  | CLit x => x =? b
  | CRange lo hi => in_range lo hi b
  end.

(* A bracketed class is the union of its items, closed under ASCII case when `nc`, then negated. *)
Definition cls_mem (nc : bool) (c : cls) (b : N) : bool :=
  match c with
  | ClsPerl k neg => xorb neg (perl_mem k b)
  | ClsBracket items neg =>
      xorb neg (existsb (fun it => item_mem it b || (nc && item_mem it (swapcase b))) items)
  end.

Definition mask_mem (value mask : N) (negated : bool) (b : N) : bool :=
  xorb negated (N.land b mask =? value).

Definition byte_at (mem : list N) (i : N) : option N := nth_error mem (N.to_nat i).

Definition is_nul_at (mem : list N) (i : N) : bool :=
  match byte_at mem i with Some b => b =? 0 | None => false end.

Definition word_at (w : bool) (mem : list N) (i : N) : bool :=
  match byte_at mem i with
  | Some b => is_word b && (negb w || is_nul_at mem (i + 1))
  | None => false
  end.
Definition word_before (w : bool) (mem : list N) (i : N) : bool :=
  if w then (if i <? 2 then false else is_nul_at mem (i - 1) && word_at false mem (i - 2))
  else (if i =? 0 then false else word_at false mem (i - 1)).

Definition assert_ok (w : bool) (k : akind) (mem : list N) (i : N) : bool :=
  match k with
  | StartLine => i =? 0
  | EndLine => i =? nlen mem
  | WordBoundary => xorb (word_before w mem i) (word_at w mem i)
  | NonWordBoundary => negb (xorb (word_before w mem i) (word_at w mem i))
  end.

(* ------------------------------------------------------------------ ordered sets of offsets *)
Fixpoint dedup (l : list N) : list N :=
  match l with
  | [] => []
  | x :: r => x :: filter (fun y => negb (y =? x)) (dedup r)
  end.

Definition bind (l : list N) (f : N -> list N) : list N := dedup (flat_map f l).

Definition step1 (w : bool) (p : N -> bool) (mem : list N) (i : N) : list N :=
  match byte_at mem i with
  | Some b =>
      if p b then (if w then (if is_nul_at mem (i + 1) then [i + 2] else []) else [i + 1]) else []
  | None => []
  end.

(* ------------------------------------------------------------------ repetitions *)
(* The ordered results of a repetition are computed with tables indexed by position, so that the cost
   stays polynomial when the body can end at several offsets (the naive recursion explores every path).
   `f p` = ordered ends of one iteration started at p; every end is >= p. *)
Fixpoint nrange (lo : N) (n : nat) : list N :=
  match n with O => [] | S n' => lo :: nrange (lo + 1) n' end.
Definition iota (lo n : N) : list N := nrange lo (N.to_nat n).

Definition lookup (tbl : list (N * list N)) (p : N) : list N :=
  match find (fun e => fst e =? p) tbl with Some e => snd e | None => [] end.

Definition with_self (greedy : bool) (p : N) (more : list N) : list N :=
  if greedy then dedup (more ++ [p]) else dedup (p :: more).

(* e{n}: n copies, level by level *)
Fixpoint rep_exact (f : N -> list N) (n : nat) (s : list N) : list N :=
  match n with
  | O => s
  | S n' => rep_exact f n' (bind s f)
  end.

(* (e(e(..)?)?)? with k levels: level j at position p = one more iteration then level j-1, or stop *)
Fixpoint rep_opt (f : N -> list N) (greedy : bool) (k : nat) (ps : list N) : N -> list N :=
  match k with
  | O => fun p => [p]
  | S k' =>
      let prev := rep_opt f greedy k' ps in
      let tbl := map (fun p => (p, with_self greedy p (bind (f p) prev))) ps in
      lookup tbl
  end.

(* e*: positions are processed from the last one down; an iteration that consumes nothing is not
   taken again (it could only repeat results) *)
Fixpoint star_tbl (f : N -> list N) (greedy : bool) (ps_desc : list N) (tbl : list (N * list N))
  : list (N * list N) :=
  match ps_desc with
  | [] => tbl
  | p :: r =>
      let more := bind (filter (fun j => negb (j =? p)) (f p)) (lookup tbl) in
      star_tbl f greedy r ((p, with_self greedy p more) :: tbl)
  end.

Definition rep_bounds (k : rkind) : nat * option nat :=
  match k with
  | ZeroOrOne => (0%nat, Some 1%nat)
  | ZeroOrMore => (0%nat, None)
  | OneOrMore => (1%nat, None)
  | Exactly n => (N.to_nat n, Some (N.to_nat n))
  | AtLeast n => (N.to_nat n, None)
  | Bounded n m => (N.to_nat n, Some (N.to_nat m))
  end.

(* one iteration evaluated at the positions reachable from the seeds only (ascending sweep: an
   iteration never moves backwards); the table comes out in descending order of position *)
Fixpoint sweep (f : N -> list N) (ps : list N) (reach : list N) (tbl : list (N * list N))
  : list (N * list N) :=
  match ps with
  | [] => tbl
  | p :: r =>
      if existsb (N.eqb p) reach then
        let e := f p in sweep f r (e ++ reach) ((p, e) :: tbl)
      else sweep f r reach tbl
  end.

(* n = length of the haystack *)
Definition rep_ends (f : N -> list N) (k : rkind) (greedy : bool) (n : N) (i : N) : list N :=
  match k with
  | ZeroOrOne => with_self greedy i (f i)
  | _ =>
      let (lo, hi) := rep_bounds k in
      let tblF := sweep f (iota i (n + 1 - i)) [i] [] in
      let F := lookup tblF in
      let psd := map fst tblF in
      let heads := rep_exact F lo [i] in
      let tail := match hi with
                  | None => lookup (star_tbl F greedy psd [])
                  | Some hi => rep_opt F greedy (hi - lo) psd
                  end in
      bind heads tail
  end.

(* ------------------------------------------------------------------ the matcher *)
Fixpoint ends (fl : rflags) (mem : list N) (h : hir) {struct h} : N -> list N :=
  match h with
  | HAlt l =>
      fun i => dedup ((fix alts (l : list hir) : list N :=
                         match l with [] => [] | h' :: r => ends fl mem h' i ++ alts r end) l)
  | HAssert k => fun i => if assert_ok (wide fl) k mem i then [i] else []
  | HClass c => step1 (wide fl) (cls_mem (nocase fl) c) mem
  | HMask v m neg => step1 (wide fl) (mask_mem v m neg) mem
  | HConcat l =>
      (fix cat (l : list hir) : N -> list N :=
         match l with [] => fun i => [i] | h' :: r => fun i => bind (ends fl mem h' i) (cat r) end) l
  | HDot => step1 (wide fl) (fun b => dot_all fl || negb (b =? 10)) mem
  | HEmpty => fun i => [i]
  | HLit b => step1 (wide fl) (eq_nocase (nocase fl) b) mem
  | HGroup h' => ends fl mem h'
  | HRep h' k greedy =>
      (* a repetition never ends before its start nor after the end of the haystack; stated here
         once rather than derived from the tables *)
      fun i => filter (fun j => (i <=? j) && (j <=? nlen mem)) (rep_ends (ends fl mem h') k greedy (nlen mem) i)
  end.

(* ------------------------------------------------------------------ derived notions *)
Definition nonempty {A} (l : list A) : bool := match l with [] => false | _ => true end.
Definition mem_N (x : N) (l : list N) : bool := existsb (N.eqb x) l.

(* lengths of the members of L(h) that start at o *)
Definition Lens (fl : rflags) (mem : list N) (h : hir) (o : N) : list N :=
  map (fun j => j - o) (ends fl mem h o).

(* anchored leftmost-first forward search over the span [i, lim) *)
Definition lf_end (fl : rflags) (mem : list N) (h : hir) (i lim : N) : option N :=
  hd_error (filter (fun j => j <=? lim) (ends fl mem h i)).

(* anchored reverse search (MatchKind::All) over the span [lo, e): smallest start *)
Definition rev_min_start (fl : rflags) (mem : list N) (h : hir) (lo e : N) : option N :=
  find (fun s => mem_N e (ends fl mem h s)) (iota lo (e + 1 - lo)).

(* unanchored leftmost-first search over [from, |mem|) *)
Definition find_from (fl : rflags) (mem : list N) (h : hir) (from : N) : option (N * N) :=
  match find (fun s => nonempty (ends fl mem h s)) (iota from (nlen mem + 1 - from)) with
  | Some s => match ends fl mem h s with e :: _ => Some (s, e) | [] => None end
  | None => None
  end.

Definition is_match (fl : rflags) (mem : list N) (h : hir) : bool :=
  existsb (fun i => nonempty (ends fl mem h i)) (iota 0 (nlen mem + 1)).

Definition list_min (l : list N) : option N :=
  match l with [] => None | x :: r => Some (fold_left N.min r x) end.
Definition list_max (l : list N) : option N :=
  match l with [] => None | x :: r => Some (fold_left N.max r x) end.

(* the three recognised choices of length at one offset: shortest, leftmost-first, longest *)
Definition len_choice_ok (lens : list N) (l : N) : bool :=
  opt_eqb N.eqb (Some l) (list_min lens) || opt_eqb N.eqb (Some l) (hd_error lens)
  || opt_eqb N.eqb (Some l) (list_max lens).
