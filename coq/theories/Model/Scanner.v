(* Model/Scanner.v — boreal/src/scanner/mod.rs: `Inner::{scan, scan_with_callback, do_scan,
   evaluate_without_matches, fixup_global_rules_results}`, `EvalContext::{eval_global_rule,
   eval_non_global_rule, eval_rule_inner}`, `can_use_no_scan_optimization`,
   `ScanData::handle_already_matched_rules_and_callback`, with interruption points (callback
   abort at the k-th event, timeout at the j-th check).  Definitions only.

   String matches are an input (one list per variable, variables of global rules first, in
   rule order): how they are found is the business of C01–C03/C11. *)
From Boreal Require Import Base.Prelude Base.Res Model.Eval Model.EvalCost.

Record rule := {
  r_ns : nat;            (* namespace index *)
  r_id : N;              (* identity used in reports (stands for namespace:name) *)
  r_global : bool;
  r_private : bool;
  r_nvars : nat;
  r_cond : expr
}.

Record scanner := {
  s_globals : list rule;     (* in declaration order *)
  s_rules : list rule;       (* ordinary rules, in declaration order *)
  s_nns : nat                (* number of namespaces *)
}.

Record cfg := {
  c_full : bool;        (* compute_full_matches *)
  c_nm : bool;          (* include_not_matched_rules *)
  c_cb : bool;          (* callback API *)
  c_ev_match : bool;    (* CallbackEvents::RULE_MATCH *)
  c_ev_nomatch : bool;  (* CallbackEvents::RULE_NO_MATCH *)
  c_ev_import : bool;   (* CallbackEvents::MODULE_IMPORT *)
  c_ev_limit : bool;    (* CallbackEvents::STRING_REACHED_MATCH_LIMIT *)
  c_direct : bool;      (* contiguous memory (mem / file / mmap) *)
  c_frag_noscan : bool  (* fragmented: !modules_dynamic_values && !can_refetch_regions *)
}.

Inductive intr := Never | AbortAt (k : N) | TimeoutAt (j : N).

Inductive err := ETimeout | EAbort | EPanic.

Record erule := { er_id : N; er_ns : nat; er_matched : bool }.
Inductive event :=
| EvMatch (id : N) | EvNoMatch (id : N)
| EvImport (module : N)          (* ModuleImport *)
| EvLimit (string : N).          (* StringReachedMatchLimit *)

(* scan state: scan_data.rules, events delivered, check counter *)
Record sstate := {
  pend : list erule;
  evs : list event;       (* reversed *)
  nchecks : N
}.

Record inputs := {
  i_matches : list (list smatch);   (* per variable, after the string scan *)
  i_ext : list value;
  i_filesize : option N;
  i_mem : option (list N);
  i_ac : list (list N);             (* one entry per Aho-Corasick hit, in scan order (= one timeout check): the
                                       strings that reach the match limit while this hit is handled *)
  i_imports : list N                (* imported modules, in the order of `evaluated_modules` *)
}.
Definition i_ac_checks (inp : inputs) : N := nlen (i_ac inp).

Definition can_noscan (c : cfg) : bool :=
  negb (c_full c) && negb (c_nm c) && (c_direct c || c_frag_noscan c).

(* ---- monadic plumbing: outcome of a step is a state and either a value or an error ---- *)
Definition M (A : Type) := sstate -> sstate * (A + err).
Definition ret {A} (a : A) : M A := fun s => (s, inl a).
Definition fail {A} (e : err) : M A := fun s => (s, inr e).
Definition bindM {A B} (m : M A) (f : A -> M B) : M B :=
  fun s => let '(s', r) := m s in match r with inl a => f a s' | inr e => (s', inr e) end.
Notation "'do' x '<-' m ';' k" := (bindM m (fun x => k)) (at level 200, x pattern, m at level 100, k at level 200).

(* `n` timeout checks *)
Definition tick (it : intr) (n : N) : M unit :=
  fun s =>
    let c0 := nchecks s in
    let upd (k : N) := {| pend := pend s; evs := evs s; nchecks := k |} in
    if n =? 0 then (s, inl tt)
    else match it with
         | TimeoutAt j =>
             if j <=? c0 then (upd (c0 + 1), inr ETimeout)          (* already past the firing point *)
             else if j <=? c0 + n then (upd j, inr ETimeout)        (* the j-th check fires *)
             else (upd (c0 + n), inl tt)
         | _ => (upd (c0 + n), inl tt)
         end.

(* deliver an event to the callback *)
Definition emit (it : intr) (ev : event) : M unit :=
  fun s =>
    let s' := {| pend := pend s; evs := ev :: evs s; nchecks := nchecks s |} in
    match it with
    | AbortAt k => if nlen (evs s') =? k then (s', inr EAbort) else (s', inl tt)
    | _ => (s', inl tt)
    end.

Definition push (r : erule) : M unit :=
  fun s => ({| pend := pend s ++ [r]; evs := evs s; nchecks := nchecks s |}, inl tt).
Definition clear_pend : M unit :=
  fun s => ({| pend := []; evs := evs s; nchecks := nchecks s |}, inl tt).
Definition set_pend (l : list erule) : M unit :=
  fun s => ({| pend := l; evs := evs s; nchecks := nchecks s |}, inl tt).
Definition get_pend : M (list erule) := fun s => (s, inl (pend s)).

(* report one evaluated rule to the callback according to the event mask *)
Definition report (c : cfg) (it : intr) (r : erule) : M unit :=
  if er_matched r then (if c_ev_match c then emit it (EvMatch (er_id r)) else ret tt)
  else (if c_ev_nomatch c then emit it (EvNoMatch (er_id r)) else ret tt).

(* ScanData::handle_already_matched_rules_and_callback; `drain` empties the vector even on abort *)
Fixpoint flush_list (c : cfg) (it : intr) (l : list erule) : M unit :=
  match l with
  | [] => ret tt
  | r :: rest => do _ <- report c it r; flush_list c it rest
  end.
Definition flush (c : cfg) (it : intr) : M unit :=
  if c_cb c then
    do l <- get_pend; do _ <- clear_pend; flush_list c it l
  else ret tt.

(* ---- evaluation context ---- *)
Record ectx := {
  x_matches : option (list (list smatch));   (* remaining variable matches; None before the string scan *)
  x_prev : list bool;
  x_disabled : list bool
}.

Definition ns_disabled (x : ectx) (ns : nat) : bool := nth ns (x_disabled x) false.
Fixpoint set_nth (l : list bool) (n : nat) (v : bool) : list bool :=
  match l, n with
  | [], _ => []
  | _ :: r, O => v :: r
  | b :: r, S n' => b :: set_nth r n' v
  end.

Inductive eres := RBool (b : bool) | RUndecidable.

(* EvalContext::eval_rule_inner *)
Definition eval_rule_inner (c : cfg) (it : intr) (inp : inputs) (x : ectx) (r : rule) (call_cb : bool)
  : M (ectx * eres) :=
  let vm := match x_matches x with Some M => Some (firstn (r_nvars r) M) | None => None end in
  let x' := {| x_matches := match x_matches x with Some M => Some (skipn (r_nvars r) M) | None => None end;
               x_prev := x_prev x; x_disabled := x_disabled x |} in
  if ns_disabled x (r_ns r) then
    (* not evaluated *)
    let matched := false in
    if r_private r then ret (x', RBool matched)
    else if c_nm c then
      let er := {| er_id := r_id r; er_ns := r_ns r; er_matched := matched |} in
      do _ <- (if c_cb c && call_cb then report c it er else push er);
      ret (x', RBool matched)
    else ret (x', RBool matched)
  else
    let en := {| e_matches := vm; e_prev := x_prev x; e_ext := i_ext inp;
                 e_filesize := i_filesize inp; e_mem := i_mem inp |} in
    do _ <- tick it (cost_rule en (r_cond r));
    match eval_rule en (r_cond r) with
    | Panic => fail EPanic
    | Undef => fail EPanic (* eval_rule never returns Undef *)
    | Needed => ret (x', RUndecidable)
    | Ok matched =>
        if r_private r then ret (x', RBool matched)
        else if matched || c_nm c then
          let er := {| er_id := r_id r; er_ns := r_ns r; er_matched := matched |} in
          do _ <- (if c_cb c && call_cb then report c it er else push er);
          ret (x', RBool matched)
        else ret (x', RBool matched)
    end.

(* globals: namespace disabled on false; Undecidable reported to the caller *)
Fixpoint eval_globals (c : cfg) (it : intr) (inp : inputs) (x : ectx) (gs : list rule) (unknown : bool)
  : M (ectx * bool) :=
  match gs with
  | [] => ret (x, unknown)
  | g :: rest =>
      do xr <- eval_rule_inner c it inp x g false;
      let '(x', r) := xr in
      match r with
      | RBool true => eval_globals c it inp x' rest unknown
      | RBool false =>
          eval_globals c it inp
            {| x_matches := x_matches x'; x_prev := x_prev x';
               x_disabled := set_nth (x_disabled x') (r_ns g) true |} rest unknown
      | RUndecidable => eval_globals c it inp x' rest true
      end
  end.

(* ordinary rules; stops at the first Undecidable *)
Fixpoint eval_rules (c : cfg) (it : intr) (inp : inputs) (x : ectx) (rs : list rule) (call_cb : bool)
  : M bool (* true = all decided *) :=
  match rs with
  | [] => ret true
  | r :: rest =>
      do xr <- eval_rule_inner c it inp x r call_cb;
      let '(x', res) := xr in
      match res with
      | RBool b =>
          eval_rules c it inp {| x_matches := x_matches x'; x_prev := x_prev x' ++ [b];
                                 x_disabled := x_disabled x' |} rest call_cb
      | RUndecidable => ret false
      end
  end.

(* Inner::fixup_global_rules_results *)
Definition fixup (c : cfg) (x : ectx) : M unit :=
  do l <- get_pend;
  if c_nm c then
    set_pend (map (fun r => if ns_disabled x (er_ns r)
                            then {| er_id := er_id r; er_ns := er_ns r; er_matched := false |} else r) l)
  else set_pend (filter (fun r => negb (ns_disabled x (er_ns r))) l).

Definition all_disabled (x : ectx) : bool := forallb (fun b => b) (x_disabled x).

Definition ctx0 (sc : scanner) (m : option (list (list smatch))) : ectx :=
  {| x_matches := m; x_prev := []; x_disabled := repeat false (s_nns sc) |}.

(* on an error inside `m`, run `h` (which sees the state at the error) and then fail with the error
   `h` decides; used for the Timeout handling of the no-scan pass *)
Definition on_timeout {A} (m : M A) (h : M A) : M A :=
  fun s => let '(s', r) := m s in
           match r with
           | inr ETimeout => h s'
           | _ => (s', r)
           end.

Inductive nsres := NSDone | NSUndecidable.

(* Inner::evaluate_without_matches *)
Definition eval_without_matches (c : cfg) (it : intr) (inp : inputs) (sc : scanner) : M nsres :=
  do xu <- eval_globals c it inp (ctx0 sc None) (s_globals sc) false;
  let '(x, unknown) := xu in
  if all_disabled x then do _ <- clear_pend; ret NSDone
  else if unknown then ret NSUndecidable
  else
    do _ <- fixup c x;
    do ok <- eval_rules c it inp x (s_rules sc) false;
    ret (if ok then NSDone else NSUndecidable).

(* ScanData::send_module_import_events_to_cb *)
Fixpoint emit_all (it : intr) (evs_ : list event) : M unit :=
  match evs_ with
  | [] => ret tt
  | e :: rest => do _ <- emit it e; emit_all it rest
  end.
Definition send_imports (c : cfg) (it : intr) (inp : inputs) : M unit :=
  if c_cb c && c_ev_import c then emit_all it (map EvImport (i_imports inp)) else ret tt.

(* AcScan::scan_region over all regions: one timeout check per Aho-Corasick hit, then the
   StringReachedMatchLimit events of that hit *)
Fixpoint ac_phase (c : cfg) (it : intr) (hits : list (list N)) : M unit :=
  match hits with
  | [] => ret tt
  | lim :: rest =>
      do _ <- tick it 1;
      do _ <- (if c_cb c && c_ev_limit c then emit_all it (map EvLimit lim) else ret tt);
      ac_phase c it rest
  end.

(* Inner::do_memory_scan followed by the evaluation with matches *)
Definition full_scan (c : cfg) (it : intr) (inp : inputs) (sc : scanner) : M unit :=
  do _ <- ac_phase c it (i_ac inp);
  do _ <- (if c_direct c then ret tt else send_imports c it inp);
  do xu <- eval_globals c it inp (ctx0 sc (Some (i_matches inp))) (s_globals sc) false;
  let '(x, _) := xu in
  do _ <- fixup c x;
  if negb (c_nm c) && all_disabled x then clear_pend
  else
    do _ <- flush c it;
    do _ <- eval_rules c it inp x (s_rules sc) true;
    ret tt.

(* Inner::do_scan *)
Definition do_scan (c : cfg) (it : intr) (inp : inputs) (sc : scanner) : M unit :=
  do _ <- (if c_direct c then send_imports c it inp else ret tt);
  if can_noscan c then
    do r <- on_timeout (eval_without_matches c it inp sc)
                       (do _ <- flush c it; fail ETimeout);
    match r with
    | NSDone => flush c it
    | NSUndecidable => do _ <- clear_pend; full_scan c it inp sc
    end
  else full_scan c it inp sc.

Record outcome := {
  o_err : option err;
  o_rules : list erule;      (* list API: rules returned (also with an error) *)
  o_events : list event;     (* callback API: events in delivery order *)
  o_checks : N
}.

Definition run_scan (c : cfg) (it : intr) (inp : inputs) (sc : scanner) : outcome :=
  let '(s, r) := do_scan c it inp sc {| pend := []; evs := []; nchecks := 0 |} in
  {| o_err := match r with inl _ => None | inr e => Some e end;
     o_rules := if c_cb c then [] else pend s;
     o_events := rev (evs s);
     o_checks := nchecks s |}.

(* ---- equality for the correspondence ---- *)
Definition err_eqb (a b : err) : bool :=
  match a, b with ETimeout, ETimeout | EAbort, EAbort | EPanic, EPanic => true | _, _ => false end.
Definition erule_eqb (a b : erule) : bool :=
  (er_id a =? er_id b) && Bool.eqb (er_matched a) (er_matched b).
Definition event_eqb (a b : event) : bool :=
  match a, b with
  | EvMatch x, EvMatch y | EvNoMatch x, EvNoMatch y | EvImport x, EvImport y | EvLimit x, EvLimit y => x =? y
  | _, _ => false
  end.
