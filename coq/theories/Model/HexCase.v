(* Model/HexCase.v — correspondence terms for C02 (hex strings) and C03 (regex strings).
   One case = one string declaration, the description of its compiled form read through the hook,
   and several inputs with the implementation's match lists (offset, length).
   corr_ok : the HIR the implementation built is the model's lowering of the AST, and every match
             list equals the model's;
   spec_ok : every match list satisfies the property's four clauses against Spec/Regex.v;
   kf      : 1 when every input that fails the spec is in the class of known finding 9.5. *)
From Boreal Require Import Base.Prelude Base.Consts Spec.Regex Model.Hir Model.Widen Model.Validator Model.SimpleValidator Model.Raw Model.HirScan.

Definition matches_eqb : list (N * N) -> list (N * N) -> bool := list_eqb (pair_eqb N.eqb N.eqb).

(* ScanParams::default().string_max_nb_matches, re-extracted from /repo on every run *)
Definition default_max_nb : N := Consts.DEFAULT_STRING_MAX_NB_MATCHES.

(* the property, for one input: starts = offsets with a member; every (offset, length) is a member;
   the length is one of the three recognised choices.  (Strictly ascending, one per offset: implied
   by the first clause.) *)
Definition spec_members (fl : rflags) (h : hir) (mem : list N) (out : list (N * N)) : bool :=
  list_eqb N.eqb (map fst out) (filter (fun o => nonempty (ends fl mem h o)) (iota 0 (nlen mem)))
  && forallb (fun ol => mem_N (fst ol + snd ol) (ends fl mem h (fst ol))) out.
Definition spec_choice (fl : rflags) (h : hir) (mem : list N) (out : list (N * N)) : bool :=
  forallb (fun ol => len_choice_ok (Lens fl mem h (fst ol)) (snd ol)) out.
Definition spec_matches (fl : rflags) (h : hir) (mem : list N) (out : list (N * N)) : bool :=
  spec_members fl h mem out && spec_choice fl h mem out.

(* known finding "length by arrival": the match kept at an offset is the one produced by the first literal
   hit that reaches this offset in the Aho-Corasick pass (atom end, then atom length, then literal order);
   when three or more member lengths exist there it can be a middle one: neither the shortest, nor the
   leftmost-first, nor the longest.  Class: a string scanned through the AC pass and an offset of the
   input with >= 3 member lengths (with fewer the clause cannot fail); it only excuses the length-choice
   clause (the first two clauses must hold), and the runner only applies it when the implementation's
   list equals the model's, i.e. when the length is the one arrival order predicts. *)
Definition distinct_lengths (lits : list (list N)) : N := nlen (dedup (map (fun l : list N => nlen l) lits)).
Definition kf_len_arrival (d : sdesc) (lens_at : N -> list N) (mem : list N) : bool :=
  match s_kind d with
  | KRaw => false
  | _ => existsb (fun o => 3 <=? nlen (dedup (lens_at o))) (iota 0 (nlen mem))
  end.

(* rs: per input (corr, spec, known-finding class of the input, 0 = none).  The case is in a known
   class only if every input that fails the spec is; the class reported is the largest one met. *)
Definition combine (rs : list (bool * bool * N)) (pre_corr pre_spec : bool) : bool * bool * N :=
  let corr := pre_corr && forallb (fun r : bool * bool * N => fst (fst r)) rs in
  let spec := pre_spec && forallb (fun r : bool * bool * N => snd (fst r)) rs in
  let excused := pre_spec && forallb (fun r : bool * bool * N => snd (fst r) || negb (snd r =? 0)) rs in
  (corr, spec,
   if negb spec && excused
   then fold_left N.max (map (fun r : bool * bool * N => if snd (fst r) then 0 else snd r) rs) 0 else 0).

(* ------------------------------------------------------------------ C03: regex strings *)
(* member lengths at offset o that respect `fullword`, for the plain and for the wide reading *)
Definition members_at (md : mods) (h : hir) (mem : list N) (o : N) : list N * list N :=
  (if m_ascii md
   then filter (fun l => validate_fullword md mem o (o + l) MAscii) (Lens (flags_of md) mem h o) else [],
   if m_wide md
   then filter (fun l => validate_fullword md mem o (o + l) MWideStandard) (Lens (wide_flags_of md) mem h o) else []).

(* known finding "alternation glue": when the literals come from an alternation whose branches have
   different lengths and a reverse validator exists, the reverse and the forward validator of one
   literal hit may each follow a different branch; the assembled (start, end) is then not a member.
   Class: such a decomposition, and the scan (without the start_position mechanism) of this input
   assembles a pair that is not a member. *)
Definition lits_unequal (d : sdesc) : bool :=
  match s_lits d with
  | [] => false
  | l :: r => existsb (fun l' => negb (length l' =? length l)%nat) r
  end.

Definition is_member (md : mods) (h : hir) (mem : list N) (o l : N) : bool :=
  let (a, w) := members_at md h mem o in mem_N l a || mem_N l w.

(* an empty literal is legitimate only when the pattern itself has an empty alternation branch *)
Fixpoint emptyish (h : hir) : bool :=
  match h with
  | HEmpty => true
  | HGroup h' => emptyish h'
  | HConcat l => (fix go (l : list hir) : bool := match l with [] => true | x :: r => emptyish x && go r end) l
  | _ => false
  end.
Fixpoint has_empty_alt (h : hir) : bool :=
  match h with
  | HAlt l => (fix go (l : list hir) : bool := match l with [] => false | x :: r => emptyish x || has_empty_alt x || go r end) l
  | HConcat l => (fix go (l : list hir) : bool := match l with [] => false | x :: r => has_empty_alt x || go r end) l
  | HGroup h' | HRep h' _ _ => has_empty_alt h'
  | _ => false
  end.

Definition kf_alt_glue (d : sdesc) (h : hir) (mem : list N) : bool :=
  match s_kind d, s_pre d with
  | KNonGreedy, Some _ | KGreedy, Some _ =>
      lits_unequal d
      && (forallb (fun l : list N => nonempty l) (s_lits d) || has_empty_alt h)
      && existsb (fun ol => negb (is_member (s_mods d) h mem (fst ol) (snd ol)))
                 (ac_scan false d mem default_max_nb)
  | _, _ => false
  end.

Definition spec_regex_members (md : mods) (h : hir) (mem : list N) (out : list (N * N)) : bool :=
  list_eqb N.eqb (map fst out)
           (filter (fun o => let (a, w) := members_at md h mem o in nonempty a || nonempty w) (iota 0 (nlen mem)))
  && forallb (fun ol => let (a, w) := members_at md h mem (fst ol) in mem_N (snd ol) a || mem_N (snd ol) w) out.
Definition spec_regex (md : mods) (h : hir) (mem : list N) (out : list (N * N)) : bool :=
  spec_regex_members md h mem out
  && forallb (fun ol => let (a, w) := members_at md h mem (fst ol) in
                        (mem_N (snd ol) a && len_choice_ok a (snd ol))
                        || (mem_N (snd ol) w && len_choice_ok w (snd ol))) out.

(* known finding "fullword, single length": under `fullword` the engine validates one length per
   start (the leftmost-first one) and drops the start when that length is not delimited, although
   another member length at the same start is.  Class: `fullword` and some offset of the input has
   both a delimited and an undelimited candidate (member length, read as plain or as wide text). *)
Definition kf_fullword_other_length (md : mods) (h : hir) (mem : list N) : bool :=
  m_fullword md &&
  existsb (fun o =>
    let cands :=
      (if m_ascii md then map (fun l => check_fullword mem o (o + l) MAscii) (Lens (flags_of md) mem h o) else [])
      ++ (if m_wide md then map (fun l => check_fullword mem o (o + l) MWideStandard) (Lens (wide_flags_of md) mem h o) else []) in
    existsb (fun ok => ok) cands && existsb negb cands)
  (iota 0 (nlen mem)).

(* known finding "wide boundary, reverse context": the custom wide runner walks backwards from the end
   of the literal down to its lower bound and then takes the end-of-input transition, also when a wide
   character precedes the bound (which is the case for every start after the first one of the reverse
   enumeration): a `\b`/`\B` at the start of the regex is then judged as if the text started there
   (the unit test `test_find_wide_anchored_rev` pins this for a span starting at 2).  Class: wide string
   whose reverse validator has a word boundary, and the scan finds other offsets when the runner is
   given the preceding wide character. *)
Definition custom_wide_rev_ctx (fl : rflags) (h : hir) (mem : list N) (lo e : N) : option N :=
  let '(i0, u) := wide_run_rev (S (length mem)) mem lo e [] in
  let prev := if (2 <=? i0) && is_nul_at mem (i0 - 1)
              then match byte_at mem (i0 - 2) with Some b => [b] | None => [] end else [] in
  (* the wide character that follows the end of the walk (the runner's start state ignores it too:
     `get_unwidened_end` builds an input whose span covers it) *)
  let next := if is_nul_at mem (e + 1) then match byte_at mem e with Some b => [b] | None => [] end else [] in
  let base := nlen prev in
  match rev_min_start fl (prev ++ u ++ next) h base (base + nlen u) with
  | Some s => Some (i0 + 2 * (s - base))
  | None => None
  end.

Definition dfa_rev_ctx (md : mods) (h : hir) (mt : mtype) (mem : list N) (lo e : N) : option N :=
  if (lo <=? e) && use_custom md h mt then custom_wide_rev_ctx (flags_of md) h mem lo e
  else dfa_rev md h mt mem lo e.

Definition process_ctx (d : sdesc) (mem : list N) (ms me sp : N) (mt : mtype) : list (N * N) :=
  let md := s_mods d in
  match s_kind d, s_pre d with
  | KNonGreedy, Some pre =>
      filter (fun se => validate_fullword md mem (fst se) (snd se) mt)
        (validate_nongreedy (nlen mem)
           (option_map (fun h => half_fwd md h mt mem) (s_post d))
           (Some (dfa_rev_ctx md pre mt mem)) ms me sp)
  | KGreedy, Some pre =>
      filter (fun se => validate_fullword md mem (fst se) (snd se) mt)
        (validate_greedy (nlen mem) (dfa_rev_ctx md pre mt mem) (dfa_fwd md (s_hir d) mt mem) ms me sp)
  | _, _ => process_ac_match d mem ms me sp mt
  end.

Definition ac_scan_ctx (use_sp : bool) (d : sdesc) (mem : list N) (max_nb : N) : list (N * N) :=
  fold_left (fun acc (h : N * N * N * mtype) =>
               let '(_, ms, me, mt) := h in
               let sp := if use_sp then match last_offset acc with Some o => o + 1 | None => 0 end else 0 in
               let acc' := fold_left (fun a se => insert_match a (fst se, snd se - fst se))
                                     (process_ctx d mem ms me sp mt) acc in
               if max_nb <? nlen acc' then firstn (N.to_nat max_nb) acc' else acc')
            (hits d mem) [].

(* with or without the start_position mechanism (the two open findings can combine: a start the context-aware
   runner would find can in addition be hidden by start_position) *)
Definition kf_wide_rev_context (d : sdesc) (mem : list N) : bool :=
  match s_pre d with
  | Some pre =>
      m_wide (s_mods d) && has_word_boundary pre
      && (negb (list_eqb N.eqb (map fst (ac_scan_ctx true d mem default_max_nb))
                         (map fst (ac_scan true d mem default_max_nb)))
          || negb (list_eqb N.eqb (map fst (ac_scan_ctx false d mem default_max_nb))
                            (map fst (ac_scan false d mem default_max_nb))))
  | None => false
  end.

Definition one_input_re (d : sdesc) (h : hir) (mem : list N) (out : list (N * N)) : bool * bool * N :=
  (matches_eqb out (model_scan d mem default_max_nb),
   spec_regex (s_mods d) h mem out,
   if spec_regex_members (s_mods d) h mem out then
     (if kf_len_arrival d (fun o => let (a, w) := members_at (s_mods d) h mem o in a ++ w) mem then 5 else 0)
   else if kf_wide_rev_context d mem then 4
   else if kf_alt_glue d h mem then 3
   else if kf_fullword_other_length (s_mods d) h mem then 2
   else if kf_start_position d mem default_max_nb then 1 else 0).

Fixpoint zip_inputs_re (d : sdesc) (h : hir) (ins : list (list N)) (outs : list (list (N * N)))
  : list (bool * bool * N) :=
  match ins, outs with
  | m :: ir, o :: or => one_input_re d h m o :: zip_inputs_re d h ir or
  | _, _ => []
  end.

(* the `matches` operator: Regex::is_match on the subject, flags /i /s only *)
Definition model_is_match (ci da : bool) (h : hir) (subject : list N) : bool :=
  is_match {| nocase := ci; dot_all := da; wide := false |} subject h.

(* n: the regex AST; ci/da: the /i /s flags; d: compiled string description; subjects with verdicts *)
Definition C03_case (n : node) (ci da : bool) (d : sdesc) (ins : list (list N)) (outs : list (list (N * N)))
           (subjects : list (list N * bool)) : bool * bool * N :=
  let h := node_to_hir n in
  let ok_subjects := forallb (fun sv => Bool.eqb (snd sv) (model_is_match ci da h (fst sv))) subjects in
  combine (zip_inputs_re d h ins outs)
          (hir_eqb (s_hir d) h && (length ins =? length outs)%nat && ok_subjects
           && Bool.eqb (m_dot_all (s_mods d)) da && (negb ci || m_nocase (s_mods d)))
          ok_subjects.

(* the half validators the implementation built (read from the hook's kind text: 0 none, 1 Simple, 2 Dfa)
   against the model's prediction (`HalfValidator::new`: Simple when `SimpleValidator::new` accepts) *)
Definition half_code (md : mods) (o : option hir) (reverse : bool) : N :=
  match o with
  | None => 0
  | Some h => match simple_new md h reverse with Some _ => 1 | None => 2 end
  end.
(* ... and the choice Greedy / NonGreedy of `Validator::new`: Greedy exactly when the reverse part has a
   greedy repetition (`left_analysis.has_greedy_repetitions`) *)
Definition pre_greedy (d : sdesc) : bool :=
  match s_pre d with Some p => has_greedy p | None => false end.
Definition kinds_ok (d : sdesc) (rev_code fwd_code : N) : bool :=
  match s_kind d with
  | KNonGreedy => negb (pre_greedy d)
                  && (half_code (s_mods d) (s_pre d) true =? rev_code) && (half_code (s_mods d) (s_post d) false =? fwd_code)
  | KGreedy => pre_greedy d
  | _ => true
  end.
(* the bitmap the implementation attached to each class of its HIR (read through the hook as the list of
   member bytes) against `class_bitmap` (class_to_bitmap / perl_class_to_bitmap): the bitmap feeds literal
   extraction only, the validators get the class text *)
Definition classes_ok (l : list (cls * list N)) : bool :=
  forallb (fun cm => list_eqb N.eqb (filter (class_bitmap (fst cm)) (iota 0 256)) (snd cm)) l.

Definition with_kinds (b : bool) (t : bool * bool * N) : bool * bool * N :=
  let '(c, sp, k) := t in (c && b, sp, k).

(* ------------------------------------------------------------------ C02: hex strings *)
Definition one_input (d : sdesc) (h : hir) (mem : list N) (out : list (N * N)) : bool * bool * N :=
  (matches_eqb out (model_scan d mem default_max_nb),
   spec_matches (flags_of (s_mods d)) h mem out,
   if spec_members (flags_of (s_mods d)) h mem out then
     (if kf_len_arrival d (Lens (flags_of (s_mods d)) mem h) mem then 5 else 0)
   else if kf_alt_glue d h mem then 3
   else if kf_start_position d mem default_max_nb then 1 else 0).

Fixpoint zip_inputs (d : sdesc) (h : hir) (ins : list (list N)) (outs : list (list (N * N)))
  : list (bool * bool * N) :=
  match ins, outs with
  | m :: ir, o :: or => one_input d h m o :: zip_inputs d h ir or
  | _, _ => []
  end.

Definition C02_case (toks : list token) (d : sdesc) (ins : list (list N)) (outs : list (list (N * N)))
  : bool * bool * N :=
  let h := hir_of_tokens toks in
  combine (zip_inputs d h ins outs)
          (hir_eqb (s_hir d) h && (length ins =? length outs)%nat)
          (wf_hex toks).
