(* Model/HexCase.v — correspondence terms for C02 (hex strings) and C03 (regex strings).
   One case = one string declaration, the description of its compiled form read through the hook,
   and several inputs with the implementation's match lists (offset, length).
   corr_ok : the HIR the implementation built is the model's lowering of the AST, and every match
             list equals the model's;
   spec_ok : every match list satisfies the property's four clauses against Spec/Regex.v;
   kf      : 1 when every input that fails the spec is in the class of known finding 9.5. *)
From Boreal Require Import Base.Prelude Spec.Regex Model.Hir Model.Widen Model.Validator Model.Raw Model.HirScan.

Definition matches_eqb : list (N * N) -> list (N * N) -> bool := list_eqb (pair_eqb N.eqb N.eqb).

Definition default_max_nb : N := 1000.   (* ScanParams::default().string_max_nb_matches *)

(* the property, for one input: starts = offsets with a member; every (offset, length) is a member;
   the length is one of the three recognised choices.  (Strictly ascending, one per offset: implied
   by the first clause.) *)
Definition spec_matches (fl : rflags) (h : hir) (mem : list N) (out : list (N * N)) : bool :=
  list_eqb N.eqb (map fst out) (filter (fun o => nonempty (ends fl mem h o)) (iota 0 (nlen mem)))
  && forallb (fun ol => mem_N (fst ol + snd ol) (ends fl mem h (fst ol))) out
  && forallb (fun ol => len_choice_ok (Lens fl mem h (fst ol)) (snd ol)) out.

(* per input: (corr, spec, kf) *)
Definition one_input (d : sdesc) (h : hir) (mem : list N) (out : list (N * N)) : bool * bool * bool :=
  (matches_eqb out (model_scan d mem default_max_nb),
   spec_matches (flags_of (s_mods d)) h mem out,
   kf_start_position d mem default_max_nb).

Definition combine (rs : list (bool * bool * bool)) (pre_corr pre_spec : bool) : bool * bool * N :=
  let corr := pre_corr && forallb (fun r => fst (fst r)) rs in
  let spec := pre_spec && forallb (fun r => snd (fst r)) rs in
  let excused := pre_spec && forallb (fun r => snd (fst r) || snd r) rs in
  (corr, spec, if negb spec && excused then 1 else 0).

Fixpoint zip_inputs (d : sdesc) (h : hir) (ins : list (list N)) (outs : list (list (N * N)))
  : list (bool * bool * bool) :=
  match ins, outs with
  | m :: ir, o :: or => one_input d h m o :: zip_inputs d h ir or
  | _, _ => []
  end.

(* C02: hex token AST *)
Definition C02_case (toks : list token) (d : sdesc) (ins : list (list N)) (outs : list (list (N * N)))
  : bool * bool * N :=
  let h := hir_of_tokens toks in
  combine (zip_inputs d h ins outs)
          (hir_eqb (s_hir d) h && (length ins =? length outs)%nat)
          (wf_hex toks).
