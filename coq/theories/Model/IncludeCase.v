(* Model/IncludeCase.v — the correspondence term for C20 (evaluated by vm_compute on generated cases). *)
From Coq Require Import String.
From Boreal Require Import Base.Prelude Spec.IncludeSpec Model.Include.
Open Scope string_scope.
Open Scope list_scope.

(* what one compilation session shows from outside *)
Record outcome := {
  o_results : list (option (err cerr));                      (* one per add_rules_* call *)
  o_rules : list (string * string * bool * bool);            (* Scanner::rules() *)
  o_matched : list (string * string);                        (* rules reported by one scan *)
  o_log : list (string * option string * string)             (* include callback invocations, in order *)
}.

Definition cerr_eqb (a b : cerr) : bool :=
  match a, b with
  | CUnknownImport, CUnknownImport | CDupRule, CDupRule | CUnknownIdent, CUnknownIdent
  | CBadRule, CBadRule | CWildcard, CWildcard => true
  | _, _ => false
  end.
Definition err_eqb (a b : err cerr) : bool :=
  match a, b with
  | EIO, EIO | EInvalidInclude, EInvalidInclude | ETooDeep, ETooDeep | EUnauthorized, EUnauthorized
  | EParse, EParse => true
  | ECompile x, ECompile y => cerr_eqb x y
  | _, _ => false
  end.
Definition res_eqb := opt_eqb err_eqb.
Definition rule4_eqb (a b : string * string * bool * bool) : bool :=
  let '(n1, r1, g1, p1) := a in let '(n2, r2, g2, p2) := b in
  String.eqb n1 n2 && String.eqb r1 r2 && Bool.eqb g1 g2 && Bool.eqb p1 p2.
Definition pair_str_eqb (a b : string * string) : bool :=
  String.eqb (fst a) (fst b) && String.eqb (snd a) (snd b).
Definition log_eqb (a b : string * option string * string) : bool :=
  let '(n1, c1, s1) := a in let '(n2, c2, s2) := b in
  String.eqb n1 n2 && ostr_eqb c1 c2 && String.eqb s1 s2.

Definition outcome_eqb (a b : outcome) : bool :=
  list_eqb res_eqb (o_results a) (o_results b)
  && list_eqb rule4_eqb (o_rules a) (o_rules b)
  && list_eqb pair_str_eqb (o_matched a) (o_matched b)
  && list_eqb log_eqb (o_log a) (o_log b).

Definition model_outcome (en : env plain) (ks : list (call plain)) : outcome :=
  let '(st, rs) := c_run en cstate_empty ks in
  {| o_results := rs; o_rules := listing st; o_matched := scan_matched st; o_log := rev (c_log st) |}.

(* Specification side.  For every call the case carries the outcome of compiling, with the same
   real compiler, the text obtained by textual inlining *up to the first place where inlining is
   undefined* (a directive that cannot be resolved, an unreadable or unparsable target, nesting
   beyond the limit, or any directive when includes are disabled), and the error `k` expected at
   that place (None when inlining is defined everywhere).  The first problem in inlined document
   order decides: if the inlined prefix fails, the session with includes must fail the same way;
   if it compiles, the session with includes must end with `k`.  Rules and scan results of the
   two scanners must be the same. *)
Fixpoint results_ok (impl inl : list (option (err cerr))) (ks : list (option (err cerr))) : bool :=
  match impl, inl, ks with
  | [], [], [] => true
  | r :: impl', i :: inl', k :: ks' =>
      match i with
      | Some e => res_eqb r (Some e)
      | None => res_eqb r k
      end && results_ok impl' inl' ks'
  | _, _, _ => false
  end.

(* The include callback must have been called with (directive text, current path, namespace) exactly as
   the inlining walk predicts, call by call: all of the predicted invocations when the inlined prefix
   compiles, a prefix of them when it fails earlier. *)
Fixpoint prefix_eqb {A} (eqb : A -> A -> bool) (a b : list A) : bool :=
  match a, b with
  | [], _ => true
  | x :: a', y :: b' => eqb x y && prefix_eqb eqb a' b'
  | _, _ => false
  end.
Definition logentry := (string * option string * string)%type.
Fixpoint logs_ok (ilogs elogs : list (list logentry)) (inl : list (option (err cerr))) : bool :=
  match ilogs, elogs, inl with
  | [], [], [] => true
  | l :: ls, e :: es, r :: rs =>
      match r with
      | None => list_eqb log_eqb l e
      | Some _ => prefix_eqb log_eqb l e
      end && logs_ok ls es rs
  | _, _, _ => false
  end.

Definition C20_case (en : env plain) (ks : list (call plain))
           (impl inl : outcome) (expected : list (option (err cerr)))
           (ilogs elogs : list (list logentry)) : bool * bool * N :=
  (outcome_eqb impl (model_outcome en ks),
   results_ok (o_results impl) (o_results inl) expected
   && list_eqb rule4_eqb (o_rules impl) (o_rules inl)
   && list_eqb pair_str_eqb (o_matched impl) (o_matched inl)
   && logs_ok ilogs elogs (o_results inl)
   && list_eqb log_eqb (o_log impl) (concat ilogs),
   0).
