(* Model/AcScan.v — boreal/src/scanner/ac_scan.rs (`AcScan::{new, scan_region, handle_possible_match}`,
   `insert_match`, `scan_single_variable`), `Matcher::{confirm_ac_literal, get_xor_key, process_ac_match
   (Literals arm), validate_fullword}`, `check_fullword` (boreal/src/matcher/mod.rs), `StringMatch::new`
   (boreal/src/evaluator/variable.rs), `Inner::do_memory_scan` (boreal/src/scanner/mod.rs).

   Models the tree *after* the fixes F1 (get_xor_key), F2 (insert_match), F3 (every literal registered)
   and "limit tested before the search" in scan_single_variable; the pinned variants are kept as
   `*_pinned` for the refutation lemmas.

   A matcher is a record whose `mt_process` field is the `process_ac_match` of its kind, so that the
   Atomized path (Model/Validator.v …) plugs into the same `scan_region`.
   Not modelled here: timeout checks, statistics, the STRING_REACHED_MATCH_LIMIT callback event.
   Definitions only. *)
From Boreal Require Import Base.Prelude Base.ListX Base.Bytes Model.Literals Model.Atoms Model.Ac.

(* ------------------------------------------------------------------ records *)

(* StringMatch *)
Record smatch := { sm_base : N; sm_off : N; sm_len : N; sm_data : bytes; sm_key : N }.

Definition smatch_eqb (a b : smatch) : bool :=
  (sm_base a =? sm_base b) && (sm_off a =? sm_off b) && (sm_len a =? sm_len b)
  && bytes_eqb (sm_data a) (sm_data b) && (sm_key a =? sm_key b).

(* memory::Region *)
Record mregion := { rg_start : N; rg_mem : bytes }.

(* the two ScanParams fields the string scan reads *)
Record sparams := { p_match_max_length : N; p_max_nb_matches : N }.

Inductive match_type := MtAscii | MtWideStandard | MtWideAlternate.
Definition mt_is_wide (t : match_type) : bool :=
  match t with MtAscii => false | _ => true end.

(* AcMatchStatus *)
Inductive ac_status :=
| AcNone
| AcSingle (s e : N)
| AcMultiple (l : list (N * N)).

(* Matcher: literals, modifiers, and the kind-specific functions
   mt_process mem start end start_position match_type   = process_ac_match
   mt_find_next mem offset                               = find_next_match_at (raw matchers) *)
Record matcher := {
  mt_literals : list bytes;
  mt_mods : mods;
  mt_process : bytes -> N -> N -> N -> match_type -> ac_status;
  mt_find_next : bytes -> N -> option (N * N) }.

(* ------------------------------------------------------------------ matcher/mod.rs *)

(* check_fullword *)
Definition check_fullword (mem : bytes) (s e : N) (t : match_type) : bool :=
  if mt_is_wide t then
    negb ((1 <? s) && (nnth 0 (s - 1) mem =? 0) && is_alnum (nnth 0 (s - 2) mem))
    && negb ((e + 1 <? nlen mem) && is_alnum (nnth 0 e mem) && (nnth 0 (e + 1) mem =? 0))
  else
    negb ((0 <? s) && is_alnum (nnth 0 (s - 1) mem))
    && negb ((e <? nlen mem) && is_alnum (nnth 0 e mem)).

Definition validate_fullword (md : mods) (mem : bytes) (s e : N) (t : match_type) : bool :=
  negb (m_fullword md) || check_fullword mem s e t.

(* Matcher::confirm_ac_literal *)
Definition confirm_ac_literal (v : matcher) (mem : bytes) (s e : N) (literal_index : N) : option match_type :=
  match nnth_opt literal_index (mt_literals v) with
  | None => None      (* index out of bounds: unreachable, indexes come from the same literals *)
  | Some literal =>
      let w := slice s e mem in
      if (if m_nocase (mt_mods v) then eq_nocase literal w else bytes_eqb literal w) then
        Some (if m_ascii (mt_mods v) then
                if m_wide (mt_mods v) then
                  if nlen (mt_literals v) / 2 <=? literal_index then MtWideAlternate else MtAscii
                else MtAscii
              else if m_wide (mt_mods v) then MtWideStandard else MtAscii)
      else None
  end.

(* Matcher::get_xor_key (after F1: the index is halved only for ascii && wide); u8 arithmetic *)
Definition get_xor_key (v : matcher) (literal_index : N) : N :=
  match m_xor_start (mt_mods v) with
  | Some start =>
      if m_wide (mt_mods v) && m_ascii (mt_mods v) then
        let half := nlen (mt_literals v) / 2 in
        if half <=? literal_index then (start + (literal_index - half) mod 256) mod 256
        else (start + literal_index mod 256) mod 256
      else (start + literal_index mod 256) mod 256
  | None => 0
  end.

(* the pinned tree halved whenever `wide` was set (known finding C01-xor-key-wide, fixed) *)
Definition get_xor_key_pinned (v : matcher) (literal_index : N) : N :=
  match m_xor_start (mt_mods v) with
  | Some start =>
      if m_wide (mt_mods v) then
        let half := nlen (mt_literals v) / 2 in
        if half <=? literal_index then (start + (literal_index - half) mod 256) mod 256
        else (start + literal_index mod 256) mod 256
      else (start + literal_index mod 256) mod 256
  | None => 0
  end.

(* MatcherKind::Literals *)
Definition literals_process (md : mods) (mem : bytes) (s e : N) (start_position : N) (t : match_type)
  : ac_status :=
  if validate_fullword md mem s e t then AcSingle s e else AcNone.

Definition literals_matcher (lits : list bytes) (md : mods) : matcher :=
  {| mt_literals := lits; mt_mods := md; mt_process := literals_process md;
     mt_find_next := fun _ _ => None |}.

(* compile_variable on a text string *)
Definition text_matcher (d : tdecl) : matcher :=
  literals_matcher (new_bytes_literals d) (new_bytes_mods d).

(* ------------------------------------------------------------------ evaluator/variable.rs *)

(* StringMatch::new(region, start..end, match_max_length, xor_key) *)
Definition string_match_new (prm : sparams) (rg : mregion) (s e : N) (key : N) : smatch :=
  let length := e - s in
  {| sm_base := rg_start rg; sm_off := s; sm_len := length;
     sm_data := ntake (N.min length (p_match_max_length prm)) (ndrop s (rg_mem rg));
     sm_key := key |}.

(* ------------------------------------------------------------------ ac_scan.rs: saving matches *)

(* insert_match on the reversed vector (head = last element of the Vec):
   walk back over the matches of the same region with a larger offset; drop the new match when
   that offset is already there; insert otherwise. *)
Fixpoint insert_rev (rv : list smatch) (x : smatch) : list smatch :=
  match rv with
  | y :: rv' =>
      if (sm_base y =? sm_base x) && (sm_off x <? sm_off y) then y :: insert_rev rv' x
      else if (sm_base y =? sm_base x) && (sm_off y =? sm_off x) then rv
      else x :: rv
  | [] => [x]
  end.
Definition insert_match (v : list smatch) (x : smatch) : list smatch := rev (insert_rev (rev v) x).

(* the pinned tree pushed (known finding C01-duplicate-offsets, fixed) *)
Definition insert_match_pinned (v : list smatch) (x : smatch) : list smatch := v ++ [x].

(* `if len > max { truncate(max) }` *)
Definition truncate_matches (prm : sparams) (v : list smatch) : list smatch :=
  ntake (p_max_nb_matches prm) v.

(* start_position: one past the last saved match when it is in the same region *)
Definition start_position (rg : mregion) (v : list smatch) : N :=
  match last_opt v with
  | Some x => if sm_base x =? rg_start rg then sm_off x + 1 else 0
  | None => 0
  end.

(* what one confirmed-or-not candidate (literal index, widened span) does to the matches of its
   variable: body of the `for literal_info` loop of handle_possible_match from
   `confirm_ac_literal` on *)
Definition var_step_with (ins : list smatch -> smatch -> list smatch) (xkey : matcher -> N -> N)
           (prm : sparams) (rg : mregion) (var : matcher)
           (vm : list smatch) (cand : N * N * N) : list smatch :=
  let '(literal_index, s, e) := cand in
  let mem := rg_mem rg in
  match confirm_ac_literal var mem s e literal_index with
  | None => vm
  | Some t =>
      let sp := start_position rg vm in
      let vm' :=
        match mt_process var mem s e sp t with
        | AcNone => vm
        | AcMultiple l =>
            fold_left (fun acc se => ins acc (string_match_new prm rg (fst se) (snd se) 0)) l vm
        | AcSingle s' e' => ins vm (string_match_new prm rg s' e' (xkey var literal_index))
        end in
      truncate_matches prm vm'
  end.
Definition var_step := var_step_with insert_match get_xor_key.

(* ------------------------------------------------------------------ ac_scan.rs: AcScan::new *)

(* LiteralInfo + the lower-cased atom it was registered under *)
Record lit_info := { li_var : N; li_lit : N; li_so : N; li_eo : N; li_atom : bytes;
                     li_raw : bytes (* the atom before lower-casing; only the pinned variant reads it *) }.

Definition var_lit_infos_with (pick : bytes -> N * N) (variable_index : N) (v : matcher) : list lit_info :=
  mapi (fun literal_index lit =>
          let '(s, e) := pick lit in
          {| li_var := variable_index; li_lit := literal_index; li_so := s; li_eo := e;
             li_atom := lower_bytes (slice s (nlen lit - e) lit);
             li_raw := slice s (nlen lit - e) lit |})
       (mt_literals v).
Definition var_lit_infos := var_lit_infos_with pick_atom_in_literal.

(* every literal of every variable, in registration order *)
Definition all_lit_infos (vars : list matcher) : list lit_info :=
  concat (mapi var_lit_infos vars).

Record acscan := {
  acs_infos : list lit_info;          (* registration order *)
  acs_pats : list bytes;              (* `lits`: distinct lower-cased atoms, first registration first *)
  acs_raw : list N }.                 (* non_handled_var_indexes *)

(* `known_lits` (HashMap atom -> index) + `aho_index_to_literal_info` read as an association list:
   the infos registered under pattern p, in registration order *)
Definition fanout (a : acscan) (p : bytes) : list lit_info :=
  filter (fun li => bytes_eqb (li_atom li) p) (acs_infos a).

Definition acscan_new (vars : list matcher) : acscan :=
  let infos := all_lit_infos vars in
  {| acs_infos := infos;
     acs_pats := dedup bytes_eqb (map li_atom infos);
     acs_raw := concat (mapi (fun i v => match mt_literals v with [] => [i] | _ => [] end) vars) |}.

(* the pinned tree kept, per variable, a set of (atom — lower-cased for nocase strings —, start) and
   skipped a literal whose pair was already there (known finding C01-literal-dropped, fixed) *)
Fixpoint drop_dup_infos (nocase : bool) (seen : list (bytes * N)) (l : list lit_info) : list lit_info :=
  match l with
  | [] => []
  | li :: l' =>
      let k := (if nocase then li_atom li else li_raw li, li_so li) in
      if memb (pair_eqb bytes_eqb N.eqb) k seen then drop_dup_infos nocase seen l'
      else li :: drop_dup_infos nocase (k :: seen) l'
  end.
Definition acscan_new_pinned (pick : bytes -> N * N) (vars : list matcher) : acscan :=
  let infos := concat (mapi (fun i v => drop_dup_infos (m_nocase (mt_mods v)) [] (var_lit_infos_with pick i v)) vars) in
  {| acs_infos := infos;
     acs_pats := dedup bytes_eqb (map li_atom infos);
     acs_raw := concat (mapi (fun i v => match mt_literals v with [] => [i] | _ => [] end) vars) |}.

(* ------------------------------------------------------------------ ac_scan.rs: scanning *)

(* one LiteralInfo of one AC hit [hs, he) *)
Definition handle_literal_with step (prm : sparams) (rg : mregion) (vars : list matcher) (hs he : N)
           (matches : list (list smatch)) (li : lit_info) : list (list smatch) :=
  match nnth_opt (li_var li) vars with
  | None => matches
  | Some var =>
      if hs <? li_so li then matches                         (* checked_sub *)
      else
        let s := hs - li_so li in
        let e := he + li_eo li in
        if nlen (rg_mem rg) <? e then matches                (* checked_add, v <= mem.len() *)
        else nupdate (li_var li) (fun vm => step prm rg var vm (li_lit li, s, e)) matches
  end.
Definition handle_literal := handle_literal_with var_step.

(* handle_possible_match *)
Definition handle_possible_match_with step (a : acscan) (prm : sparams) (rg : mregion) (vars : list matcher)
           (matches : list (list smatch)) (hit : ac_hit) : list (list smatch) :=
  let '(p, hs, he) := hit in
  fold_left (handle_literal_with step prm rg vars hs he) (fanout a p) matches.
Definition handle_possible_match := handle_possible_match_with var_step.

(* scan_single_variable (raw matchers); the loop runs at most |mem| times since offset grows *)
Fixpoint single_loop (fuel : nat) (prm : sparams) (rg : mregion) (var : matcher) (offset : N)
         (vm : list smatch) : list smatch :=
  match fuel with
  | O => vm
  | S fuel' =>
      if offset <? nlen (rg_mem rg) then
        if p_max_nb_matches prm <=? nlen vm then vm
        else
          match mt_find_next var (rg_mem rg) offset with
          | None => vm
          | Some (s, e) =>
              let vm' := vm ++ [string_match_new prm rg s e 0] in
              if p_max_nb_matches prm <=? nlen vm' then vm'
              else single_loop fuel' prm rg var (s + 1) vm'
          end
      else vm
  end.
Definition scan_single_variable (prm : sparams) (rg : mregion) (var : matcher) (vm : list smatch)
  : list smatch :=
  single_loop (S (length (rg_mem rg))) prm rg var 0 vm.

(* the pinned tree tested the limit only after the push (known finding C14-raw-limit-regions, fixed) *)
Fixpoint single_loop_pinned (fuel : nat) (prm : sparams) (rg : mregion) (var : matcher) (offset : N)
         (vm : list smatch) : list smatch :=
  match fuel with
  | O => vm
  | S fuel' =>
      if offset <? nlen (rg_mem rg) then
        match mt_find_next var (rg_mem rg) offset with
        | None => vm
        | Some (s, e) =>
            let vm' := vm ++ [string_match_new prm rg s e 0] in
            if p_max_nb_matches prm <=? nlen vm' then vm'
            else single_loop_pinned fuel' prm rg var (s + 1) vm'
        end
      else vm
  end.
Definition scan_single_variable_pinned (prm : sparams) (rg : mregion) (var : matcher) (vm : list smatch)
  : list smatch :=
  single_loop_pinned (S (length (rg_mem rg))) prm rg var 0 vm.

(* AcScan::scan_region *)
Definition scan_region_with step single (a : acscan) (prm : sparams) (vars : list matcher) (rg : mregion)
           (matches : list (list smatch)) : list (list smatch) :=
  let m1 := fold_left (handle_possible_match_with step a prm rg vars)
                      (ac_find_overlapping (acs_pats a) (rg_mem rg)) matches in
  fold_left (fun ms vi =>
               match nnth_opt vi vars with
               | Some var => nupdate vi (single prm rg var) ms
               | None => ms
               end) (acs_raw a) m1.
Definition scan_region := scan_region_with var_step scan_single_variable.

(* ------------------------------------------------------------------ per-variable view (C12, C11)
   What the shared automaton does to ONE variable, written with that variable's data only:
   the candidates (literal index, widened span) its own atoms produce, in arrival order, folded
   with `var_step`; raw variables are scanned on their own afterwards. *)

(* the candidate a LiteralInfo yields for the AC hit [hs, he): bounds checks of handle_possible_match *)
Definition lit_cand (rg : mregion) (hs he : N) (li : lit_info) : list (N * N * N) :=
  if hs <? li_so li then []
  else if nlen (rg_mem rg) <? he + li_eo li then []
  else [(li_lit li, hs - li_so li, he + li_eo li)].

(* candidates of variable vi among the fan-out of a list of AC hits *)
Definition var_cands (a : acscan) (vi : N) (rg : mregion) (hits : list ac_hit) : list (N * N * N) :=
  flat_map (fun hit : ac_hit =>
              let '(p, hs, he) := hit in
              flat_map (lit_cand rg hs he) (filter (fun li => li_var li =? vi) (fanout a p))) hits.

(* the candidates of a variable compiled alone *)
Definition own_cands (var : matcher) (rg : mregion) : list (N * N * N) :=
  let a := acscan_new [var] in
  var_cands a 0 rg (ac_find_overlapping (acs_pats a) (rg_mem rg)).

(* one region, one variable *)
Definition scan_var_region (prm : sparams) (var : matcher) (rg : mregion) (vm : list smatch) : list smatch :=
  let vm1 := fold_left (var_step prm rg var) (own_cands var rg) vm in
  match mt_literals var with
  | [] => scan_single_variable prm rg var vm1
  | _ => vm1
  end.

Definition scan_var_direct (prm : sparams) (var : matcher) (mem : bytes) : list smatch :=
  scan_var_region prm var {| rg_start := 0; rg_mem := mem |} [].

(* ------------------------------------------------------------------ scanner/mod.rs: do_memory_scan *)

(* a region as a FragmentedMemory object presents it: described length, fetch failure, fetched bytes *)
Record fregion := { f_start : N; f_mem : bytes; f_fail : bool; f_described : N }.

Definition empty_matches (vars : list matcher) : list (list smatch) := map (fun _ => []) vars.

(* Memory::Direct *)
Definition scan_var_fragmented (prm : sparams) (var : matcher) (regions : list fregion) : list smatch :=
  fold_left (fun vm r =>
               if f_fail r then vm
               else scan_var_region prm var {| rg_start := f_start r; rg_mem := f_mem r |} vm)
            regions [].

Definition scan_direct (prm : sparams) (vars : list matcher) (mem : bytes) : list (list smatch) :=
  scan_region (acscan_new vars) prm vars {| rg_start := 0; rg_mem := mem |} (empty_matches vars).

(* Memory::Fragmented: `while next().is_some() { let Some(region) = fetch() else continue; scan_region }` *)
Definition scan_fragmented (prm : sparams) (vars : list matcher) (regions : list fregion)
  : list (list smatch) :=
  let a := acscan_new vars in
  fold_left (fun ms r =>
               if f_fail r then ms
               else scan_region a prm vars {| rg_start := f_start r; rg_mem := f_mem r |} ms)
            regions (empty_matches vars).

(* the whole text-string pipeline on one contiguous input *)
Definition model_scan_text (prm : sparams) (d : tdecl) (mem : bytes) : list smatch :=
  match scan_direct prm [text_matcher d] mem with
  | [r] => r
  | _ => []
  end.
