(* Model/ScannerStateCase.v — correspondence terms for C13 (evaluated by vm_compute on generated cases).

   History cases.  The harness executes a history on real `Scanner` values and, after every operation, observes
   every member of the family: the `scan_params()` getters and a probe scan whose rules expose each external
   symbol (console.log / rule verdict), the console module's user data (tag of the callback that received the
   messages), the pe module's user data (`pe.is_signed` on a PE file) and the effect of the parameters on the
   results (number and length of the matches of a planted string, listing of a rule that does not match).
   `probe_model` says what such a probe shows for a given scanner state; it is the instance of the abstract
   `scan` of Model/ScannerState.v used for these cases.

   Hash cases.  One scanner, several inputs scanned one after the other and concurrently on clones; every rule
   logs one hash call; the observed values are compared with the memoised model and with the unmemoised
   reference. *)
From Coq Require Import String.
From Boreal Require Import Base.Prelude Model.ScannerState Model.ModFuncs Model.HashMod Model.HashCache.
Open Scope N_scope.

(* ScanParams as the vector of its getters:
   [compute_full_matches; match_max_length; string_max_nb_matches; include_not_matched_rules; process_memory;
    max_fetched_region_size; memory_chunk_size (0 = None, n+1 = Some n); callback_events; compute_statistics;
    fragmented_scan_mode (0 legacy, 1 fast, 2 single_pass)] *)
Definition cparams := list N.
Definition cscanner := scanner unit cparams N.
(* module user data: key 1 = Console (value = tag of the callback), key 2 = Pe (0 = is_signed None,
   1 = Some false, 2 = Some true) *)

Record obs := {
  ob_params : list N;
  ob_fp : option (N * N);     (* compute_full_matches: (number of matches of the planted string, length of their data) *)
  ob_nm : bool;               (* the never-matching rule is listed *)
  ob_syms : list extval;
  ob_console : option N;      (* None: the compiler's default callback got the messages *)
  ob_pe : bool                (* pe.is_signed == 1 on the PE probe *)
}.

Definition pget (p : cparams) (i : nat) : N := nth i p 0.

(* what a scan of an input containing `nocc` occurrences of the planted string (length `nlen_`) shows *)
Definition probe_model (nlen_ : N) (s : cscanner) (nocc : N) : obs :=
  let p := sc_params s in
  {| ob_params := p;
     ob_fp := if pget p 0 =? 1
              then let n := N.min nocc (pget p 2) in Some (n, if n =? 0 then 0 else N.min nlen_ (pget p 1))
              else None;
     ob_nm := pget p 3 =? 1;
     ob_syms := sc_syms s;
     ob_console := md_get 1 (sc_mdata s);
     ob_pe := (pget p 4 =? 0) && match md_get 2 (sc_mdata s) with Some 2 => true | _ => false end |}.

Definition obs_eqb (a b : obs) : bool :=
  list_eqb N.eqb (ob_params a) (ob_params b)
  && opt_eqb (pair_eqb N.eqb N.eqb) (ob_fp a) (ob_fp b)
  && Bool.eqb (ob_nm a) (ob_nm b)
  && list_eqb extval_eqb (ob_syms a) (ob_syms b)
  && opt_eqb N.eqb (ob_console a) (ob_console b)
  && Bool.eqb (ob_pe a) (ob_pe b).

(* the result of a scan operation of a history does not include the getters nor the PE probe *)
Definition scan_obs_eqb (a b : obs) : bool :=
  opt_eqb (pair_eqb N.eqb N.eqb) (ob_fp a) (ob_fp b)
  && Bool.eqb (ob_nm a) (ob_nm b)
  && list_eqb extval_eqb (ob_syms a) (ob_syms b)
  && opt_eqb N.eqb (ob_console a) (ob_console b).

Definition cop := op cparams N N.
Inductive cout := CNone | CCloned (id : nat) | CUnit | CDef (r : dres) | CScan (o : obs).

Definition cout_eqb (a b : cout) : bool :=
  match a, b with
  | CNone, CNone | CUnit, CUnit => true
  | CCloned x, CCloned y => Nat.eqb x y
  | CDef x, CDef y => dres_eqb x y
  | CScan x, CScan y => scan_obs_eqb x y
  | _, _ => false
  end.

Definition cout_of (o : out obs) : cout :=
  match o with
  | OutNone => CNone
  | OutCloned n => CCloned n
  | OutLocal LUnit => CUnit
  | OutLocal (LDef r) => CDef r
  | OutScan r => CScan r
  end.

Definition step_eqb (a b : cout * list obs) : bool :=
  cout_eqb (fst a) (fst b) && list_eqb obs_eqb (snd a) (snd b).

Section Hist.
  Variable nlen_ : N.     (* length of the planted string *)
  Variable nprobe : N.    (* its occurrences in the probe input *)

  Definition mk_scanner (symmap : list (string * nat)) (syms : list extval) (p : cparams) : cscanner :=
    {| sc_inner := {| i_compiled := tt; i_symmap := symmap |}; sc_params := p; sc_syms := syms; sc_mdata := [] |}.

  Definition observe_fam (f : list cscanner) : list obs := map (fun s => probe_model nlen_ s nprobe) f.

  (* model: the family run *)
  Definition model_steps (s0 : cscanner) (h : list cop) : list (cout * list obs) :=
    map (fun fo => (cout_of (snd fo), observe_fam (fst fo))) (trace (probe_model nlen_) [s0] h).

  (* spec: clone by clone from the lineage; results of define_symbol from the declarative reading of the
     documentation ("fails if a symbol of the given name has never been defined, or if the type of the value is
     invalid") *)
  Definition spec_dres (s : cscanner) (name : string) (v : extval) : dres :=
    let m := i_symmap (sc_inner s) in
    if negb (existsb (fun e => String.eqb (fst e) name) m) then DUnknownName
    else match sym_lookup name m with
         | Some idx => match nth_error (sc_syms s) idx with
                       | Some old => if same_type old v then DOk else DInvalidType
                       | None => DOk
                       end
         | None => DUnknownName
         end.

  Definition spec_out (s0 : cscanner) (before : list cop) (o : cop) : cout :=
    let n := nfam before in
    match o with
    | OClone from => if Nat.ltb from n then CCloned n else CNone
    | OLocal c l =>
        if Nat.ltb c n then
          match l with
          | LDefine name v => CDef (spec_dres (spec_clone s0 before c) name v)
          | _ => CUnit
          end
        else CNone
    | OScan c k => if Nat.ltb c n then CScan (probe_model nlen_ (spec_clone s0 before c) k) else CNone
    end.

  Fixpoint spec_steps_from (s0 : cscanner) (before rest : list cop) : list (cout * list obs) :=
    match rest with
    | [] => []
    | o :: r =>
        (spec_out s0 before o, observe_fam (spec_fam s0 (before ++ [o])))
        :: spec_steps_from s0 (before ++ [o]) r
    end.
  Definition spec_steps (s0 : cscanner) (h : list cop) := spec_steps_from s0 [] h.

  (* csyms: the Compiler::define_symbol calls made before finalize(), in order (distinct names) *)
  Definition C13_hist_case (csyms : list (string * extval)) (p : cparams) (h : list cop)
             (first : list obs) (steps : list (cout * list obs)) : bool * bool * N :=
    let s0 : cscanner := scanner_new tt p csyms in
    (list_eqb obs_eqb first (observe_fam [s0]) && list_eqb step_eqb steps (model_steps s0 h),
     list_eqb obs_eqb first (observe_fam [s0]) && list_eqb step_eqb steps (spec_steps s0 h),
     0).
End Hist.

(* ---- a concrete family used by the examples of Properties/C13.v *)
Definition ex_scanner : cscanner :=
  mk_scanner [("i0"%string, 0%nat); ("s0"%string, 1%nat); ("b0"%string, 2%nat)] [EInt 5; EBytes [97; 98]; EBool false]
             [0; 512; 1000; 0; 0; 1073741824; 0; 1; 0; 0].

Definition ex_history : list cop :=
  [OClone 0%nat; OLocal 1%nat (LDefine "i0" (EInt (-7))); OClone 1%nat; OLocal 0%nat (LSetData 1 3);
   OLocal 2%nat (LSetParams [1; 3; 1; 1; 0; 1073741824; 0; 1; 0; 0]); OLocal 1%nat (LDefine "i0" (EBool true));
   OScan 1%nat 2; OLocal 0%nat (LDefine "zz" (EInt 1))].

(* ------------------------------------------------------------------ hash cases *)
Definition results_eqb (a b : list mres) : bool := list_eqb mres_eqb_simple a b.

(* seq: (index of the input, observed values) in the order the scans were made on the one scanner;
   par: per thread (index of its input, observed values of each of its scans) *)
Definition C13_hash_case (calls : list hcall) (inputs : list (list N))
           (seq : list (nat * list mres)) (par : list (nat * list (list mres))) : bool * bool * N :=
  let mem i := Direct (nth i inputs []) in
  let jobs := map (fun e => (mem (fst e), calls)) seq in
  let model := scans_hashes std_dg jobs in
  let ref_of i := map (call_plain std_dg (mem i)) calls in
  let model_of i := scan_hashes std_dg (mem i) calls in
  (list_eqb results_eqb (map snd seq) model
   && forallb (fun e => let m := model_of (fst e) in forallb (fun r => results_eqb r m) (snd e)) par,
   list_eqb results_eqb (map snd seq) (map (fun e => ref_of (fst e)) seq)
   && forallb (fun e => let m := ref_of (fst e) in forallb (fun r => results_eqb r m) (snd e)) par,
   0).
