(* Model/ModArgs.v — the arithmetic kernels between attacker-controlled header integers and the values a rule sees,
   written with checked operations: where the Rust code has a bare `-`, `+` on fixed-width integers (overflow-checked
   in the debug build the harness uses) the model yields Panic when the operation would overflow; `checked_*`,
   `saturating_*`, `try_from` are modelled as such.  Definitions only.

   Rust anchors:
     boreal/src/evaluator/entrypoint.rs   parse_pe, pe_rva_to_file_offset, parse_elf
     boreal/src/module/elf.rs             entry_point
     boreal/src/module/pe/utils.rs        get_adjusted_section_file_range, SectionTable::{get_file_range_at,
                                          max_section_file_offset}, va_to_file_offset(_inner)
     boreal/src/module/pe.rs              Pe::rva_to_offset (argument conversion)
     boreal/src/evaluator/mod.rs          Expression::Entrypoint (i64::try_from)
   (hash::get_args / math::offset_length_to_start_end range clipping: see C16, not duplicated here;
    evaluate_ops indexing: Model/ModuleTypes.v.) *)
From Boreal Require Import Base.Prelude Base.Res.

Definition u32max : N := 4294967295.
Definition u64max : N := 18446744073709551615.
Definition i64max : N := 9223372036854775807.

(* bare `a - b` on an unsigned integer *)
Definition sub_chk (a b : N) : res N := if b <=? a then Ok (a - b) else Panic.
(* bare `a + b` on u64 *)
Definition add_chk64 (a b : N) : res N := if a + b <=? u64max then Ok (a + b) else Panic.
(* u32::checked_add / u64::checked_add *)
Definition checked_add32 (a b : N) : option N := if a + b <=? u32max then Some (a + b) else None.
Definition checked_add64 (a b : N) : option N := if a + b <=? u64max then Some (a + b) else None.
(* u64::saturating_add *)
Definition sat_add64 (a b : N) : N := N.min (a + b) u64max.

(* ---------------------------------------------------------------- PE section headers (all fields u32) *)
Record pe_section : Type := {
  s_va : N;          (* virtual_address *)
  s_vsize : N;       (* virtual_size *)
  s_raw : N;         (* pointer_to_raw_data *)
  s_rawsize : N      (* size_of_raw_data *)
}.

Definition section_u32 (s : pe_section) : bool :=
  (s_va s <=? u32max) && (s_vsize s <=? u32max) && (s_raw s <=? u32max) && (s_rawsize s <=? u32max).

(* ---------------------------------------------------------------- evaluator/entrypoint.rs *)
(* the loop of pe_rva_to_file_offset over sections.iter().take(60) *)
Fixpoint nearest_section (secs : list pe_section) (va nearest_va nearest_off : N) : N * N :=
  match secs with
  | [] => (nearest_va, nearest_off)
  | s :: rest =>
      if (s_va s <=? va) && (nearest_va <=? s_va s)
      then nearest_section rest va (s_va s) (s_raw s)
      else nearest_section rest va nearest_va nearest_off
  end.

Definition model_pe_rva_to_file_offset (secs : list pe_section) (va : N) : res (option N) :=
  let nn := nearest_section (firstn 60 secs) va 0 0 in
  let* d := sub_chk va (fst nn) in                 (* va - nearest_section_va  (u32, unchecked in the source) *)
  Ok (checked_add64 (snd nn) d).

Record pe_header : Type := {
  h_machine : N;
  h_characteristics : N;
  h_entry : N;               (* address_of_entry_point *)
  h_file_alignment : N;
  h_sections : list pe_section
}.

Definition IMAGE_FILE_MACHINE_I386 : N := 332.
Definition IMAGE_FILE_MACHINE_AMD64 : N := 34404.
Definition IMAGE_FILE_DLL : N := 8192.

(* parse_pe after the headers have been read *)
Definition model_pe_entry_point (h : pe_header) (memory : bool) : res (option N) :=
  if negb ((h_machine h =? IMAGE_FILE_MACHINE_I386) || (h_machine h =? IMAGE_FILE_MACHINE_AMD64)) then Ok None
  else if memory then
         Ok (if N.land (h_characteristics h) IMAGE_FILE_DLL =? 0 then Some (h_entry h) else None)
       else
         let* o := model_pe_rva_to_file_offset (h_sections h) (h_entry h) in
         Ok (Some (match o with Some x => x | None => 0 end)).       (* unwrap_or(0) *)

(* ---------------------------------------------------------------- module/elf.rs entry_point *)
Record elf_segment : Type := { p_vaddr : N; p_memsz : N; p_offset : N }.
Record elf_section : Type := { sh_type : N; sh_addr : N; sh_size : N; sh_offset : N }.

Definition SHT_NULL : N := 0.
Definition SHT_NOBITS : N := 8.
Definition ET_EXEC : N := 2.

(* (addr..addr.saturating_add(size)).contains(&entry) then Some((entry - addr).saturating_add(offset)) *)
Definition range_hit (addr size off entry : N) : option (res N) :=
  if (addr <=? entry) && (entry <? sat_add64 addr size)
  then Some (let* d := sub_chk entry addr in Ok (sat_add64 d off))
  else None.

Fixpoint elf_find_segment (segs : list elf_segment) (entry : N) : res (option N) :=
  match segs with
  | [] => Ok None
  | s :: rest =>
      match range_hit (p_vaddr s) (p_memsz s) (p_offset s) entry with
      | Some r => let* v := r in Ok (Some v)
      | None => elf_find_segment rest entry
      end
  end.

Fixpoint elf_find_section (secs : list elf_section) (entry : N) : res (option N) :=
  match secs with
  | [] => Ok None
  | s :: rest =>
      if (sh_type s =? SHT_NULL) || (sh_type s =? SHT_NOBITS) then elf_find_section rest entry
      else match range_hit (sh_addr s) (sh_size s) (sh_offset s) entry with
           | Some r => let* v := r in Ok (Some v)
           | None => elf_find_section rest entry
           end
  end.

Record elf_header : Type := {
  e_type : N;
  e_entry : N;
  e_segments : list elf_segment;
  e_sections : list elf_section
}.

Definition model_elf_entry_point (h : elf_header) : res (option N) :=
  if e_type h =? ET_EXEC then elf_find_segment (e_segments h) (e_entry h)
  else elf_find_section (e_sections h) (e_entry h).

(* evaluator/entrypoint.rs parse_elf *)
Definition model_elf_entry (h : elf_header) (memory : bool) : res (option N) :=
  if memory then Ok (if e_type h =? ET_EXEC then Some (e_entry h) else None)
  else model_elf_entry_point h.

(* Expression::Entrypoint: res.and_then(|ep| i64::try_from(ep).ok()) *)
Definition to_i64 (o : option N) : option N :=
  match o with Some v => if v <=? i64max then Some v else None | None => None end.

(* ---------------------------------------------------------------- module/pe/utils.rs *)
Definition get_adjusted_section_file_range (s : pe_section) (realign : bool) : res (N * N) :=
  let off := s_raw s in
  let* off' := (if realign then sub_chk off (off mod 512) else Ok off) in    (* offset -= offset % 0x200 *)
  Ok (off', s_rawsize s).

(* SectionTable::get_file_range_at: find_map over the sections; `?` inside the closure skips the section *)
Fixpoint get_file_range_at (secs : list pe_section) (realign : bool) (va : N) : res (option (N * N)) :=
  match secs with
  | [] => Ok None
  | s :: rest =>
      if va <? s_va s then get_file_range_at rest realign va            (* va.checked_sub(section_va)? *)
      else
        let offset := va - s_va s in
        let* r := get_adjusted_section_file_range s realign in
        let '(sec_off, sec_size) := r in
        let vsize := N.max (s_vsize s) sec_size in
        if vsize <=? offset then get_file_range_at rest realign va
        else if offset <? sec_size then
               match checked_add32 sec_off offset with
               | Some o => let* rem := sub_chk sec_size offset in Ok (Some (o, rem))   (* section_size - offset *)
               | None => get_file_range_at rest realign va
               end
             else get_file_range_at rest realign va
  end.

Fixpoint min_va (secs : list pe_section) : option N :=
  match secs with
  | [] => None
  | s :: rest => match min_va rest with Some m => Some (N.min (s_va s) m) | None => Some (s_va s) end
  end.

Definition va_to_file_offset_inner (secs : list pe_section) (realign : bool) (va : N) : res (option N) :=
  let* r := get_file_range_at secs realign va in
  match r with
  | Some (off, _) => Ok (Some off)
  | None =>
      match min_va secs with
      | Some first => Ok (if va <? first then Some va else None)
      | None => Ok None
      end
  end.

(* va_to_file_offset: the result must lie inside the scanned bytes; mem.len() must fit a u32 *)
Definition va_to_file_offset (mem_len : N) (secs : list pe_section) (realign : bool) (va : N) : res (option N) :=
  let* r := va_to_file_offset_inner secs realign va in
  Ok (match r with
      | Some v => if mem_len <=? u32max then (if v <? mem_len then Some v else None) else None
      | None => None
      end).

(* Pe::rva_to_offset: i64 argument -> u32 (try_into), then va_to_file_offset *)
Definition model_rva_to_offset (mem_len : N) (h : pe_header) (arg : Z) : res (option N) :=
  if (arg <? 0)%Z || (Z.of_N u32max <? arg)%Z then Ok None
  else va_to_file_offset mem_len (h_sections h) (512 <=? h_file_alignment h) (Z.to_N arg).

(* SectionTable::max_section_file_offset: u64 sums of two u32 fields *)
Fixpoint max_section_file_offset (secs : list pe_section) (mx : N) : res N :=
  match secs with
  | [] => Ok mx
  | s :: rest =>
      let* e := add_chk64 (s_raw s) (s_rawsize s) in
      max_section_file_offset rest (if mx <? e then e else mx)
  end.

(* ---------------------------------------------------------------- module/pe/version_info.rs: the entry walks
   read_version_info / read_string_file_info / read_string_table all have the shape
       while offset < end { match read_child(mem, offset) { Some(length) => offset += length, None => break } }
   (and `while let Some(length) = read_var_file_info(..) { offset += align32(length) }`).  The reader is abstract: it
   returns the length field found at `offset`, attacker-controlled.  Gallina functions are total, so the walk is
   written with fuel; None = fuel exhausted.  `walk_pinned` is the loop of the pinned tree, `walk_fixed` the loop
   after fix ca28b21 (`Some(length) if length > 0`). *)
Fixpoint walk_pinned (read : N -> option N) (fuel : nat) (offset end_ : N) : option N :=
  match fuel with
  | O => None
  | S fuel' =>
      if offset <? end_ then
        match read offset with
        | Some length => walk_pinned read fuel' (offset + length) end_
        | None => Some offset
        end
      else Some offset
  end.

Fixpoint walk_fixed (read : N -> option N) (fuel : nat) (offset end_ : N) : option N :=
  match fuel with
  | O => None
  | S fuel' =>
      if offset <? end_ then
        match read offset with
        | Some length => if 0 <? length then walk_fixed read fuel' (offset + length) end_ else Some offset
        | None => Some offset
        end
      else Some offset
  end.

(* ---------------------------------------------------------------- module/dotnet.rs TablesData::finalize, first loop
       let mut last_method_index = self.methods.len();
       for class in self.classes.iter().rev() {
           if let Some(idx) = class.method_def_first_index {
               if idx <= self.methods.len() { for i in idx..LAST { self.methods[i] … } }
               last_method_index = idx;
           } }
   with LAST = last_method_index on the pinned tree and last_method_index.min(self.methods.len()) after fix daab348.
   `classes_rev` lists the method_def_first_index of the classes in the order the loop visits them (attacker-
   controlled TypeDef.MethodList values); `self.methods[i]` is a checked index. *)
Fixpoint index_loop (count : nat) (i len : N) : res unit :=
  match count with
  | O => Ok tt
  | S c => if i <? len then index_loop c (i + 1) len else Panic        (* self.methods[i] *)
  end.

Fixpoint finalize_methods (fixed : bool) (classes_rev : list (option N)) (last len : N) : res unit :=
  match classes_rev with
  | [] => Ok tt
  | None :: rest => finalize_methods fixed rest last len
  | Some idx :: rest =>
      let bound := if fixed then N.min last len else last in
      let* _ := (if idx <=? len then index_loop (N.to_nat (bound - idx)) idx len else Ok tt) in
      finalize_methods fixed rest idx len
  end.

(* ---------------------------------------------------------------- module/macho.rs parse_file / parse_fat recursion
   What the bytes at a position look like to FileKind::parse: a thin Mach-O, a fat header whose arches point at other
   positions (attacker-controlled offsets; position 0 is the file itself), or something else.  parse_file on a fat
   file calls parse_file on every arch (fat_arch_to_file_value) with add_file_to_data = true.  Fuel stands for the
   stack: None = the recursion did not end within `fuel` frames.  `fixed` = after fix 67eeeeb (a fat file met while
   parsing the members of a fat file is not followed). *)
Inductive mfile : Type := MThin | MFat (arches : list N) | MOther.

Fixpoint macho_parse (fixed : bool) (files : N -> mfile) (fuel : nat) (nested : bool) (pos : N) : option unit :=
  match fuel with
  | O => None
  | S fuel' =>
      match files pos with
      | MThin => Some tt
      | MOther => Some tt
      | MFat arches =>
          if fixed && nested then Some tt
          else (fix go (l : list N) : option unit :=
                  match l with
                  | [] => Some tt
                  | a :: l' => match macho_parse fixed files fuel' true a with
                               | Some _ => go l'
                               | None => None
                               end
                  end) arches
      end
  end.

(* ---------------------------------------------------------------- case term for the `kernel` cases of C09 *)
Definition optN_eqb (a b : option N) : bool := opt_eqb N.eqb a b.

Definition res_opt_eqb (obs : option N) (m : res (option N)) : bool :=
  match m with Ok o => optN_eqb obs o | _ => false end.

Definition no_panic {A} (r : res A) : bool := match r with Panic => false | _ => true end.

(* PE: observed `entrypoint` (contiguous scan; process_memory flag = memory) and pe.rva_to_offset(arg) values *)
Definition C09_pe_case (mem_len : N) (h : pe_header) (memory : bool) (obs_entry : option N)
           (rvas : list (Z * option N)) : bool * bool * N :=
  let m_entry := model_pe_entry_point h memory in
  (res_opt_eqb obs_entry (let* o := m_entry in Ok (to_i64 o))
   && forallb (fun p => res_opt_eqb (snd p) (model_rva_to_offset mem_len h (fst p))) rvas,
   no_panic m_entry && forallb (fun p => no_panic (model_rva_to_offset mem_len h (fst p))) rvas
   && no_panic (max_section_file_offset (h_sections h) 0),
   0).

(* ELF: observed `entrypoint`, and (contiguous, not process memory) the module's elf.entry_point, which is the same
   function *)
Definition C09_elf_case (h : elf_header) (memory : bool) (obs_entry : option N) (obs_module : option (option N))
  : bool * bool * N :=
  let m := model_elf_entry h memory in
  (res_opt_eqb obs_entry (let* o := m in Ok (to_i64 o))
   && match obs_module with
      | Some om => res_opt_eqb om (let* o := model_elf_entry_point h in Ok (to_i64 o))
      | None => true
      end,
   no_panic m && no_panic (model_elf_entry_point h), 0).
