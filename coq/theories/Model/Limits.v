(* Model/Limits.v — C14: the record and limit contract, and the correspondence term.
   The string scan itself is Model/AcScan.v (`var_step`: insert then truncate; `scan_single_variable`:
   test, push, test).  Here: the raw path driven by an observed match sequence, and the checks a
   reported list must pass.  Definitions only. *)
From Boreal Require Import Base.Prelude Base.ListX Base.Bytes Model.Literals Model.AcScan Spec.TextSpec.

(* ---- raw matchers: `find_next_match_at(mem, o)` of a region, read off the matches an unlimited scan
   of that region reported (U, ascending): the first one starting at or after o *)
Fixpoint find_next_in (u : list smatch) (base o : N) : option (N * N) :=
  match u with
  | [] => None
  | x :: u' => if (sm_base x =? base) && (o <=? sm_off x) then Some (sm_off x, sm_off x + sm_len x)
               else find_next_in u' base o
  end.

Definition raw_matcher_of (u : list smatch) (base : N) : matcher :=
  {| mt_literals := [];
     mt_mods := {| m_fullword := false; m_wide := false; m_ascii := true; m_nocase := false; m_xor_start := None |};
     mt_process := fun _ _ _ _ _ => AcNone;
     mt_find_next := fun _ o => find_next_in u base o |}.

(* the raw path over the regions of a fragmented scan *)
Definition model_raw_fragmented (prm : sparams) (u : list smatch) (regions : list fregion) : list smatch :=
  fold_left (fun vm r =>
               if f_fail r then vm
               else scan_single_variable prm {| rg_start := f_start r; rg_mem := f_mem r |}
                                         (raw_matcher_of u (f_start r)) vm)
            regions [].

(* ---- what the property demands of a reported list T (limit lim, data cap max_len) given the list U
   reported without limit *)

(* the record lies inside one fetched region, has positive length, carries the capped bytes *)
Definition record_faithful (strict : bool) (regions : list fregion) (max_len : N) (x : smatch) : bool :=
  existsb (fun r =>
      negb (f_fail r) && (f_start r =? sm_base x)
      && (negb strict || (0 <? sm_len x)) && (sm_off x + sm_len x <=? nlen (f_mem r))
      && bytes_eqb (sm_data x) (slice (sm_off x) (sm_off x + N.min (sm_len x) max_len) (f_mem r)))
    regions.

Definition limit_spec_ok (strict : bool) (regions : list fregion) (prm : sparams) (u t : list smatch) : bool :=
  forallb (record_faithful strict regions (p_match_max_length prm)) t
  && (nlen t <=? p_max_nb_matches prm)
  && forallb (fun x => memb smatch_eqb x u) t
  && (if nlen u <=? p_max_nb_matches prm then list_eqb smatch_eqb t u else true).

(* the record is an occurrence of THAT string: for a text string, offset / length / key / data are those
   of one of the declaration's own encodings occurring there in the region whose base it carries
   (Spec/TextSpec.v); for the other kinds membership in the list `u` the string reports when it is
   compiled ALONE (limit_spec_ok) plays this role *)
Definition text_occurrence (d : tdecl) (regions : list fregion) (max_len : N) (x : smatch) : bool :=
  existsb (fun r =>
      negb (f_fail r) && (f_start r =? sm_base x)
      && record_ok d (f_mem r) max_len (sm_off x) (sm_len x) (sm_key x) (sm_data x)
      && unxor_ok d (f_mem r) (sm_off x) (sm_len x) (sm_key x))
    regions.

(* text strings: the unlimited list is COMPLETE — its (base, offset) pairs are the specified offsets of
   every fetched region, in region order (what "coincide with the unlimited match set" refers to) *)
Definition text_complete (d : tdecl) (regions : list fregion) (u : list smatch) : bool :=
  list_eqb (pair_eqb N.eqb N.eqb)
    (map (fun x => (sm_base x, sm_off x)) u)
    (flat_map (fun r => if f_fail r then [] else map (fun o => (f_start r, o)) (spec_offsets d (f_mem r))) regions).

Inductive lkind :=
| KText (d : tdecl)      (* MatcherKind::Literals of a text string: fully modelled *)
| KRaw                   (* MatcherKind::Raw: the loop of scan_single_variable is modelled, the regex is not *)
| KRawNullable           (* a raw regex that can match the empty string (declared by the generator) *)
| KOther.                (* Atomized: checked against the specification only *)

(* known finding C14-nullable-regex-zero-length: a raw regex that can match the empty string is
   reported with zero-length matches (libyara 4.5.5 does the same).  Class: the string is such a
   regex, some reported match has length 0, and everything else the property asks holds. *)
Definition kf_nullable (k : lkind) (regions : list fregion) (prm : sparams) (u t : list smatch) (rest_ok : bool) : N :=
  match k with
  | KRawNullable =>
      if existsb (fun x => sm_len x =? 0) t && limit_spec_ok false regions prm u t && rest_ok then 1 else 0
  | _ => 0
  end.

(* kind, regions (a direct scan = one region at 0), params of the limited run, the limit used for
   the "unlimited" run, U = what the string reports compiled alone without limit, T = what it reports
   under the limit inside its rule set (other rules, namespaces, global / private rules around it),
   and whether the probe rule `#a == min(|U|, lim)` matched *)
Definition C14_case (k : lkind) (regions : list fregion) (prm : sparams) (unl : N)
           (u t : list smatch) (probe : bool) : bool * bool * N :=
  let prm_u := {| p_match_max_length := p_match_max_length prm; p_max_nb_matches := unl |} in
  (match k with
   | KText d => list_eqb smatch_eqb t (scan_var_fragmented prm (text_matcher d) regions)
                && list_eqb smatch_eqb u (scan_var_fragmented prm_u (text_matcher d) regions)
   | KRaw | KRawNullable => list_eqb smatch_eqb t (model_raw_fragmented prm u regions)
   | KOther => true
   end,
   limit_spec_ok true regions prm u t && probe && (nlen u <? unl)
   && match k with
      | KText d => forallb (text_occurrence d regions (p_match_max_length prm)) t && text_complete d regions u
      | _ => true
      end,
   kf_nullable k regions prm u t (probe && (nlen u <? unl))).
