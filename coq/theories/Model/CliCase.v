(* Model/CliCase.v — the correspondence term for C18 (evaluated by vm_compute on generated cases).

   One case = one invocation of target/debug/boreal.  The term receives
     - the options of the invocation (already split the way clap splits them),
     - the ScanParams the harness scanned with (`used`),
     - the rule declarations (from the generator), the target (tree / file / list, from the generator),
       the regular files actually found on disk below the target (flat, from os.walk),
     - per candidate path what the *library* computed in the harness (harness/src/bin/c18.rs, reading
       the file itself and calling the scan_mem functions): the callback events under `used`, and the result list,
     - what the executable wrote: stdout lines, stderr lines, exit status.

   corr_ok: used = params_of_flags, stdout/stderr/exit = the model's cli_run on the library events
            (multiset of lines; exact sequence for a single-file target).
   spec_ok: used meets the documented meaning of the options; stdout = CliSpec's rendering of the
            library's result lists for the files CliSpec selects (multiset). *)
From Coq Require Import String Ascii.
From Boreal Require Import Base.Prelude Spec.CliSpec Model.Cli.

Record lib_entry := {
  le_path : bytes;
  le_events : (bytes + list event)%type;       (* callback API under `used`; inl = read error text *)
  le_results : option (list rres) }.           (* result-list API, not-matched rules included, full matches *)

(* did the library raise a "string reached the match limit" warning for this file *)
Definition le_warned (e : lib_entry) : bool :=
  match le_events e with
  | inr evs => existsb (fun ev => match ev with EvLimit _ _ _ => true | _ => false end) evs
  | inl _ => false
  end.

Fixpoint lookup (tbl : list lib_entry) (p : bytes) : option lib_entry :=
  match tbl with
  | [] => None
  | e :: rest => if bytes_eqb (le_path e) p then Some e else lookup rest p
  end.

(* a path the harness was not asked about: reported as unreadable with a marker text, so that the
   comparison fails visibly instead of silently agreeing *)
Definition lib_of (tbl : list lib_entry) : libfn :=
  fun p => match lookup tbl p with Some e => le_events e | None => inl (B "<<no library result>>") end.

(* what the specification says is scanned *)
Inductive spec_target :=
| STree (found_files : list found)                 (* directory target *)
| SFile (path : bytes)
| SList (entries : list (bytes + list found)).     (* scan list: a file path, or the files found below a directory entry *)

Definition spec_selected (io : in_options) (t : spec_target) : list bytes :=
  match t with
  | STree fs => map f_path (filter (file_selected io) fs)
  | SFile p => [p]
  | SList es => flat_map (fun e => match e with
                                   | inl p => [p]
                                   | inr fs => map f_path (filter (file_selected io) fs)
                                   end) es
  end.

(* (must, may): lines that have to be there, and lines of files whose scan --fail-on-warnings
   aborted at a warning ("abort scans on warnings"): any part of those may be there. *)
Definition spec_stdout (o : cb_options) (io : in_options) (ds : list decl) (tbl : list lib_entry) (t : spec_target)
  : option (list bytes * list bytes) :=
  let single := match t with SFile _ => true | _ => false end in
  let per_file p :=
      match lookup tbl p with
      | Some e =>
          match le_results e, single with
          | None, true => Some ([], [])          (* single unreadable file: error, no count line *)
          | r, _ =>
              match spec_file_lines o ds p r with
              | Some ls =>
                  if match o_warning o with WFail => le_warned e | _ => false end
                  then Some ([], if o_count o then [] else ls)
                  else Some (ls, [])
              | None => None
              end
          end
      | None => None
      end in
  match concat_opt (map (fun p => match per_file p with Some x => Some [x] | None => None end) (spec_selected io t)) with
  | Some l => Some (flat_map fst l, flat_map snd l)
  | None => None
  end.

(* with -c an aborted file still gets its count line, with a count up to the full one *)
Definition count_line_ok (o : cb_options) (tbl : list lib_entry) (l : bytes) : bool :=
  existsb (fun e => match lookup tbl (le_path e) with
                    | Some _ => bytes_eqb (firstn (length (le_path e ++ B ": ")) l) (le_path e ++ B ": ")
                    | None => false
                    end) tbl.

Definition spec_exit (tbl : list lib_entry) (t : spec_target) : N :=
  match t with
  | SFile p => match lookup tbl p with
               | Some e => match le_results e with Some _ => 0 | None => 1 end
               | None => 1
               end
  | _ => 0
  end.

(* `-l 0` is outside the documented domain ("once NUMBER rules have been matched"); the tool
   then reports one rule.  The specification is silent there. *)
Definition limit_specified (o : cb_options) : bool :=
  match o_limit o with Some 0 => false | _ => true end.

(* ------------------------------------------------------------------ block atomicity on the real output
   For directory / list targets the stdout *sequence* must be an interleaving of whole blocks, every
   file's blocks in order (Properties/C18.v, C18_interleaving): at every position some file's next
   block is a prefix of what remains (blocks start with a rule line or a count line, which name the
   file, so there is almost never a choice). *)
Fixpoint strip_prefix (b l : list bytes) : option (list bytes) :=
  match b with
  | [] => Some l
  | x :: b' => match l with
               | y :: l' => if bytes_eqb x y then strip_prefix b' l' else None
               | [] => None
               end
  end.

(* try every file whose next block is a prefix of the remaining output (backtracking: two files can
   have equal first lines, e.g. a scan list naming a file twice and a rule identifier used in two
   namespaces).  `if` rather than `||`: vm_compute is call-by-value. *)
Fixpoint try_each (k : list (list (list bytes)) -> list bytes -> bool)
         (seen fs : list (list (list bytes))) (out : list bytes) : bool :=
  match fs with
  | [] => false
  | bl :: rest =>
      if match bl with
         | b :: bs => match strip_prefix b out with
                      | Some out' => k (rev_append seen (bs :: rest)) out'
                      | None => false
                      end
         | [] => false
         end
      then true
      else try_each k (bl :: seen) rest out
  end.

Fixpoint interleaved (fuel : nat) (fs : list (list (list bytes))) (out : list bytes) : bool :=
  match out with
  | [] => forallb (fun bl => match bl with [] => true | _ => false end) fs
  | _ => match fuel with
         | O => false
         | S k => try_each (interleaved k) [] fs out
         end
  end.

Definition stdout_blocks (o : cb_options) (lib : libfn) (p : bytes) : list (list bytes) :=
  filter (fun b => match b with [] => false | _ => true end) (map stdout_of (worker_blocks o lib p)).

(* ------------------------------------------------------------------ multiset comparison in n log n
   (the quadratic mset_eqb of CliSpec.v is too slow for outputs of ten thousand lines): both sides are
   sorted with the merge sort of Coq's Sorting.Mergesort (copied here as plain definitions, ordered by
   bytes_leb) and compared / subtracted by one linear pass. *)
Fixpoint bmerge (l1 l2 : list bytes) : list bytes :=
  let fix merge_aux (l2 : list bytes) : list bytes :=
      match l1, l2 with
      | [], _ => l2
      | _, [] => l1
      | a1 :: l1', a2 :: l2' => if bytes_leb a1 a2 then a1 :: bmerge l1' l2 else a2 :: merge_aux l2'
      end in
  merge_aux l2.

Fixpoint merge_list_to_stack (stack : list (option (list bytes))) (l : list bytes) : list (option (list bytes)) :=
  match stack with
  | [] => [Some l]
  | None :: stack' => Some l :: stack'
  | Some l' :: stack' => None :: merge_list_to_stack stack' (bmerge l' l)
  end.
Fixpoint merge_stack (stack : list (option (list bytes))) : list bytes :=
  match stack with
  | [] => []
  | None :: stack' => merge_stack stack'
  | Some l :: stack' => bmerge l (merge_stack stack')
  end.
Fixpoint iter_merge (stack : list (option (list bytes))) (l : list bytes) : list bytes :=
  match l with
  | [] => merge_stack stack
  | a :: l' => iter_merge (merge_list_to_stack stack [a]) l'
  end.
Definition bsort (l : list bytes) : list bytes := iter_merge [] l.

(* a and b sorted: b minus a, None when an element of a is missing from b *)
Fixpoint sorted_diff (a b : list bytes) : option (list bytes) :=
  match a with
  | [] => Some b
  | x :: a' =>
      (fix skip (b : list bytes) : option (list bytes) :=
         match b with
         | [] => None
         | y :: b' =>
             if bytes_eqb x y then sorted_diff a' b'
             else if bytes_leb y x then match skip b' with Some r => Some (y :: r) | None => None end
             else None
         end) b
  end.

Definition fast_mset_eqb (a b : list bytes) : bool := list_eqb bytes_eqb (bsort a) (bsort b).
Definition fast_mset_diff (a b : list bytes) : option (list bytes) := sorted_diff (bsort a) (bsort b).
Definition fast_mset_subb (a b : list bytes) : bool :=
  match fast_mset_diff a b with Some _ => true | None => false end.

Definition C18_case (s : sc_options) (o : cb_options) (io : in_options) (used : scan_params)
           (ds : list decl) (t : target) (st : spec_target) (tbl : list lib_entry)
           (out err : list bytes) (exit : N) : bool * bool * N :=
  let '(lines, code) := cli_run o io (lib_of tbl) t in
  let exact := match t with TFile _ => true | _ => false end in
  let corr :=
      params_eqb used (params_of_flags s o)
      && (if exact then list_eqb bytes_eqb out (stdout_of lines)
          else fast_mset_eqb out (stdout_of lines)
               && interleaved (length out) (map (stdout_blocks o (lib_of tbl)) (sent_files (producer io t))) out)
      && fast_mset_eqb err (stderr_of lines)
      && (exit =? code) in
  let spec :=
      spec_params_ok s o used
      && (negb (limit_specified o)
          || match spec_stdout o io ds tbl st with
             | Some (must, may) =>
                 match fast_mset_diff must out with
                 | Some rest =>
                     if o_count o then forallb (count_line_ok o tbl) rest
                     else fast_mset_subb rest may
                 | None => false
                 end
             | None => false
             end)
      && (exit =? spec_exit tbl st) in
  (corr, spec, 0).

(* ------------------------------------------------------------------ controlled schedules
   A probe invocation scans a list of named pipes with --no-mmap: every worker blocks in
   std::fs::read until the test driver writes the content of "its" pipe.  The driver observes how
   many pipes are being read at the same time (= number of live workers, as long as enough
   entries remain) and chooses the completion order; it releases the next pipe only after the
   output of the previous one has appeared, so stdout is a *sequence* determined by the model:
   the blocks of the files in completion order.

     held k   = number of pipes simultaneously open for reading before the k-th release
     order    = the paths in the order they were released
     entries  = the scan list (order in which the producer sends) *)
Fixpoint held_ok (n : N) (remaining : N) (held : list N) : bool :=
  match held with
  | [] => true
  | h :: rest => (h =? N.min n remaining) && held_ok n (remaining - 1) rest
  end.

Definition C18_probe_case (s : sc_options) (o : cb_options) (io : in_options) (used : scan_params)
           (ds : list decl) (tbl : list lib_entry) (entries order : list bytes) (held : list N)
           (out err : list bytes) (exit : N) : bool * bool * N :=
  let lib := lib_of tbl in
  let n := nb_threads io 1 in
  let corr :=
      params_eqb used (params_of_flags s o)
      && mset_eqb bytes_eqb order entries
      && held_ok n (nlen entries) held
      && (nlen held =? nlen entries)
      && list_eqb bytes_eqb out (flat_map (fun p => stdout_of (worker_lines o lib p)) order)
      && mset_eqb bytes_eqb err (flat_map (fun p => stderr_of (worker_lines o lib p)) order)
      && (exit =? 0) in
  let spec :=
      spec_params_ok s o used
      && match concat_opt (map (fun p => match lookup tbl p with
                                         | Some e => spec_file_lines o ds p (le_results e)
                                         | None => None
                                         end) order) with
         | Some ls => list_eqb bytes_eqb out ls
         | None => false
         end
      && match i_threads io with Some k => held_ok (N.max 1 k) (nlen entries) held | None => true end
      && (exit =? 0) in
  (corr, spec, 0).

(* ------------------------------------------------------------------ how the rules were compiled
   The harness compiled (namespace, file) pairs and external symbols chosen by the generator; the
   model must derive exactly those from the command-line arguments. *)
Definition opt_bytes_eqb (a b : option bytes) : bool := opt_eqb bytes_eqb a b.

Definition C18_compile_args_ok (existing : list bytes) (rule_args : list bytes) (compiled : list (option bytes * bytes))
           (define_args : list bytes) (defined : list (bytes * ext_value)) : bool :=
  list_eqb (fun a b => opt_bytes_eqb (fst a) (fst b) && bytes_eqb (snd a) (snd b))
           (map (resolve_rules_arg (fun p => mem_bytes p existing)) rule_args) compiled
  && list_eqb (opt_eqb (fun a b : bytes * ext_value => bytes_eqb (fst a) (fst b) && ext_value_eqb (snd a) (snd b)))
              (map parse_define define_args) (map Some defined).

(* a case = an invocation + the check that its arguments were resolved as the harness compiled them *)
Definition with_args (args_ok : bool) (v : bool * bool * N) : bool * bool * N :=
  let '(c, s, k) := v in (c && args_ok, s, k).

(* rules that do not compile: nothing is scanned, nothing on stdout, exit status 1 *)
Definition C18_compile_fail_case (out : list bytes) (exit : N) : bool * bool * N :=
  let ok := match out with [] => true | _ => false end && (exit =? 1) in (ok, ok, 0).

(* ------------------------------------------------------------------ other entry points
   `yr` argument errors, `yr -M` / `list-modules` against Compiler::available_modules, `save` onto an
   existing file. *)
Fixpoint sorted_bytes (l : list bytes) : bool :=
  match l with
  | x :: ((y :: _) as rest) => bytes_leb x y && sorted_bytes rest
  | _ => true
  end.

Definition C18_yr_case (module_names load : bool) (positional available out : list bytes) (exit : N) : bool * bool * N :=
  match from_yr_args module_names load positional with
  | YrError =>
      let ok := match out with [] => true | _ => false end && (exit =? 1) in (ok, ok, 0)
  | YrListModules =>
      (list_eqb bytes_eqb out (list_modules available) && (exit =? 0),
       sorted_bytes out && mset_eqb bytes_eqb out available && (exit =? 0), 0)
  | _ => (false, false, 0)       (* the generator only sends the two kinds above here *)
  end.

Definition C18_save_case (first second : N) (unchanged : bool) : bool * bool * N :=
  let ok := (first =? save_exit false) && (second =? save_exit true) && unchanged in (ok, ok, 0).

(* a target that is neither a directory nor an existing file: a pid if it parses as one.  The
   generator only uses pids that cannot exist and names no file has; `lib_err` is the text of the
   library's own error for that pid / path *)
Definition C18_input_case (arg : bytes) (lib_process_err lib_file_err : bytes) (out err : list bytes) (exit : N)
  : bool * bool * N :=
  let expected :=
      match classify_input false false false arg with
      | InProcess pid => B "Cannot scan " ++ dec pid ++ B ": " ++ lib_process_err
      | _ => B "Cannot scan " ++ arg ++ B ": " ++ lib_file_err
      end in
  let ok := match out with [] => true | _ => false end
            && list_eqb bytes_eqb err [expected] && (exit =? 1) in
  (ok, ok, 0).

(* the same with a file of that name present: it is scanned as a file (rule `a`, always true) *)
Definition C18_input_exists_case (arg : bytes) (out : list bytes) (exit : N) : bool * bool * N :=
  let ok := match classify_input false false true arg with InFile => true | _ => false end
            && list_eqb bytes_eqb out [B "a " ++ arg] && (exit =? 0) in
  (ok, ok, 0).

(* ------------------------------------------------------------------ compact case terms
   Large events (hundreds of matches, output of one event well over the 8 KiB / 64 KiB buffer sizes
   of the standard library) would make the generated terms megabytes long.  Two decoders keep them
   small; both are plain data expansion, evaluated inside the term.

   rep_matches: a run of matches that differ only in their offset.
   unfront:     stdout lines coded against the previous line (shared prefix length, middle part,
                shared suffix length). *)
Definition rep_matches (base len key : N) (data : bytes) (offsets : list N) : list smatch :=
  map (fun off => {| m_base := base; m_offset := off; m_length := len; m_key := key; m_data := data |}) offsets.

Definition lastn {A} (n : nat) (l : list A) : list A := skipn (length l - n) l.

Fixpoint unfront_from (prev : bytes) (l : list (N * bytes * N)) : list bytes :=
  match l with
  | [] => []
  | (p, mid, s) :: rest =>
      let line := firstn (N.to_nat p) prev ++ mid ++ lastn (N.to_nat s) prev in
      line :: unfront_from line rest
  end.
Definition unfront (l : list (N * bytes * N)) : list bytes := unfront_from [] l.
