(* Model/Widen.v — boreal/src/matcher/widener.rs `widen_hir`: every byte-consuming leaf is followed
   by a NUL byte; `^ $` are kept, `\b \B` are replaced by Empty (they are handled separately by
   the custom wide runner / `apply_wide_word_boundaries`).  The visitor splices `leaf, NUL` into an
   enclosing Concat, wraps it in `Group(Concat[leaf; NUL])` under Group/Repetition/Alternation and
   builds `Concat[leaf; NUL]` at top level.  Definitions only. *)
From Boreal Require Import Base.Prelude Spec.Regex.

Inductive wctx := WTop | WConcat | WOther.

Definition add_wide (c : wctx) (leaf : hir) : list hir :=
  match c with
  | WTop => [HConcat [leaf; HLit 0]]
  | WConcat => [leaf; HLit 0]
  | WOther => [HGroup (HConcat [leaf; HLit 0])]
  end.

(* returns the list of nodes pushed on the current stack level (one node, or two when spliced) *)
Fixpoint widen_in (c : wctx) (h : hir) {struct h} : list hir :=
  match h with
  | HDot | HLit _ | HMask _ _ _ | HClass _ => add_wide c h
  | HEmpty => [HEmpty]
  | HAssert StartLine | HAssert EndLine => [h]
  | HAssert _ => [HEmpty]
  | HRep h' k g => [HRep (last (widen_in WOther h') HEmpty) k g]
  | HGroup h' => [HGroup (last (widen_in WOther h') HEmpty)]
  | HConcat l =>
      [HConcat ((fix go (l : list hir) : list hir :=
                   match l with [] => [] | x :: r => widen_in WConcat x ++ go r end) l)]
  | HAlt l =>
      [HAlt ((fix go (l : list hir) : list hir :=
                match l with [] => [] | x :: r => widen_in WOther x ++ go r end) l)]
  end.

Definition widen_hir (h : hir) : hir := last (widen_in WTop h) HEmpty.

Fixpoint widen_bytes (u : list N) : list N :=
  match u with [] => [] | b :: r => b :: 0 :: widen_bytes r end.
