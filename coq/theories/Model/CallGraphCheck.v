(* Model/CallGraphCheck.v — call graphs with recursion guards, and the checker
   `guards_cut_all_cycles` run on the graph generated from /repo (Model/CallGraph.v).
   Definitions only; soundness is proved in Proofs/CallGraphProofs.v. *)
From Boreal Require Import Base.Prelude.

(* ---------------------------------------------------------------- counter flow inside a guarded function
   A guarded function as a small control-flow graph over *carriers* (the values that hold the recursion counter:
   the parser's `Input`s, the compiler's `&mut RuleCompiler`), extracted by translators/guardflow.py.  Each node
   carries a certificate: carrier -> counter relative to the counter on entry.  `check_prog` re-checks the
   certificate node by node; Proofs/CallGraphFlow.v proves that a checked certificate holds on every path. *)
Inductive ginstr :=
| INop
| IInc (v : nat)                          (* v.counter += 1 *)
| IDec (v : nat)                          (* v.counter -= 1 *)
| IBind (dst : nat) (srcs : list nat)     (* dst := the carrier handed back by a call fed with srcs *)
| ICall (callees : list N) (srcs : list nat)   (* functions referred to in an expression mentioning srcs *)
| IRetOk (v : nat)                        (* Ok((v, ..)) *)
| IRetErr.                                (* Err(..) / `?` *)
Record gnode := { gn_instr : ginstr; gn_succs : list nat; gn_cert : list (nat * nat) }.
Record gprog := {
  gp_fn : N;                   (* the guarded function *)
  gp_copy : option N;          (* its unguarded copy in the graph: callees reached while the increment is not in force *)
  gp_params : list nat;        (* carriers on entry *)
  gp_nodes : list gnode        (* node id = position; node 0 is the entry *)
}.

Definition env := list (nat * nat).
Fixpoint elook (e : env) (v : nat) : option nat :=
  match e with [] => None | (w, d) :: r => if Nat.eqb w v then Some d else elook r v end.
Definition eset (e : env) (v d : nat) : env := (v, d) :: e.

Definition all_eq (e : env) (srcs : list nat) : option nat :=
  match srcs with
  | [] => None
  | s :: r =>
      match elook e s with
      | Some d => if forallb (fun x => match elook e x with Some d' => Nat.eqb d' d | None => false end) r
                  then Some d else None
      | None => None
      end
  end.

(* abstract transfer on certificates; None = the step is not justified *)
Definition atransfer (i : ginstr) (e : env) : option env :=
  match i with
  | INop | ICall _ _ | IRetErr => Some e
  | IInc v => match elook e v with Some d => Some (eset e v (S d)) | None => None end
  | IDec v => match elook e v with Some (S d) => Some (eset e v d) | _ => None end
  | IBind dst srcs => match all_eq e srcs with Some d => Some (eset e dst d) | None => None end
  | IRetOk v => match elook e v with Some O => Some e | _ => None end     (* BALANCED: Ok hands back the entry counter *)
  end.
Definition sub_env (a b : env) : bool :=
  forallb (fun p => match elook b (fst p) with Some d => Nat.eqb d (snd p) | None => false end) a.
Definition check_node (p : gprog) (n : gnode) : bool :=
  match atransfer (gn_instr n) (gn_cert n) with
  | Some e' => forallb (fun s => match nth_error (gp_nodes p) s with
                                 | Some n' => sub_env (gn_cert n') e'
                                 | None => false
                                 end) (gn_succs n)
  | None => false
  end.
Definition init_env (p : gprog) (c : nat) : env := map (fun v => (v, c)) (gp_params p).
(* `balanced`: the certificate of the function is consistent, hence (soundness lemma) on every path the counter
   never goes below its value on entry and every Ok exit hands back exactly that value *)
Definition check_prog (p : gprog) : bool :=
  match gp_nodes p with
  | n0 :: _ => sub_env (gn_cert n0) (init_env p O)
  | [] => false
  end && forallb (check_node p) (gp_nodes p).

(* counter (relative to entry) with which the callees of a call node run: the smallest among the carriers the
   expression mentions; no carrier mentioned or unknown = 0 *)
Definition call_delta (cert : env) (srcs : list nat) : nat :=
  match srcs with
  | [] => O
  | _ => fold_right (fun s acc => match elook cert s with Some d => Nat.min d acc | None => O end) 1%nat srcs
  end.

Record cgraph := {
  cg_adj : list (N * list N);       (* function id, ids of the functions it may call *)
  cg_guards : list (N * N);         (* guarded function id, counter class *)
  cg_progs : list gprog             (* counter flow of the guarded functions of classes 0..2 *)
}.

Definition class_of (g : cgraph) (u : N) : option N :=
  match find (fun p => fst p =? u) (cg_guards g) with Some p => Some (snd p) | None => None end.
Definition guarded (g : cgraph) (u : N) : bool :=
  match class_of g u with Some _ => true | None => false end.
Definition succs (g : cgraph) (u : N) : list N :=
  match find (fun p => fst p =? u) (cg_adj g) with Some p => snd p | None => [] end.
Definition is_edge (g : cgraph) (u v : N) : bool := existsb (N.eqb v) (succs g u).

(* a call chain = the functions on the stack, outermost first *)
Fixpoint is_path (g : cgraph) (l : list N) : bool :=
  match l with
  | u :: ((v :: _) as r) => is_edge g u v && is_path g r
  | _ => true
  end.

(* ranks: a certificate that the graph without the guarded functions has no cycle *)
Definition rank_tbl := list (N * nat).
Definition rk (t : rank_tbl) (u : N) : nat :=
  match find (fun p => fst p =? u) t with Some p => snd p | None => O end.

Definition check_rank (g : cgraph) (t : rank_tbl) : bool :=
  forallb (fun p => guarded g (fst p)
                    || forallb (fun v => guarded g v || Nat.ltb (rk t v) (rk t (fst p))) (snd p))
          (cg_adj g).

(* rank = number of edges of the longest call path that avoids guarded functions *)
Definition step_rank (g : cgraph) (t : rank_tbl) : rank_tbl :=
  map (fun p => (fst p,
                 if guarded g (fst p) then O
                 else fold_right (fun v acc => if guarded g v then acc else Nat.max acc (S (rk t v))) O (snd p)))
      (cg_adj g).
Definition tbl_eqb (a b : rank_tbl) : bool :=
  list_eqb (fun x y => (fst x =? fst y) && Nat.eqb (snd x) (snd y)) a b.
Fixpoint iter_rank (g : cgraph) (fuel : nat) (t : rank_tbl) : rank_tbl :=
  match fuel with
  | O => t
  | S f => let t' := step_rank g t in if tbl_eqb t t' then t else iter_rank g f t'
  end.
Definition compute_rank (g : cgraph) : rank_tbl :=
  iter_rank g (S (length (cg_adj g))) (map (fun p => (fst p, O)) (cg_adj g)).

Definition classes_ok (g : cgraph) : bool := forallb (fun p => snd p <? 4) (cg_guards g).

(* the flow of a guarded function agrees with the graph: callees that run with the increment in force are
   successors of the guarded node, the others are successors of its unguarded copy *)
Definition prog_matches (g : cgraph) (p : gprog) : bool :=
  forallb (fun n => match gn_instr n with
                    | ICall cs srcs =>
                        if Nat.leb 1 (call_delta (gn_cert n) srcs)
                        then forallb (is_edge g (gp_fn p)) cs
                        else match gp_copy p with
                             | Some f' => forallb (is_edge g f') cs
                             | None => false
                             end
                    | _ => true
                    end) (gp_nodes p).
(* whoever calls the guarded function also calls its copy; the copy is not guarded *)
Definition copy_ok (g : cgraph) (p : gprog) : bool :=
  match gp_copy p with
  | None => true
  | Some f' => negb (guarded g f')
               && forallb (fun q => negb (existsb (N.eqb (gp_fn p)) (snd q)) || existsb (N.eqb f') (snd q)) (cg_adj g)
  end.
Definition progs_ok (g : cgraph) : bool :=
  forallb (fun p => check_prog p && prog_matches g p && copy_ok g p && guarded g (gp_fn p)) (cg_progs g)
  && forallb (fun q => (snd q =? 3) || existsb (fun p => gp_fn p =? fst q) (cg_progs g)) (cg_guards g).

(* THE CHECKER: every cycle of the call graph goes through a guarded function whose increment is in force, every
   guard belongs to one of the four counter classes, and every counter-based guard is balanced *)
Definition guards_cut_all_cycles (g : cgraph) : bool :=
  check_rank g (compute_rank g) && classes_ok g && progs_ok g.

Definition max_rank (t : rank_tbl) : nat := fold_right (fun p acc => Nat.max (snd p) acc) O t.
(* number of functions on the longest guard-free call path *)
Definition longest_unguarded (g : cgraph) : nat := S (max_rank (compute_rank g)).

Definition guard_count (g : cgraph) (l : list N) : nat := length (filter (guarded g) l).
Definition class_count (g : cgraph) (k : N) (l : list N) : nat :=
  length (filter (fun u => match class_of g u with Some c => c =? k | None => false end) l).

(* What a guard does: the counter of its class is incremented by every active guarded function of the
   class and a guarded function entered with the counter at its limit returns at once; so a call chain
   holds at most limit + 1 functions of each class (the last one being the one that refuses). *)
Definition respects (g : cgraph) (l0 l1 l2 l3 : nat) (chain : list N) : Prop :=
  (class_count g 0 chain <= S l0)%nat /\ (class_count g 1 chain <= S l1)%nat /\
  (class_count g 2 chain <= S l2)%nat /\ (class_count g 3 chain <= S l3)%nat.

(* What a guard does, operationally.  By the flow theorem a guarded function hands its callees the counter it
   was entered with plus one (callees of the unguarded copy get it unchanged), and everything else passes it on:
   the counter of class k on entry of a function is the number of guarded functions of class k below it on the
   stack.  A guarded function that finds its counter at the limit returns at once: it has no callee. *)
Fixpoint guards_pass (g : cgraph) (lim : N -> nat) (below rest : list N) : Prop :=
  match rest with
  | [] => True
  | u :: r =>
      (r <> [] -> forall k, class_of g u = Some k -> (class_count g k below < lim k)%nat)
      /\ guards_pass g lim (below ++ [u]) r
  end.
Definition lim4 (l0 l1 l2 l3 : nat) (k : N) : nat :=
  if k =? 0 then l0 else if k =? 1 then l1 else if k =? 2 then l2 else l3.

Definition depth_bound (g : cgraph) (l0 l1 l2 l3 : nat) : nat :=
  let gmax := (S l0 + S l1 + S l2 + S l3)%nat in
  (gmax + S gmax * longest_unguarded g)%nat.
