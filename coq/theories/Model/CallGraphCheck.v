(* Model/CallGraphCheck.v — call graphs with recursion guards, and the checker
   `guards_cut_all_cycles` run on the graph generated from /repo (Model/CallGraph.v).
   Definitions only; soundness is proved in Proofs/CallGraphProofs.v. *)
From Boreal Require Import Base.Prelude.

Record cgraph := {
  cg_adj : list (N * list N);       (* function id, ids of the functions it may call *)
  cg_guards : list (N * N)          (* guarded function id, counter class *)
}.

Definition class_of (g : cgraph) (u : N) : option N :=
  match find (fun p => fst p =? u) (cg_guards g) with Some p => Some (snd p) | None => None end.
Definition guarded (g : cgraph) (u : N) : bool :=
  match class_of g u with Some _ => true | None => false end.
Definition succs (g : cgraph) (u : N) : list N :=
  match find (fun p => fst p =? u) (cg_adj g) with Some p => snd p | None => [] end.
Definition is_edge (g : cgraph) (u v : N) : bool := existsb (N.eqb v) (succs g u).

(* a call chain = the functions on the stack, outermost first *)
Fixpoint is_path (g : cgraph) (l : list N) : bool :=
  match l with
  | u :: ((v :: _) as r) => is_edge g u v && is_path g r
  | _ => true
  end.

(* ranks: a certificate that the graph without the guarded functions has no cycle *)
Definition rank_tbl := list (N * nat).
Definition rk (t : rank_tbl) (u : N) : nat :=
  match find (fun p => fst p =? u) t with Some p => snd p | None => O end.

Definition check_rank (g : cgraph) (t : rank_tbl) : bool :=
  forallb (fun p => guarded g (fst p)
                    || forallb (fun v => guarded g v || Nat.ltb (rk t v) (rk t (fst p))) (snd p))
          (cg_adj g).

(* rank = number of edges of the longest call path that avoids guarded functions *)
Definition step_rank (g : cgraph) (t : rank_tbl) : rank_tbl :=
  map (fun p => (fst p,
                 if guarded g (fst p) then O
                 else fold_right (fun v acc => if guarded g v then acc else Nat.max acc (S (rk t v))) O (snd p)))
      (cg_adj g).
Definition tbl_eqb (a b : rank_tbl) : bool :=
  list_eqb (fun x y => (fst x =? fst y) && Nat.eqb (snd x) (snd y)) a b.
Fixpoint iter_rank (g : cgraph) (fuel : nat) (t : rank_tbl) : rank_tbl :=
  match fuel with
  | O => t
  | S f => let t' := step_rank g t in if tbl_eqb t t' then t else iter_rank g f t'
  end.
Definition compute_rank (g : cgraph) : rank_tbl :=
  iter_rank g (S (length (cg_adj g))) (map (fun p => (fst p, O)) (cg_adj g)).

Definition classes_ok (g : cgraph) : bool := forallb (fun p => snd p <? 4) (cg_guards g).

(* THE CHECKER: every cycle of the call graph goes through a guarded function, and every guard
   belongs to one of the four counter classes *)
Definition guards_cut_all_cycles (g : cgraph) : bool :=
  check_rank g (compute_rank g) && classes_ok g.

Definition max_rank (t : rank_tbl) : nat := fold_right (fun p acc => Nat.max (snd p) acc) O t.
(* number of functions on the longest guard-free call path *)
Definition longest_unguarded (g : cgraph) : nat := S (max_rank (compute_rank g)).

Definition guard_count (g : cgraph) (l : list N) : nat := length (filter (guarded g) l).
Definition class_count (g : cgraph) (k : N) (l : list N) : nat :=
  length (filter (fun u => match class_of g u with Some c => c =? k | None => false end) l).

(* What a guard does: the counter of its class is incremented by every active guarded function of the
   class and a guarded function entered with the counter at its limit returns at once; so a call chain
   holds at most limit + 1 functions of each class (the last one being the one that refuses). *)
Definition respects (g : cgraph) (l0 l1 l2 l3 : nat) (chain : list N) : Prop :=
  (class_count g 0 chain <= S l0)%nat /\ (class_count g 1 chain <= S l1)%nat /\
  (class_count g 2 chain <= S l2)%nat /\ (class_count g 3 chain <= S l3)%nat.

Definition depth_bound (g : cgraph) (l0 l1 l2 l3 : nat) : nat :=
  let gmax := (S l0 + S l1 + S l2 + S l3)%nat in
  (gmax + S gmax * longest_unguarded g)%nat.
