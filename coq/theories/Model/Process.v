(* Model/Process.v — boreal/src/scanner/process/sys/linux.rs, logic only.
   `CurrentRegion::{region_description, update_to_next_chunk, fetch (length and
   page-source decision)}`, `round_to_page_size`, `LinuxProcessMemory::{next_position,
   next, fetch, reset}`.  Definitions only; proofs are in Proofs/ProcessProofs.v. *)
From Boreal Require Import Base.Prelude.

Record region := { r_start : N; r_len : N;
                   r_backed : bool (* a backing file could be opened *);
                   r_foff : N      (* offset of the mapping in the file *);
                   r_file : list N (* content of the backing file *) }.
Definition r_fsize (r : region) : N := nlen (r_file r).
Record cur := { c_reg : region; c_off : N }.

Record mparams := { chunk : option N; max_fetch : N; page : N }.

(* maps cursor: lines still to read, the current region, and the whole listing
   (what `rewind` makes readable again) *)
Record pstate := { pending : list region; current : option cur; listing : list region }.

Definition pinit (l : list region) : pstate :=
  {| pending := l; current := None; listing := l |}.

Definition round_page (v p : N) : N :=
  let r := v - v mod p in if r =? 0 then p else r.

(* CurrentRegion::region_description *)
Definition describe (prm : mparams) (c : cur) : N * N :=
  let st := sat_add (r_start (c_reg c)) (c_off c) in
  let ln := r_len (c_reg c) - c_off c in
  match chunk prm with
  | Some cs => (st, N.min (round_page cs (page prm)) ln)
  | None => (st, ln)
  end.

(* The step used to move to the next chunk.
   After "fix: advance the chunk cursor by the page-rounded chunk size" it is the
   rounded size (the same value `describe` uses for the length). *)
Definition chunk_step (prm : mparams) (cs : N) : N := round_page cs (page prm).
(* The pinned tree advanced by the raw value (known finding C19-chunk-step, fixed). *)
Definition chunk_step_pinned (prm : mparams) (cs : N) : N := cs.

(* CurrentRegion::update_to_next_chunk (as called from next_position) *)
Definition advance_with (step : mparams -> N -> N) (prm : mparams) (c : cur) : option cur :=
  match chunk prm with
  | Some cs =>
      let no := sat_add (c_off c) (step prm cs) in
      if no <? r_len (c_reg c) then Some {| c_reg := c_reg c; c_off := no |} else None
  | None => None
  end.
Definition advance := advance_with chunk_step.

(* LinuxProcessMemory::next_position *)
Definition next_position_with step (prm : mparams) (s : pstate) : pstate :=
  match match current s with Some c => advance_with step prm c | None => None end with
  | Some c' => {| pending := pending s; current := Some c'; listing := listing s |}
  | None =>
      match pending s with
      | [] => {| pending := []; current := None; listing := listing s |}
      | r :: rest =>
          {| pending := rest; current := Some {| c_reg := r; c_off := 0 |}; listing := listing s |}
      end
  end.
Definition next_position := next_position_with chunk_step.

Inductive pop := PNext | PFetch | PReset.

(* page-source decision of CurrentRegion::fetch for file-backed regions:
   true = the page is re-read from /proc/pid/mem *)
Definition page_from_mem (bits4 : N) : bool :=
  negb (N.land bits4 12 =? 0) && (N.land bits4 2 =? 0).
(* the page is in RAM or in swap: the process has touched it *)
Definition page_present (bits4 : N) : bool := negb (N.land bits4 12 =? 0).
(* `partial_page_index`: the page holding the end of the backing file, when the file ends inside the
   fetched chunk (`max_length < length`) and inside a page.  What the process wrote in that page past
   the end of the file is in the page only (a shared mapping keeps it "file-backed"), so the page is
   re-read from /proc/pid/mem whenever it is present. *)
Definition partial_page (pg maxl ln : N) : option N :=
  if (maxl <? ln) && negb (maxl mod pg =? 0) then Some (maxl / pg) else None.

Inductive pout :=
| ONone                       (* next: end of listing; fetch: failure *)
| ODesc (start len : N)       (* next *)
| OFetched (start : N) (bytes : list N)    (* fetch *)
| OUnit.

(* ---- the files standing for /proc/pid/mem and /proc/pid/pagemap ---- *)
Record procfs := { mem_size : N; mem_segs : list (N * list N) (* written segments; zero elsewhere *);
                   pm_entries : N; pm_bits : list (N * N) (* page index -> top 4 bits; 0 elsewhere *) }.

Definition nseq (start : N) (len : N) : list N := map (fun i => start + N.of_nat i) (seq 0 (N.to_nat len)).

Definition zeros (n : N) : list N := repeat 0 (N.to_nat n).

(* replace the bytes of buf from position at_ by pg *)
Definition splice (buf : list N) (at_ : N) (pg : list N) : list N :=
  firstn (N.to_nat at_) buf ++ pg ++ skipn (N.to_nat at_ + length pg) buf.

(* bytes [a, a+len) of a sparse file: zeros overlaid with the written segments *)
Definition overlay (a len : N) (buf : list N) (seg : N * list N) : list N :=
  let '(base, bs) := seg in
  let lo := N.max a base in
  let hi := N.min (a + len) (base + nlen bs) in
  if lo <? hi then splice buf (lo - a) (firstn (N.to_nat (hi - lo)) (skipn (N.to_nat (lo - base)) bs))
  else buf.

(* read_exact on /proc/pid/mem at `a` *)
Definition read_mem (fs : procfs) (a len : N) : option (list N) :=
  if a + len <=? mem_size fs then Some (fold_left (overlay a len) (mem_segs fs) (zeros len)) else None.

Fixpoint assoc_bits (l : list (N * N)) (i : N) : N :=
  match l with [] => 0 | (k, v) :: r => if k =? i then v else assoc_bits r i end.

(* fetch: length; `describe` gives the chunk, the cap is max_fetched_region_size rounded to pages *)
Definition fetch_len (prm : mparams) (c : cur) : N :=
  N.min (snd (describe prm c)) (round_page (max_fetch prm) (page prm)).

(* the page loop of CurrentRegion::fetch: page i of the chunk is re-read when
   `page_bits & 0xC != 0 && !(page_bits & 0x2 != 0 && partial_page_index != Some(i))` *)
Definition page_reread (fs : procfs) (first_page : N) (partial : option N) (i : N) : bool :=
  let b := assoc_bits (pm_bits fs) (first_page + i) in
  page_from_mem b || (page_present b && match partial with Some p => p =? i | None => false end).

Fixpoint override_pages (fs : procfs) (pg : N) (src : N -> bool) (start : N) (idxs : list N) (buf : list N)
  : option (list N) :=
  match idxs with
  | [] => Some buf
  | i :: rest =>
      if src i then
        match read_mem fs (start + i * pg) pg with
        | Some bytes => override_pages fs pg src start rest (splice buf (i * pg) bytes)
        | None => None
        end
      else override_pages fs pg src start rest buf
  end.

Definition model_fetch (fs : procfs) (prm : mparams) (c : cur) : pout :=
  let st := fst (describe prm c) in
  let ln := fetch_len prm c in
  if r_backed (c_reg c) then
    let off := c_off c + r_foff (c_reg c) in
    if r_fsize (c_reg c) <? off then ONone
    else
      let maxl := r_fsize (c_reg c) - off in
      let nfile := N.min maxl ln in
      let buf0 := firstn (N.to_nat nfile) (skipn (N.to_nat off) (r_file (c_reg c))) ++ zeros (ln - nfile) in
      let npages := ln / page prm in
      let first_page := st / page prm in
      if (0 <? npages) && (pm_entries fs <? first_page + npages) then ONone
      else match override_pages fs (page prm) (page_reread fs first_page (partial_page (page prm) maxl ln)) st
                                (nseq 0 npages) buf0 with
           | Some b => OFetched st b
           | None => ONone
           end
  else match read_mem fs st ln with
       | Some b => OFetched st b
       | None => ONone
       end.

(* reset: after "fix: forget the current region when the process memory walk is reset" *)
Definition model_reset (s : pstate) : pstate :=
  {| pending := listing s; current := None; listing := listing s |}.
Definition model_reset_pinned (s : pstate) : pstate :=
  {| pending := listing s; current := current s; listing := listing s |}.

Definition pstep (mem_size : procfs) (prm : mparams) (s : pstate) (o : pop) : pstate * pout :=
  match o with
  | PNext =>
      let s' := next_position prm s in
      (s', match current s' with
           | Some c => let d := describe prm c in ODesc (fst d) (snd d)
           | None => ONone end)
  | PFetch =>
      (s, match current s with Some c => model_fetch mem_size prm c | None => ONone end)
  | PReset => (model_reset s, OUnit)
  end.

Fixpoint prun (mem_size : procfs) (prm : mparams) (s : pstate) (ops : list pop) : list pout :=
  match ops with
  | [] => []
  | o :: rest => let '(s', out) := pstep mem_size prm s o in out :: prun mem_size prm s' rest
  end.

(* The listing produced by calling `next` until it returns None, with fuel. *)
Fixpoint walk_with step (fuel : nat) (prm : mparams) (s : pstate) : list (N * N) :=
  match fuel with
  | O => []
  | S f =>
      let s' := next_position_with step prm s in
      match current s' with
      | Some c => describe prm c :: walk_with step f prm s'
      | None => []
      end
  end.
Definition walk := walk_with chunk_step.

(* ---- equality of outputs, for the correspondence ---- *)
Definition pout_eqb (a b : pout) : bool :=
  match a, b with
  | ONone, ONone => true
  | OUnit, OUnit => true
  | ODesc s l, ODesc s' l' => (s =? s') && (l =? l')
  | OFetched s l, OFetched s' l' => (s =? s') && list_eqb N.eqb l l'
  | _, _ => false
  end.
