(* Model/MathMod.v — boreal/src/module/math.rs, function for function.
   f64 accumulators that only ever hold integers (SerialCorrelation, MonteCarloPi coordinates) are modelled by
   exact integers (exact below 2^53; see notes/C16.md for the input sizes for which that is guaranteed); a final
   division is modelled by the exact rational; NaN (0/0) is `None`, which the evaluator turns into undefined
   (evaluator/module.rs module_value_to_expr_value).
   MonteCarloPi is modelled after fix 079b183 (`mc_update`, carrying an unfinished group) and as on the pinned
   tree (`mc_update_pinned`). *)
From Coq Require Import QArith Qabs Qreduction.
From Boreal Require Import Base.Prelude Spec.MathSpec Model.ModFuncs.
Open Scope N_scope.

(* trait MathDigest: update over slices, finalize : Option<f64> *)
Record mdigest := { md_state : Type; md_init : md_state; md_update : md_state -> list N -> md_state;
                    md_finalize : md_state -> option fval }.

Definition opt_float (o : option fval) : mres := match o with Some f => RFloat f | None => RUndef end.

Definition compute_from_bytes (d : mdigest) (s : list N) : mres :=
  opt_float (md_finalize d (md_update d (md_init d) s)).

Definition compute_from_mem (d : mdigest) (m : memory) (offset length : Z) : mres :=
  match start_end offset length with
  | None => RUndef
  | Some (s, e) =>
      match on_range (md_update d) m s e (md_init d) with
      | OrOk st => opt_float (md_finalize d st)
      | OrNone => RUndef
      | OrPanic => RPanic
      end
  end.

Definition digest_call (d : mdigest) (m : memory) (args : list arg) : mres :=
  match args with
  | AStr s :: _ => compute_from_bytes d s
  | AInt offset :: AInt length :: _ => compute_from_mem d m offset length
  | _ => RUndef
  end.

(* ---- Mean: u64 / usize saturating sums *)
Definition mean_d : mdigest :=
  {| md_state := N * N; md_init := (0, 0);
     md_update := fun st data =>
       (fold_left (fun acc b => sat_add acc b) data (fst st), sat_add (snd st) (nlen data));
     md_finalize := fun st =>
       if snd st =? 0 then None (* 0/0 *) else Some (fq (qdiv_n (NQ (fst st)) (snd st))) |}.

(* ---- SerialCorrelation *)
Record scc_state := { scct1 : Z; scct2 : Z; scct3 : Z; sprev : Z; sfirst : N; sfirst_range : bool; slast : N;
                      snb : N }.
Definition scc_init : scc_state :=
  {| scct1 := 0; scct2 := 0; scct3 := 0; sprev := 0; sfirst := 0; sfirst_range := true; slast := 0; snb := 0 |}.

Definition scc_byte (st : scc_state) (b : N) : scc_state :=
  let c := Z.of_N b in
  {| scct1 := scct1 st + sprev st * c; scct2 := scct2 st + c; scct3 := scct3 st + c * c; sprev := c;
     sfirst := sfirst st; sfirst_range := sfirst_range st; slast := slast st; snb := snb st |}%Z.

Definition scc_update (st : scc_state) (data : list N) : scc_state :=
  let st1 :=
    match data with
    | [] => st
    | b0 :: _ =>
        {| scct1 := scct1 st; scct2 := scct2 st; scct3 := scct3 st; sprev := sprev st;
           sfirst := if sfirst_range st then b0 else sfirst st; sfirst_range := false;
           slast := last data 0; snb := snb st |}
    end in
  let st2 := fold_left scc_byte data st1 in
  {| scct1 := scct1 st2; scct2 := scct2 st2; scct3 := scct3 st2; sprev := sprev st2; sfirst := sfirst st2;
     sfirst_range := sfirst_range st2; slast := slast st2; snb := snb st2 + nlen data |}.

Definition scc_finalize (st : scc_state) : option fval :=
  let t1 := if 0 <? snb st then (scct1 st + Z.of_N (sfirst st * slast st))%Z else scct1 st in
  let t2 := (scct2 st * scct2 st)%Z in
  let n := Z.of_N (snb st) in
  let scc := (n * scct3 st - t2)%Z in
  Some (if (scc =? 0)%Z then fq (inject_Z (-100000)) else fq (inject_Z (n * t1 - t2) / inject_Z scc)%Q).

Definition scc_d : mdigest :=
  {| md_state := scc_state; md_init := scc_init; md_update := scc_update; md_finalize := scc_finalize |}.

(* ---- MonteCarloPi *)
Record mc_state := { inmount : N; mcount : N; pending : list N (* pending[..pending_len] *) }.
Definition mc_init : mc_state := {| inmount := 0; mcount := 0; pending := [] |}.

Definition mc_add_group (st : mc_state) (w : list N) (pend : list N) : mc_state :=
  {| inmount := if in_circle w then inmount st + 1 else inmount st; mcount := mcount st + 1; pending := pend |}.

(* data.chunks_exact(6): groups, then the remainder becomes `pending` *)
Fixpoint mc_chunks (st : mc_state) (data : list N) {struct data} : mc_state :=
  match data with
  | a :: b :: c :: d :: e :: g :: r => mc_chunks (mc_add_group st [a; b; c; d; e; g] []) r
  | rem => {| inmount := inmount st; mcount := mcount st; pending := rem |}
  end.

Definition mc_update (st : mc_state) (data : list N) : mc_state :=
  match pending st with
  | [] => mc_chunks st data
  | p =>
      let n := Nat.min (6 - length p) (length data) in
      let p' := p ++ firstn n data in
      let rest := skipn n data in
      if (length p' <? 6)%nat then {| inmount := inmount st; mcount := mcount st; pending := p' |}
      else mc_chunks (mc_add_group st p' []) rest
  end.

(* pinned tree: every slice is chunked on its own, the remainder is dropped *)
Definition mc_update_pinned (st : mc_state) (data : list N) : mc_state :=
  let st' := mc_chunks st data in
  {| inmount := inmount st'; mcount := mcount st'; pending := [] |}.

Definition mc_finalize (st : mc_state) : option fval :=
  if mcount st =? 0 then None else Some (FMonte (inmount st) (mcount st)).

Definition mc_d : mdigest :=
  {| md_state := mc_state; md_init := mc_init; md_update := mc_update; md_finalize := mc_finalize |}.
Definition mc_pinned_d : mdigest :=
  {| md_state := mc_state; md_init := mc_init; md_update := mc_update_pinned; md_finalize := mc_finalize |}.

(* ---- Distribution *)
Record distrib := { counters : list N; nb_values : N }.
Definition zeros256 : list N := map (fun _ => 0) all_bytes.
Definition dist_init : distrib := {| counters := zeros256; nb_values := 0 |}.

Fixpoint incr_at (i : nat) (l : list N) : list N :=
  match l with
  | [] => []
  | x :: r => match i with O => (x + 1) :: r | S i' => x :: incr_at i' r end
  end.

Definition dist_update (st : distrib) (data : list N) : distrib :=
  {| counters := fold_left (fun cs b => incr_at (N.to_nat b) cs) data (counters st);
     nb_values := nb_values st + nlen data |}.

Definition distribution_from_bytes (s : list N) : distrib := dist_update dist_init s.

Inductive dres := DOk (d : distrib) | DNone | DPanic.

Definition distribution (m : memory) (start length : N) : dres :=
  match checked_add start length with
  | None => DNone
  | Some e => match on_range dist_update m start e dist_init with
              | OrOk d => DOk d
              | OrNone => DNone
              | OrPanic => DPanic
              end
  end.

(* `offset.try_into().ok()?; length.try_into().ok()?; distribution(ctx, start, length)?` *)
Definition distribution_zz (m : memory) (offset length : Z) : dres :=
  match to_usize offset with
  | None => DNone
  | Some s => match to_usize length with None => DNone | Some n => distribution m s n end
  end.

Definition with_dist (d : dres) (k : distrib -> mres) : mres :=
  match d with DOk x => k x | DNone => RUndef | DPanic => RPanic end.

(* compute_deviation *)
Fixpoint enumerate_from (i : N) (l : list N) : list (N * N) :=
  match l with [] => [] | x :: r => (i, x) :: enumerate_from (i + 1) r end.

Definition compute_deviation (d : distrib) (mean : Q) : mres :=
  let terms := map (fun cn => (Qabs (NQ (fst cn) - mean) * NQ (snd cn))%Q)
                   (filter (fun cn => negb (snd cn =? 0)) (enumerate_from 0 (counters d))) in
  if nb_values d =? 0 then RUndef (* 0.0 / 0.0 *) else RFloat (fq (qdiv_n (sumq terms) (nb_values d))).

Definition compute_entropy (d : distrib) : mres := RFloat (FEntropy (counters d) (nb_values d)).

Definition deviation_call (m : memory) (args : list arg) : mres :=
  match args with
  | AStr s :: AFlt mean :: _ => compute_deviation (distribution_from_bytes s) mean
  | AInt offset :: AInt length :: AFlt mean :: _ =>
      with_dist (distribution_zz m offset length) (fun d => compute_deviation d mean)
  | _ => RUndef
  end.

Definition entropy_call (m : memory) (args : list arg) : mres :=
  match args with
  | AStr s :: _ => compute_entropy (distribution_from_bytes s)
  | AInt offset :: AInt length :: _ => with_dist (distribution_zz m offset length) compute_entropy
  | _ => RUndef
  end.

(* count / percentage / mode: (byte, offset, length) | (byte);  (offset, length) | () *)
Definition dist_of_args (m : memory) (rest : list arg) : dres :=
  match rest with
  | AInt offset :: AInt length :: _ => distribution_zz m offset length
  | [] => match get_direct m with Some l => DOk (distribution_from_bytes l) | None => DNone end
  | _ => DNone
  end.

(* counters.get(byte) *)
Definition counters_get (cs : list N) (b : N) : option N :=
  if b <? nlen cs then nth_error cs (N.to_nat b) else None.

Definition count_call (m : memory) (args : list arg) : mres :=
  match args with
  | AInt byte :: rest =>
      match to_usize byte with
      | None => RUndef
      | Some b => with_dist (dist_of_args m rest) (fun d =>
                    match counters_get (counters d) b with
                    | Some v => RInt (Z.of_N v)
                    | None => RUndef
                    end)
      end
  | _ => RUndef
  end.

Definition percentage_call (m : memory) (args : list arg) : mres :=
  match args with
  | AInt byte :: rest =>
      match to_usize byte with
      | None => RUndef
      | Some b => with_dist (dist_of_args m rest) (fun d =>
                    match counters_get (counters d) b with
                    | Some v => if nb_values d =? 0 then RUndef (* 0/0 *)
                                else RFloat (fq (qdiv_n (NQ v) (nb_values d)))
                    | None => RUndef
                    end)
      end
  | _ => RUndef
  end.

(* .iter().enumerate().rev().max_by_key(|(_, n)| *n): the last maximum in iteration order *)
Definition max_by_key_last (l : list (N * N)) : option (N * N) :=
  match l with
  | [] => None
  | x :: r => Some (fold_left (fun best y => if snd best <=? snd y then y else best) r x)
  end.

Definition mode_call (m : memory) (args : list arg) : mres :=
  with_dist (dist_of_args m args) (fun d =>
    match max_by_key_last (rev (enumerate_from 0 (counters d))) with
    | Some (i, _) => RInt (Z.of_N i)
    | None => RUndef
    end).

(* min / max / abs / to_number / to_string *)
Definition u64_of (z : Z) : Z := if (z <? 0)%Z then (z + two64)%Z else z.   (* `as u64` *)

Definition min_call (args : list arg) : mres :=
  match args with
  | AInt a :: AInt b :: _ => RInt (if (u64_of a <? u64_of b)%Z then a else b)
  | _ => RUndef
  end.
Definition max_call (args : list arg) : mres :=
  match args with
  | AInt a :: AInt b :: _ => RInt (if (u64_of b <? u64_of a)%Z then a else b)
  | _ => RUndef
  end.
Definition abs_call (args : list arg) : mres :=
  match args with
  | AInt v :: _ => if (v =? -9223372036854775808)%Z then RUndef (* checked_abs *) else RInt (Z.abs v)
  | _ => RUndef
  end.
Definition to_number_call (args : list arg) : mres :=
  match args with ABool b :: _ => RInt (if b then 1 else 0)%Z | _ => RUndef end.

(* format!("{value}"), {value:x}, {value:o} — core::fmt by contract *)
Definition to_string_call (args : list arg) : mres :=
  match args with
  | AInt v :: rest =>
      let base := match rest with [] => Some None | AInt b :: _ => Some (Some b) | _ => None end in
      match base with
      | None => RUndef
      | Some None | Some (Some 10%Z) =>
          RBytes (if (v <? 0)%Z then 45 :: digits 10 (Z.to_N (- v)) else digits 10 (Z.to_N v))
      | Some (Some 16%Z) => RBytes (digits 16 (Z.to_N (u64_of v)))
      | Some (Some 8%Z) => RBytes (digits 8 (Z.to_N (u64_of v)))
      | Some (Some _) => RUndef
      end
  | _ => RUndef
  end.
