(* Model/Atoms.v — boreal/src/atoms.rs: byte_rank, atom_rank, pick_atom_in_literal,
   atom_quality_from_literal.  Definitions only. *)
From Boreal Require Import Base.Prelude Base.ListX Base.Bytes Base.Consts.

Definition byte_rank (b : N) : N := nnth 20 b BYTE_RANK_TABLE.

(* atom_rank, over a byte-rank function and the three tuning constants; `quality -= …` is a u32
   subtraction (N's truncated subtraction never fires for the translated table: every rank is >= the
   penalty factor) *)
Definition atom_rank_with (brank : N -> N) (common : list N) (penalty bonus : N) (atom : bytes) : N :=
  let quality := nsum (map brank atom) in
  let nb_uniq := nlen (dedup N.eqb atom) in
  if (nb_uniq =? 1) && existsb (fun c => memb N.eqb c atom) common
  then quality - penalty * nlen atom
  else quality + bonus * nb_uniq.
Definition atom_rank : bytes -> N :=
  atom_rank_with byte_rank ATOM_COMMON_BYTES ATOM_UNIFORM_PENALTY ATOM_UNIQ_BONUS.

(* lit.windows(ATOM_SIZE) *)
Definition windows (lit : bytes) : list bytes :=
  map (fun i => slice i (i + ATOM_SIZE) lit) (iota 0 (nlen lit + 1 - ATOM_SIZE)).

(* Iterator::max_by_key returns the *last* maximal element: (index, key) *)
Fixpoint last_max_from (i : N) (best_i best : N) (ks : list N) : N :=
  match ks with
  | [] => best_i
  | k :: ks' => if best <=? k then last_max_from (i + 1) i k ks' else last_max_from (i + 1) best_i best ks'
  end.
Definition last_max_idx (ks : list N) : N :=
  match ks with [] => 0 | k :: ks' => last_max_from 1 0 k ks' end.

Definition pick_atom_with (rank : bytes -> N) (lit : bytes) : N * N :=
  if nlen lit <=? ATOM_SIZE then (0, 0)
  else let i := last_max_idx (map rank (windows lit)) in (i, nlen lit - i - ATOM_SIZE).
Definition pick_atom_in_literal : bytes -> N * N := pick_atom_with atom_rank.

Definition atom_quality_from_literal (lit : bytes) : N :=
  if nlen lit <=? ATOM_SIZE then atom_rank lit
  else fold_right N.max 0 (map atom_rank (windows lit)).

(* the atom itself: lit[start .. len - end] *)
Definition atom_of (lit : bytes) : bytes :=
  let '(s, e) := pick_atom_in_literal lit in slice s (nlen lit - e) lit.
