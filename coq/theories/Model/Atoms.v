(* Model/Atoms.v — boreal/src/atoms.rs: byte_rank, atom_rank, pick_atom_in_literal,
   atom_quality_from_literal.  Definitions only. *)
From Boreal Require Import Base.Prelude Base.ListX Base.Bytes Base.Consts.

Definition byte_rank (b : N) : N := nnth 20 b BYTE_RANK_TABLE.

(* atom_rank; `quality -= …` is a u32 subtraction (N's truncated subtraction never fires for the
   translated table: every rank is >= the penalty factor, lemma atom_rank_no_underflow) *)
Definition atom_rank (atom : bytes) : N :=
  let quality := nsum (map byte_rank atom) in
  let nb_uniq := nlen (dedup N.eqb atom) in
  if (nb_uniq =? 1) && existsb (fun c => memb N.eqb c atom) ATOM_COMMON_BYTES
  then quality - ATOM_UNIFORM_PENALTY * nlen atom
  else quality + ATOM_UNIQ_BONUS * nb_uniq.

(* lit.windows(ATOM_SIZE) *)
Definition windows (lit : bytes) : list bytes :=
  map (fun i => slice i (i + ATOM_SIZE) lit) (iota 0 (nlen lit + 1 - ATOM_SIZE)).

(* Iterator::max_by_key returns the *last* maximal element: (index, key) *)
Fixpoint last_max_from (i : N) (best_i best : N) (ks : list N) : N :=
  match ks with
  | [] => best_i
  | k :: ks' => if best <=? k then last_max_from (i + 1) i k ks' else last_max_from (i + 1) best_i best ks'
  end.
Definition last_max_idx (ks : list N) : N :=
  match ks with [] => 0 | k :: ks' => last_max_from 1 0 k ks' end.

Definition pick_atom_in_literal (lit : bytes) : N * N :=
  if nlen lit <=? ATOM_SIZE then (0, 0)
  else let i := last_max_idx (map atom_rank (windows lit)) in (i, nlen lit - i - ATOM_SIZE).

Definition atom_quality_from_literal (lit : bytes) : N :=
  if nlen lit <=? ATOM_SIZE then atom_rank lit
  else fold_right N.max 0 (map atom_rank (windows lit)).

(* the atom itself: lit[start .. len - end] *)
Definition atom_of (lit : bytes) : bytes :=
  let '(s, e) := pick_atom_in_literal lit in slice s (nlen lit - e) lit.
