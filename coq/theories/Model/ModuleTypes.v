(* Model/ModuleTypes.v — module types, module values, the compile-time type check of module value uses and the
   scan-time evaluation of the compiled operations.  Definitions only.

   Rust anchors:
     mtype / mvalue          boreal/src/module/mod.rs           enum Type, enum Value
     ety, top, type_step     boreal/src/compiler/module.rs      ModuleUseKind::{subfield,subscript,function_call}
                                                                 (Dynamic / StaticFunction kinds), check_all_arguments_types,
                                                                 arguments_types_are_equal, module_type_to_expr_type,
                                                                 ModuleUse::{into_expression,into_iterator_expression}
     vop, model_evaluate_ops boreal/src/evaluator/module.rs     evaluate_ops, module_value_to_expr_value,
                                                                 expr_value_to_module_value
   HashMap<&str,_> / HashMap<Vec<u8>,_> are association lists looked up by the first matching key (the maps the
   modules build have unique keys; the harness prints them sorted). *)
From Coq Require Import String Ascii.
From Boreal Require Import Base.Prelude Base.Res.

(* ---------------------------------------------------------------- module::Type *)
Inductive mtype : Type :=
| TInteger
| TFloat
| TBytes
| TRegex
| TBoolean
| TObject (fields : list (string * mtype))
| TArray (elem : mtype)
| TDict (elem : mtype)
| TFunction (args : list (list mtype)) (ret : mtype).

(* ---------------------------------------------------------------- evaluator::Value (primitive expression values) *)
Inductive prim : Type :=
| PInteger (z : Z)
| PFloat (bits : N)          (* IEEE-754 binary64 bit pattern *)
| PBytes (b : list N)
| PRegex (id : N)
| PBoolean (b : bool).

(* ---------------------------------------------------------------- module::Value
   Value::Function holds `Arc<dyn Fn(&mut EvalContext, Vec<Value>) -> Option<Value>>`.  The only arguments the
   evaluator ever passes are images of primitive expression values (expr_value_to_module_value), so a function is
   modelled by its graph on lists of primitives (the EvalContext — scanned memory and module data — is fixed during
   one evaluation and is part of the function). *)
Inductive mvalue : Type :=
| VInteger (z : Z)
| VFloat (bits : N)
| VBytes (b : list N)
| VRegex (id : N)
| VBoolean (b : bool)
| VObject (fields : list (string * mvalue))
| VArray (elems : list mvalue)
| VDict (entries : list (list N * mvalue))
| VFunction (f : list prim -> option mvalue)
| VUndefined.

(* ---------------------------------------------------------------- lookups *)
Fixpoint assoc {A} (k : string) (l : list (string * A)) : option A :=
  match l with
  | [] => None
  | (k', v) :: l' => if String.eqb k k' then Some v else assoc k l'
  end.

Definition bytes_eqb (a b : list N) : bool := list_eqb N.eqb a b.

Fixpoint dict_get {A} (k : list N) (l : list (list N * A)) : option A :=
  match l with
  | [] => None
  | (k', v) :: l' => if bytes_eqb k k' then Some v else dict_get k l'
  end.

(* slice::get (structural on the list: indexes are attacker-chosen and may be huge) *)
Fixpoint vec_get {A} (l : list A) (i : N) : option A :=
  match l with
  | [] => None
  | x :: l' => if i =? 0 then Some x else vec_get l' (N.pred i)
  end.

(* ---------------------------------------------------------------- compile time: compiler/module.rs *)
(* compiler::expression::Type *)
Inductive ety : Type := EInteger | EFloat | EBytes | ERegex | EBoolean.

Definition ety_eqb (a b : ety) : bool :=
  match a, b with
  | EInteger, EInteger | EFloat, EFloat | EBytes, EBytes | ERegex, ERegex | EBoolean, EBoolean => true
  | _, _ => false
  end.

(* module_type_to_expr_type *)
Definition module_type_to_expr_type (t : mtype) : option ety :=
  match t with
  | TInteger => Some EInteger
  | TFloat => Some EFloat
  | TBytes => Some EBytes
  | TRegex => Some ERegex
  | TBoolean => Some EBoolean
  | _ => None
  end.

(* arguments_types_are_equal *)
Fixpoint arguments_types_are_equal (valid : list mtype) (actual : list ety) : bool :=
  match valid, actual with
  | [], [] => true
  | v :: valid', a :: actual' =>
      match module_type_to_expr_type v with
      | Some e => ety_eqb e a && arguments_types_are_equal valid' actual'
      | None => false
      end
  | _, _ => false
  end.

(* check_all_arguments_types *)
Definition check_all_arguments_types (valid_vec : list (list mtype)) (actual : list ety) : bool :=
  match valid_vec, actual with
  | [], [] => true
  | _, _ => existsb (fun valid => arguments_types_are_equal valid actual) valid_vec
  end.

(* One identifier operation as the compiler sees it: the subscript / argument expressions have been compiled
   (compile_expression) and only their types matter. *)
Inductive top : Type :=
| TopSubfield (name : string)
| TopSubscript (ty : ety)
| TopCall (args : list ety).

(* ModuleUseKind::{subfield, subscript, function_call} for the Dynamic and StaticFunction kinds: Some ty' = Ok with
   current_type := ty'; None = a TypeError (UnknownSubfield / WrongType / WrongIndexType / WrongFunctionArguments all
   become a CompilationError). *)
Definition type_step (ty : mtype) (op : top) : option mtype :=
  match op with
  | TopSubfield name =>
      match ty with
      | TObject fields => assoc name fields
      | _ => None
      end
  | TopSubscript sty =>
      match ty with
      | TArray elem => if ety_eqb sty EInteger then Some elem else None
      | TDict elem => if ety_eqb sty EBytes then Some elem else None
      | _ => None
      end
  | TopCall args =>
      match ty with
      | TFunction valid ret => if check_all_arguments_types valid args then Some ret else None
      | _ => None
      end
  end.

(* the loop `for op in ops { module_use.add_operation(op)? }` *)
Fixpoint typechecks (ty : mtype) (path : list top) : option mtype :=
  match path with
  | [] => Some ty
  | op :: path' =>
      match type_step ty op with
      | Some ty' => typechecks ty' path'
      | None => None
      end
  end.

(* ModuleUse::into_expression: the use is an expression only when the final type is primitive (Regex is not) *)
Definition expression_type (ty : mtype) : option ety :=
  match ty with
  | TInteger => Some EInteger
  | TFloat => Some EFloat
  | TBytes => Some EBytes
  | TBoolean => Some EBoolean
  | _ => None
  end.

(* ModuleUse::into_iterator_expression: `for x in <use>` needs an array or a dictionary; the bound identifier then
   has the element type and is compiled by compile_bounded_identifier_use starting from it. *)
Definition iterator_elem_type (ty : mtype) : option mtype :=
  match ty with
  | TArray elem => Some elem
  | TDict elem => Some elem
  | _ => None
  end.

(* ---------------------------------------------------------------- scan time: evaluator/module.rs *)
(* compiler::module::ValueOperation *)
Inductive vop : Type :=
| OpSubfield (name : string)
| OpSubscript
| OpCall (nargs : nat).

(* what add_operation pushes on `operations` *)
Definition op_of (t : top) : vop :=
  match t with
  | TopSubfield name => OpSubfield name
  | TopSubscript _ => OpSubscript
  | TopCall args => OpCall (length args)
  end.
Definition ops_of (path : list top) : list vop := map op_of path.

(* expr_value_to_module_value *)
Definition prim_to_value (p : prim) : mvalue :=
  match p with
  | PInteger z => VInteger z
  | PFloat b => VFloat b
  | PBytes b => VBytes b
  | PRegex r => VRegex r
  | PBoolean b => VBoolean b
  end.

(* usize::try_from(i64) on a 64-bit target *)
Definition usize_try_from (z : Z) : option N :=
  if (z <? 0)%Z then None else Some (Z.to_N z).

(* evaluate_ops.  `exprs` is the already evaluated `expressions` iterator, consumed left to right.  Every failure
   of the Rust code is `Err(PoisonKind::Undefined)`; the function contains no indexing, slicing or unchecked
   arithmetic — `array.get(i)`, `map.get(k)`, `usize::try_from`, `Iterator::take` — so no branch yields Panic. *)
Fixpoint model_evaluate_ops (v : mvalue) (ops : list vop) (exprs : list prim) : res mvalue :=
  match ops with
  | [] => Ok v                                           (* Ok(value.clone()) *)
  | OpSubfield name :: ops' =>
      match v with
      | VObject fields =>
          match assoc name fields with
          | Some v' => model_evaluate_ops v' ops' exprs
          | None => Undef
          end
      | _ => Undef
      end
  | OpSubscript :: ops' =>
      match exprs with
      | [] => Undef                                      (* expressions.next().ok_or(Undefined)? *)
      | subscript :: exprs' =>
          match v with
          | VArray elems =>
              match subscript with
              | PInteger index =>                        (* unwrap_number()? *)
                  match usize_try_from index with
                  | Some i =>
                      match vec_get elems i with
                      | Some v' => model_evaluate_ops v' ops' exprs'
                      | None => Undef
                      end
                  | None => Undef
                  end
              | _ => Undef
              end
          | VDict entries =>
              match subscript with
              | PBytes key =>                            (* unwrap_bytes()? *)
                  match dict_get key entries with
                  | Some v' => model_evaluate_ops v' ops' exprs'
                  | None => Undef
                  end
              | _ => Undef
              end
          | _ => Undef
          end
      end
  | OpCall nargs :: ops' =>
      match v with
      | VFunction f =>
          match f (firstn nargs exprs) with              (* (&mut expressions).take(n) *)
          | Some v' => model_evaluate_ops v' ops' (skipn nargs exprs)
          | None => Undef
          end
      | _ => Undef
      end
  end.

(* f64::is_nan on the bit pattern *)
Definition f64_is_nan (bits : N) : bool :=
  (N.land (N.shiftr bits 52) 2047 =? 2047) && negb (N.land bits 4503599627370495 =? 0).

(* module_value_to_expr_value *)
Definition value_to_prim (v : mvalue) : res prim :=
  match v with
  | VInteger z => Ok (PInteger z)
  | VFloat b => if f64_is_nan b then Undef else Ok (PFloat b)
  | VBytes b => Ok (PBytes b)
  | VRegex r => Ok (PRegex r)
  | VBoolean b => Ok (PBoolean b)
  | VObject _ | VArray _ | VDict _ | VFunction _ | VUndefined => Undef
  end.

(* Expression::Module evaluation of a BoundedModuleValueUse: evaluate_ops then module_value_to_expr_value *)
Definition model_module_expr (v : mvalue) (ops : list vop) (exprs : list prim) : res prim :=
  let* r := model_evaluate_ops v ops exprs in value_to_prim r.

(* ---------------------------------------------------------------- conformance (the property's predicate) *)
Definition is_undefined (v : mvalue) : bool := match v with VUndefined => true | _ => false end.

(* Boolean shape check used on dumped values.  Undefined conforms to every type; under a key the object type does not
   declare only Undefined may be published (pe's cert_to_map does that for `valid_on` in certificate chains) — a
   missing field is the same as an undefined one; arrays and dictionaries conform elementwise; a function slot must
   hold a function (its results are constrained by the Prop-level predicate below). *)
Fixpoint conforms (ty : mtype) (v : mvalue) {struct v} : bool :=
  match v with
  | VUndefined => true
  | VInteger _ => match ty with TInteger => true | _ => false end
  | VFloat _ => match ty with TFloat => true | _ => false end
  | VBytes _ => match ty with TBytes => true | _ => false end
  | VRegex _ => match ty with TRegex => true | _ => false end
  | VBoolean _ => match ty with TBoolean => true | _ => false end
  | VObject fields =>
      match ty with
      | TObject ftys =>
          (fix go (l : list (string * mvalue)) : bool :=
             match l with
             | [] => true
             | (k, v') :: l' =>
                 match assoc k ftys with
                 | Some t => conforms t v' && go l'
                 | None => is_undefined v' && go l'
                 end
             end) fields
      | _ => false
      end
  | VArray elems =>
      match ty with
      | TArray elem =>
          (fix go (l : list mvalue) : bool :=
             match l with [] => true | v' :: l' => conforms elem v' && go l' end) elems
      | _ => false
      end
  | VDict entries =>
      match ty with
      | TDict elem =>
          (fix go (l : list (list N * mvalue)) : bool :=
             match l with [] => true | (_, v') :: l' => conforms elem v' && go l' end) entries
      | _ => false
      end
  | VFunction _ => match ty with TFunction _ _ => true | _ => false end
  end.

(* Full predicate: as above, and every result of a published function conforms to the declared return type. *)
Fixpoint Conforms (ty : mtype) (v : mvalue) {struct v} : Prop :=
  match v with
  | VUndefined => True
  | VInteger _ => ty = TInteger
  | VFloat _ => ty = TFloat
  | VBytes _ => ty = TBytes
  | VRegex _ => ty = TRegex
  | VBoolean _ => ty = TBoolean
  | VObject fields =>
      match ty with
      | TObject ftys =>
          (fix go (l : list (string * mvalue)) : Prop :=
             match l with
             | [] => True
             | (k, v') :: l' =>
                 match assoc k ftys with
                 | Some t => Conforms t v' /\ go l'
                 | None => v' = VUndefined /\ go l'
                 end
             end) fields
      | _ => False
      end
  | VArray elems =>
      match ty with
      | TArray elem =>
          (fix go (l : list mvalue) : Prop :=
             match l with [] => True | v' :: l' => Conforms elem v' /\ go l' end) elems
      | _ => False
      end
  | VDict entries =>
      match ty with
      | TDict elem =>
          (fix go (l : list (list N * mvalue)) : Prop :=
             match l with [] => True | (_, v') :: l' => Conforms elem v' /\ go l' end) entries
      | _ => False
      end
  | VFunction f =>
      match ty with
      | TFunction _ ret => forall args, match f args with Some r => Conforms ret r | None => True end
      | _ => False
      end
  end.

(* A value without functions (what a dump can show completely). *)
Fixpoint fn_free (v : mvalue) : bool :=
  match v with
  | VObject fields =>
      (fix go (l : list (string * mvalue)) : bool :=
         match l with [] => true | (_, v') :: l' => fn_free v' && go l' end) fields
  | VArray elems =>
      (fix go (l : list mvalue) : bool := match l with [] => true | v' :: l' => fn_free v' && go l' end) elems
  | VDict entries =>
      (fix go (l : list (list N * mvalue)) : bool :=
         match l with [] => true | (_, v') :: l' => fn_free v' && go l' end) entries
  | VFunction _ => false
  | _ => true
  end.

(* A path without function calls. *)
Definition is_call (t : top) : bool := match t with TopCall _ => true | _ => false end.
Definition call_free (path : list top) : bool := negb (existsb is_call path).

(* ---------------------------------------------------------------- well-formed declared trees *)
Fixpoint keys_nodup (l : list string) : bool :=
  match l with
  | [] => true
  | k :: l' => negb (existsb (String.eqb k) l') && keys_nodup l'
  end.

(* no object type declares a key twice (then `assoc` = HashMap::get), function arguments are primitive *)
Fixpoint wf_mtype (t : mtype) : bool :=
  match t with
  | TObject fields =>
      keys_nodup (map fst fields)
      && (fix go (l : list (string * mtype)) : bool :=
            match l with [] => true | (_, t') :: l' => wf_mtype t' && go l' end) fields
  | TArray e | TDict e => wf_mtype e
  | TFunction args ret =>
      forallb (forallb (fun a => match module_type_to_expr_type a with Some _ => true | None => false end)) args
      && wf_mtype ret
  | _ => true
  end.

(* ---------------------------------------------------------------- paths into type trees (counter / cap tables) *)
Inductive step : Type := SField (name : string) | SElem.

Fixpoint type_at (t : mtype) (p : list step) : option mtype :=
  match p with
  | [] => Some t
  | SField name :: p' =>
      match t with
      | TObject fields => match assoc name fields with Some t' => type_at t' p' | None => None end
      | _ => None
      end
  | SElem :: p' =>
      match t with
      | TArray e | TDict e => type_at e p'
      | _ => None
      end
  end.

Definition is_collection (t : mtype) : bool :=
  match t with TArray _ | TDict _ => true | _ => false end.

(* a (counter, collection) pair is well typed in `tree` when the prefix reaches an object type in which the counter
   is an integer and the collection an array or a dictionary *)
Definition count_pair_well_typed (tree : mtype) (prefix : list step) (counter coll : string) : bool :=
  match type_at tree prefix with
  | Some (TObject fields) =>
      match assoc counter fields, assoc coll fields with
      | Some TInteger, Some c => is_collection c
      | _, _ => false
      end
  | _ => false
  end.

Definition cap_well_typed (tree : mtype) (p : list step) : bool :=
  match type_at tree p with Some c => is_collection c | None => false end.

Definition int_cap_well_typed (tree : mtype) (p : list step) : bool :=
  match type_at tree p with Some TInteger => true | _ => false end.

Definition bytes_cap_well_typed (tree : mtype) (p : list step) : bool :=
  match type_at tree p with Some TBytes => true | _ => false end.

(* ---------------------------------------------------------------- why an evaluation is undefined
   Same walk as model_evaluate_ops, but the undefined outcomes are split: XMissing — an undefined / absent value, an
   index out of range, a key not present, a function returning None (what a rule author expects to be undefined);
   XMismatch — the *shape* of the value does not fit the operation the compiler type-checked (subfield of a
   non-object, subscript of a non-collection or with the wrong kind of index, call of a non-function, no index
   expression left): the silent failure C17 is about. *)
Inductive xres : Type := XOk (v : mvalue) | XMissing | XMismatch.

Fixpoint explain_ops (v : mvalue) (ops : list vop) (exprs : list prim) : xres :=
  match ops with
  | [] => XOk v
  | OpSubfield name :: ops' =>
      match v with
      | VObject fields =>
          match assoc name fields with
          | Some v' => explain_ops v' ops' exprs
          | None => XMissing
          end
      | VUndefined => XMissing
      | _ => XMismatch
      end
  | OpSubscript :: ops' =>
      match exprs with
      | [] => XMismatch
      | subscript :: exprs' =>
          match v with
          | VArray elems =>
              match subscript with
              | PInteger index =>
                  match usize_try_from index with
                  | Some i => match vec_get elems i with
                              | Some v' => explain_ops v' ops' exprs'
                              | None => XMissing
                              end
                  | None => XMissing
                  end
              | _ => XMismatch
              end
          | VDict entries =>
              match subscript with
              | PBytes key => match dict_get key entries with
                              | Some v' => explain_ops v' ops' exprs'
                              | None => XMissing
                              end
              | _ => XMismatch
              end
          | VUndefined => XMissing
          | _ => XMismatch
          end
      end
  | OpCall nargs :: ops' =>
      match v with
      | VFunction f =>
          match f (firstn nargs exprs) with
          | Some v' => explain_ops v' ops' (skipn nargs exprs)
          | None => XMissing
          end
      | VUndefined => XMissing
      | _ => XMismatch
      end
  end.

(* the index / argument values have the kinds the compiler saw (the evaluator's own typing invariant) *)
Definition prim_ety (p : prim) : ety :=
  match p with
  | PInteger _ => EInteger | PFloat _ => EFloat | PBytes _ => EBytes | PRegex _ => ERegex | PBoolean _ => EBoolean
  end.

Fixpoint exprs_match (path : list top) (exprs : list prim) : Prop :=
  match path with
  | [] => True
  | TopSubfield _ :: path' => exprs_match path' exprs
  | TopSubscript e :: path' =>
      match exprs with
      | p :: exprs' => prim_ety p = e /\ exprs_match path' exprs'
      | [] => False
      end
  | TopCall args :: path' => exprs_match path' (skipn (length args) exprs)
  end.
