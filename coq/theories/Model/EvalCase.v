(* Model/EvalCase.v — correspondence terms for C04 / C06 (conditions). *)
From Boreal Require Import Base.Prelude Base.Res Model.Eval Spec.CondSem.

Definition mk_env (ms : option (list (list smatch))) (prev : list bool) (ext : list value) (mem : list N) : env :=
  {| e_matches := ms; e_prev := prev; e_ext := ext; e_filesize := Some (nlen mem); e_mem := Some mem |}.
Definition mk_senv (ms : list (list smatch)) (prev : list bool) (ext : list value) (mem : list N) : senv :=
  {| q_matches := ms; q_prev := prev; q_ext := ext; q_filesize := Some (nlen mem); q_mem := Some mem |}.

Definition oz_eqb (a b : option Z) : bool := opt_eqb Z.eqb a b.

(* a probe is an integer expression and what console.log printed for it (None: nothing logged) *)
Definition probe_corr (en : env) (p : expr * option Z) : bool :=
  match eval en None [] (fst p) with
  | Ok (VInt z) => oz_eqb (snd p) (Some z)
  | Undef => oz_eqb (snd p) None
  | _ => false
  end.
Definition probe_spec (q : senv) (p : expr * option Z) : bool :=
  match sem q None [] (fst p) with
  | Some (VInt z) => oz_eqb (snd p) (Some z)
  | None => oz_eqb (snd p) None
  | _ => false
  end.

Definition C04_case (ms : list (list smatch)) (ext : list value) (mem : list N)
           (cond : expr) (verdict : bool) (probes : list (expr * option Z)) : bool * bool * N :=
  let en := mk_env (Some ms) [] ext mem in
  let q := mk_senv ms [] ext mem in
  (res_eqb Bool.eqb (eval_rule en cond) (Ok verdict) && forallb (probe_corr en) probes,
   Bool.eqb (sem_rule q cond) verdict && forallb (probe_spec q) probes,
   0).

(* the same condition on fragmented memory (scan_fragmented): no file size, no direct memory; the matches
   carry the base of their region, and `at` / `in` / `@` speak of absolute addresses *)
Definition C04_frag_case (ms : list (list smatch)) (ext : list value) (cond : expr) (verdict : bool) : bool * bool * N :=
  let en := {| e_matches := Some ms; e_prev := []; e_ext := ext; e_filesize := None; e_mem := None |} in
  let q := {| q_matches := ms; q_prev := []; q_ext := ext; q_filesize := None; q_mem := None |} in
  (res_eqb Bool.eqb (eval_rule en cond) (Ok verdict), Bool.eqb (sem_rule q cond) verdict, 0).

(* C06: the verdict observed in a configuration where the no-scan pass may run (`noscan_verdict`,
   with `chunks` = number of memory chunks scanned, 0 when the string scan was skipped) against the
   model of both passes, and against the reference configuration's verdict. *)
Definition C06_case (ms : list (list smatch)) (ext : list value) (mem : list N)
           (cond : expr) (verdicts : list bool) (skipped : option bool) : bool * bool * N :=
  let en1 := mk_env None [] ext mem in
  let en2 := mk_env (Some ms) [] ext mem in
  let q := mk_senv ms [] ext mem in
  let expected := match eval_rule en2 cond with Ok b => Some b | _ => None end in
  let pass1 := eval_rule en1 cond in
  (* model: pass 1 decides iff it is not Needed, and then it must agree with pass 2 *)
  (match expected with
   | Some b => forallb (Bool.eqb b) verdicts
               && match skipped with
                  | Some sk => Bool.eqb sk (match pass1 with Needed => false | _ => true end)
                  | None => true
                  end
   | None => false
   end,
   forallb (Bool.eqb (sem_rule q cond)) verdicts
   && match pass1 with Ok b => Bool.eqb b (sem_rule q cond) | _ => true end,
   0).
