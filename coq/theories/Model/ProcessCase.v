(* Model/ProcessCase.v — the correspondence term for C19 (evaluated by vm_compute on generated cases). *)
From Boreal Require Import Base.Prelude Model.Process Spec.ProcessSpec.

(* ---- specification side, independent of how the walk is implemented ----
   Between two resets the `next` answers must tile the readable mappings in listing order
   (a prefix of such a tiling if the walk is cut short; the complete tiling once `next` has
   answered None); every successful fetch returns the process's current view (the bytes of
   /proc/pid/mem) of a prefix of the chunk last described, of length min(chunk, rounded cap);
   no fetch succeeds before the first `next` of an epoch or after the end of the listing. *)

Fixpoint spec_descs (complete : bool) (regs : list region) (pos : option N) (descs : list (N * N)) : bool :=
  match descs with
  | [] => if complete then match regs with [] => true | _ => false end else true
  | (s, n) :: rest =>
      match regs with
      | [] => false
      | r :: regs' =>
          let p := match pos with Some p => p | None => r_start r end in
          let e := r_start r + r_len r in
          if (s =? p) && (s + n <=? e) && (0 <? n) then
            if s + n =? e then spec_descs complete regs' None rest
            else spec_descs complete regs (Some (s + n)) rest
          else false
      end
  end.

(* A fetch of the chunk [s, s+n) may legitimately answer None when: /proc/pid/mem cannot be read there (the
   synthetic file is too short); the chunk lies wholly beyond the end of the file backing its mapping (the
   process itself has nothing there); the pagemap cannot be read for its pages (synthetic pagemap too short).
   Anything else is readable memory that the scan would skip. *)
Definition region_at (regs : list region) (s : N) : option region :=
  find (fun r => (r_start r <=? s) && (s <? r_start r + r_len r)) regs.

Definition fetch_may_fail (fs : procfs) (prm : mparams) (regs : list region) (s n : N) : bool :=
  match read_mem fs s n with None => true | Some _ => false end
  || match region_at regs s with
     | Some r => r_backed r
                 && ((r_fsize r <? (s - r_start r) + r_foff r)
                     || ((0 <? n / page prm) && (pm_entries fs <? s / page prm + n / page prm)))
     | None => true
     end.

Fixpoint epoch_ok (fs : procfs) (prm : mparams) (regs : list region)
         (ops : list pop) (outs : list pout) (descs_rev : list (N * N)) (last : option (N * N))
         (ended : bool) {struct ops} : bool :=
  match ops, outs with
  | [], [] => spec_descs false regs None (rev descs_rev)
  | PNext :: ops', ODesc s n :: outs' =>
      negb ended && epoch_ok fs prm regs ops' outs' ((s, n) :: descs_rev) (Some (s, n)) false
  | PNext :: ops', ONone :: outs' =>
      spec_descs true regs None (rev descs_rev) && epoch_ok fs prm regs ops' outs' descs_rev None true
  | PFetch :: ops', OFetched s bytes :: outs' =>
      match last with
      | Some (ls, ln) =>
          (s =? ls)
          && (nlen bytes =? N.min ln (round_page (max_fetch prm) (page prm)))
          && match read_mem fs s (nlen bytes) with
             | Some view => list_eqb N.eqb view bytes
             | None => true   (* the synthetic /proc/pid/mem is too short to define the view there *)
             end
      | None => false
      end && epoch_ok fs prm regs ops' outs' descs_rev last ended
  | PFetch :: ops', ONone :: outs' =>
      (* a fetch may fail only where there is nothing to see or the kernel interface cannot answer *)
      match last with
      | Some (ls, ln) => fetch_may_fail fs prm regs ls (N.min ln (round_page (max_fetch prm) (page prm)))
      | None => true
      end && epoch_ok fs prm regs ops' outs' descs_rev last ended
  | PReset :: ops', OUnit :: outs' =>
      spec_descs false regs None (rev descs_rev) && epoch_ok fs prm regs ops' outs' [] None false
  | _, _ => false
  end.

Definition C19_case (fs : procfs) (prm : mparams) (regs : list region) (ops : list pop) (outs : list pout)
  : bool * bool * N :=
  (list_eqb pout_eqb outs (prun fs prm (pinit regs) ops),
   epoch_ok fs prm regs ops outs [] None false,
   0).

(* ---- end-to-end: a live victim process scanned through /proc (real page size) ----
   One mapping of `len` bytes (offsets relative to its page-aligned base), the offsets at which the process
   holds the needle (`present`, non-overlapping), and the offsets the scan reported (`found`). *)
Definition e2e_chunks (prm : mparams) (len : N) : list (N * N) :=
  walk (S (S (N.to_nat (len / page prm)))) prm
       (pinit [{| r_start := 0; r_len := len; r_backed := false; r_foff := 0; r_file := [] |}]).

Definition seen_in_chunk (prm : mparams) (n a : N) (c : N * N) : bool :=
  (fst c <=? a) && (a + n <=? fst c + N.min (snd c) (round_page (max_fetch prm) (page prm))).

Definition e2e_expected (prm : mparams) (len n : N) (present : list N) : list N :=
  filter (fun a => existsb (seen_in_chunk prm n a) (e2e_chunks prm len)) present.

Fixpoint strictly_ascending (l : list N) : bool :=
  match l with
  | a :: ((b :: _) as r) => (a <? b) && strictly_ascending r
  | _ => true
  end.

Definition e2e_mapping_ok (prm : mparams) (n : N) (m : N * list N * list N) : bool * bool :=
  let '(len, present, found) := m in
  (list_eqb N.eqb found (e2e_expected prm len n present),
   (* reported only where the process holds the bytes, once; what is missing straddles a chunk end or lies
      beyond the fetch cap of its chunk *)
   forallb (fun a => existsb (N.eqb a) present) found
   && strictly_ascending found
   && forallb (fun a => existsb (N.eqb a) found
                        || existsb (fun c => ((fst c <=? a) && (a <? fst c + snd c))
                                             && ((fst c + snd c <? a + n)
                                                 || (fst c + N.min (snd c) (round_page (max_fetch prm) (page prm)) <? a + n)))
                                   (e2e_chunks prm len))
              present).

(* Former finding C19-shared-tail-beyond-eof (class 1), repaired by /repo 1edd3f5: the harness now passes an
   empty `tail`, so `corr` and `spec` both demand every needle and the class is never reported.  Kept for the
   record of what the class was: `tail` listed the needles the process wrote, through a
   shared mapping of a file, at offsets not wholly inside the file (the last page of the mapping extends beyond
   the end of the file).  The model follows the code: such pages are read from the file and the bytes beyond
   its end are taken as zeros, so these needles are not in what the scan reads; the property demands them. *)
Definition remove_all (t l : list N) : list N := filter (fun a => negb (existsb (N.eqb a) t)) l.

Definition e2e_mapping_class (prm : mparams) (n : N) (m : N * list N * list N * list N) : bool * bool * N :=
  let '(len, present, found, tail) := m in
  let corr := fst (e2e_mapping_ok prm n (len, remove_all tail present, found)) in
  let spec := snd (e2e_mapping_ok prm n (len, present, found)) in
  (corr, spec,
   if spec then 0
   else match tail with [] => 0 | _ => if snd (e2e_mapping_ok prm n (len, remove_all tail present, found)) then 1 else 0 end).

Definition C19e_case (prm : mparams) (n : N) (maps : list (N * list N * list N * list N)) : bool * bool * N :=
  let rs := map (e2e_mapping_class prm n) maps in
  (forallb (fun r => fst (fst r)) rs,
   forallb (fun r => snd (fst r)) rs,
   (* every mapping that fails the property must be explained for the case to be in the class *)
   if forallb (fun r => snd (fst r) || (snd r =? 1)) rs
   then (if forallb (fun r => snd (fst r)) rs then 0 else 1) else 0).
