(* Model/FragCase.v — the correspondence term for C11. *)
From Boreal Require Import Base.Prelude Base.ListX Base.Bytes Model.Literals Model.AcScan Model.Memory
  Model.IndepCase Spec.FragSpec.

Inductive probe :=
| PAt (x : N)                 (* $a at x *)
| PIn (lo hi : N)             (* $a in (lo..hi) *)
| PCount                      (* #a *)
| PCountIn (lo hi : N)        (* #a in (lo..hi) *)
| POffset (i : N)             (* @a[i], 1-based *)
| PUint (n x : N)             (* uint8/16/32(x): n bytes, little endian *)
| PFilesize                   (* defined filesize *)
| PChecksum (x n : N)         (* hash.checksum32(x, n) *)
| PEntry (e : option N).      (* entrypoint; e = the per-region composition: (entry point of the first listed region
                                 that is a PE / ELF image, as the implementation computes it on that region's bytes
                                 scanned alone) + that region's base *)

(* what the implementation answered: a verdict, or a logged integer (None = undefined) *)
Inductive pres := RBool (b : bool) | RInt (v : option N).

Definition pres_eqb (a b : pres) : bool :=
  match a, b with
  | RBool x, RBool y => Bool.eqb x y
  | RInt x, RInt y => opt_eqb N.eqb x y
  | _, _ => false
  end.

Definition checksum (bs : bytes) : N := nsum bs mod 4294967296.

(* what boreal's evaluator computes from the match vector t and the region cursor *)
Definition probe_model (can_refetch : bool) (regions : list fregion) (t : list smatch) (p : probe) : pres :=
  match p with
  | PAt x => RBool (find_at t x)
  | PIn lo hi => RBool (find_in t lo hi)
  | PCount => RInt (Some (nlen t))
  | PCountIn lo hi => RInt (Some (count_matches_in t lo hi))
  | POffset i => RInt (if i =? 0 then None else option_map abs_off (nnth_opt (i - 1) t))
  | PUint n x => RInt (read_uint can_refetch regions x n)
  | PFilesize => RBool (match filesize_fragmented regions with Some _ => true | None => false end)
  | PChecksum x n => RInt (option_map checksum (on_range can_refetch regions x (x + n)))
  | PEntry e => RInt e
  end.

(* what the property demands *)
Definition probe_spec (can_refetch : bool) (regions : list fregion) (t : list smatch) (p : probe) : pres :=
  match p with
  | PAt x => RBool (spec_at t x)
  | PIn lo hi => RBool (spec_in t lo hi)
  | PCount => RInt (Some (nlen t))
  | PCountIn lo hi =>
      RInt (Some (nlen (filter (fun m => (lo <=? sm_base m + sm_off m) && (sm_base m + sm_off m <=? hi)) t)))
  | POffset i => RInt (if i =? 0 then None
                       else option_map (fun m => sm_base m + sm_off m) (nnth_opt (i - 1) t))
  | PUint n x => RInt (option_map le_value (spec_read can_refetch regions x n))
  | PFilesize => RBool false
  | PChecksum x n => RInt (option_map checksum (spec_range can_refetch regions x (x + n)))
  | PEntry e => RInt e
  end.

(* known finding C11-region-order (DESIGN 9.12): address-based lookups assume regions arrive in
   ascending address order; class = the fetched layout is not ascending and the probe looks an
   address up *)
Fixpoint ascending_regions (prev_end : N) (regions : list fregion) : bool :=
  match regions with
  | [] => true
  | r :: rest => (prev_end <=? f_start r) && ascending_regions (f_start r + f_described r) rest
  end.
Definition probe_by_address (p : probe) : bool :=
  match p with PAt _ | PIn _ _ | PCountIn _ _ | PUint _ _ | PChecksum _ _ => true | _ => false end.
Definition kf_region_order (regions : list fregion) (probes : list probe) : N :=
  if negb (ascending_regions 0 regions) && existsb probe_by_address probes then 1 else 0.

(* the class is narrow: the match list itself (per-region union, inside one region) and every probe
   that does not look an address up must still be right; only address-based probes may be off *)
Definition kf_region_order_narrow (can_refetch : bool) (regions : list fregion) (per_region : list (list smatch))
           (t : list smatch) (probes : list probe) (results : list pres) : N :=
  if list_eqb smatch_eqb t (frag_union per_region regions)
     && forallb (inside_one_region regions) t
     && forallb2 (fun p r => probe_by_address p || pres_eqb (probe_spec can_refetch regions t p) r) probes results
  then kf_region_order regions probes else 0.

(* d: the text string; per_region: the implementation's contiguous scan of each fetched region's bytes
   (scan_mem), in region order; t: its fragmented scan; probes/results: one rule per probe *)
Definition C11_case (d : tdecl) (prm : sparams) (can_refetch : bool) (regions : list fregion)
           (per_region : list (list smatch)) (t : list smatch)
           (probes : list probe) (results : list pres) : bool * bool * N :=
  (list_eqb smatch_eqb t (scan_var_fragmented prm (text_matcher d) regions)
   && forallb2 (fun p r => pres_eqb (probe_model can_refetch regions t p) r) probes results,
   list_eqb smatch_eqb t (frag_union per_region regions)
   && forallb (inside_one_region regions) t
   && forallb2 (fun p r => pres_eqb (probe_spec can_refetch regions t p) r) probes results,
   kf_region_order_narrow can_refetch regions per_region t probes results).

(* strings that are not text strings (hex / regex, MatcherKind::Atomized or Raw): their matcher is
   not modelled here; the fragmented list is compared with the per-region scans only, the probes
   with both the model and the specification *)
Definition C11_case_other (prm : sparams) (can_refetch : bool) (regions : list fregion)
           (per_region : list (list smatch)) (t : list smatch)
           (probes : list probe) (results : list pres) : bool * bool * N :=
  (forallb2 (fun p r => pres_eqb (probe_model can_refetch regions t p) r) probes results,
   list_eqb smatch_eqb t (frag_union per_region regions)
   && forallb (inside_one_region regions) t
   && forallb2 (fun p r => pres_eqb (probe_spec can_refetch regions t p) r) probes results,
   kf_region_order_narrow can_refetch regions per_region t probes results).
