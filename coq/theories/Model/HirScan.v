(* Model/HirScan.v — the path of one hex/regex string through the Aho-Corasick pass:
   boreal/src/scanner/ac_scan.rs `scan_region`/`handle_possible_match` (for one variable),
   `Matcher::confirm_ac_literal`, `Matcher::process_ac_match` (Literals and Atomized arms),
   `insert_match` (fix F2: sorted by offset, one per offset, first arrival wins), truncation to
   `string_max_nb_matches`.

   The compiled form of the string (literals, atom offsets inside each literal, pre/post HIR, kind)
   is an input (`sdesc`): it is read from the implementation through the hook
   `Scanner::verif_describe_strings`.

   Aho-Corasick contract (DESIGN §3; overlapping search, ASCII case-insensitive): all occurrences of
   all atoms, ordered by end offset, for equal end by decreasing atom length; literals sharing an atom
   in literal order.  An atom hit of a literal that `confirm_ac_literal` then rejects has no effect,
   and a confirmed literal always has its atom hit, so the hits that matter are the confirmed
   (literal, position) pairs in that order.  Definitions only. *)
From Boreal Require Import Base.Prelude Spec.Regex Model.Widen Model.Validator Model.SimpleValidator Model.Raw.

Inductive vkind := KLiterals | KNonGreedy | KGreedy | KRaw.

Record sdesc := {
  s_lits : list (list N);        (* Matcher.literals *)
  s_atoms : list (N * N);        (* pick_atom_in_literal of each literal: (left, right) offsets *)
  s_kind : vkind;
  s_mods : mods;
  s_hir : hir;
  s_pre : option hir;
  s_post : option hir
}.

(* ---- literals *)
Definition to_lower (b : N) : N := if is_upper b then b + 32 else b.

Fixpoint lit_at (nc : bool) (lit mem : list N) : bool :=   (* is lit a prefix of mem *)
  match lit, mem with
  | [], _ => true
  | x :: l', y :: m' => (if nc then to_lower x =? to_lower y else x =? y) && lit_at nc l' m'
  | _ :: _, [] => false
  end.

Definition confirm_ac_literal (md : mods) (nlits : N) (idx : N) (lit mem : list N) (start : N) : option mtype :=
  if lit_at (m_nocase md) lit (skipn (N.to_nat start) mem) then
    Some (match m_ascii md, m_wide md with
          | false, true => MWideStandard
          | true, true => if nlits / 2 <=? idx then MWideAlternate else MAscii
          | _, _ => MAscii
          end)
  else None.

(* ---- hit order *)
Record litinfo := { li_idx : N; li_lit : list N; li_so : N; li_eo : N }.
Definition li_alen (li : litinfo) : N := nlen (li_lit li) - li_so li - li_eo li.

Fixpoint mk_litinfos (idx : N) (lits : list (list N)) (atoms : list (N * N)) : list litinfo :=
  match lits, atoms with
  | l :: lr, (so, eo) :: ar => {| li_idx := idx; li_lit := l; li_so := so; li_eo := eo |} :: mk_litinfos (idx + 1) lr ar
  | _, _ => []
  end.

(* stable insertion sort, longer atoms first (x is inserted before the elements that are not longer:
   with fold_right, literals with atoms of equal length keep their literal order) *)
Fixpoint ins_li (x : litinfo) (l : list litinfo) : list litinfo :=
  match l with
  | [] => [x]
  | y :: r => if li_alen y <=? li_alen x then x :: l else y :: ins_li x r
  end.
Definition sort_lis (l : list litinfo) : list litinfo := fold_right ins_li [] l.

(* (literal index, literal start, literal end, match type) for atom end offset e *)
Definition hits_at (md : mods) (nlits : N) (mem : list N) (lis : list litinfo) (e : N) : list (N * N * N * mtype) :=
  flat_map (fun li =>
    let al := li_alen li in
    if e <? al then [] else
    let a_start := e - al in
    if a_start <? li_so li then [] else
    let s := a_start - li_so li in
    let en := e + li_eo li in
    if nlen mem <? en then [] else
    match confirm_ac_literal md nlits (li_idx li) (li_lit li) mem s with
    | Some mt => [(li_idx li, s, en, mt)]
    | None => []
    end) lis.

Definition hits (d : sdesc) (mem : list N) : list (N * N * N * mtype) :=
  let lis := sort_lis (mk_litinfos 0 (s_lits d) (s_atoms d)) in
  flat_map (hits_at (s_mods d) (nlen (s_lits d)) mem lis) (iota 0 (nlen mem + 1)).

(* ---- insert_match (fix F2); matches are (offset, length), one region *)
Fixpoint insert_match (ms : list (N * N)) (x : N * N) : list (N * N) :=
  match ms with
  | [] => [x]
  | y :: r =>
      if fst x <? fst y then x :: ms
      else if fst x =? fst y then ms
      else y :: insert_match r x
  end.

Definition last_offset (ms : list (N * N)) : option N :=
  match rev ms with [] => None | y :: _ => Some (fst y) end.

(* ---- HalfValidator::new: the simple byte walker when it accepts the HIR, else the DFA.
   (The slices `haystack[start..end]` of the simple walker need start <= end; `handle_possible_match`
   never calls it otherwise — start_position <= end of the literal — and the model answers None.) *)
Definition half_fwd (md : mods) (h : hir) (mt : mtype) (mem : list N) : N -> N -> option N :=
  match simple_new md h false with
  | Some sv => fun start lim => if start <=? lim then simple_fwd sv mem start lim else None
  | None => dfa_fwd md h mt mem
  end.
Definition half_rev (md : mods) (h : hir) (mt : mtype) (mem : list N) : N -> N -> option N :=
  match simple_new md h true with
  | Some sv => fun lo e => if lo <=? e then simple_rev sv mem lo e else None
  | None => dfa_rev md h mt mem
  end.

(* ---- process_ac_match *)
Definition process_ac_match (d : sdesc) (mem : list N) (ms me sp : N) (mt : mtype) : list (N * N) :=
  let md := s_mods d in
  match s_kind d with
  | KLiterals => if validate_fullword md mem ms me mt then [(ms, me)] else []
  | KNonGreedy =>
      filter (fun se => validate_fullword md mem (fst se) (snd se) mt)
        (validate_nongreedy (nlen mem)
           (option_map (fun h => half_fwd md h mt mem) (s_post d))
           (option_map (fun h => half_rev md h mt mem) (s_pre d))
           ms me sp)
  | KGreedy =>
      match s_pre d with
      | Some pre =>
          filter (fun se => validate_fullword md mem (fst se) (snd se) mt)
            (validate_greedy (nlen mem) (dfa_rev md pre mt mem) (dfa_fwd md (s_hir d) mt mem) ms me sp)
      | None => []
      end
  | KRaw => []
  end.

(* one literal hit of handle_possible_match; `use_sp = false` is the variant without the
   start_position mechanism (always 0), used to state the known finding 9.5 *)
Definition handle_hit (use_sp : bool) (d : sdesc) (mem : list N) (max_nb : N)
           (acc : list (N * N)) (h : N * N * N * mtype) : list (N * N) :=
  let '(_, ms, me, mt) := h in
  let sp := if use_sp then match last_offset acc with Some o => o + 1 | None => 0 end else 0 in
  let found := process_ac_match d mem ms me sp mt in
  let acc' := fold_left (fun a se => insert_match a (fst se, snd se - fst se)) found acc in
  if max_nb <? nlen acc' then firstn (N.to_nat max_nb) acc' else acc'.

Definition ac_scan (use_sp : bool) (d : sdesc) (mem : list N) (max_nb : N) : list (N * N) :=
  fold_left (handle_hit use_sp d mem max_nb) (hits d mem) [].

(* the whole scan of one string over one region *)
Definition model_scan (d : sdesc) (mem : list N) (max_nb : N) : list (N * N) :=
  match s_kind d with
  | KRaw => raw_scan (s_mods d) (s_hir d) mem max_nb
  | _ => ac_scan true d mem max_nb
  end.

(* known finding 9.5: the class of inputs on which `start_position` loses a start *)
Definition kf_start_position (d : sdesc) (mem : list N) (max_nb : N) : bool :=
  match s_kind d with
  | KRaw => false
  | _ => negb (list_eqb N.eqb (map fst (ac_scan true d mem max_nb)) (map fst (ac_scan false d mem max_nb)))
  end.
