(* Model/IndepCase.v — the correspondence term for C12 (rule sets made of text strings). *)
From Boreal Require Import Base.Prelude Base.ListX Base.Bytes Model.Literals Model.AcScan.

Fixpoint forallb2 {A B} (f : A -> B -> bool) (a : list A) (b : list B) : bool :=
  match a, b with
  | [], [] => true
  | x :: a', y :: b' => f x y && forallb2 f a' b'
  | _, _ => false
  end.

(* a declared string: its name ($s<id>), the `private` modifier, the declaration *)
Record sdecl := { sd_name : N; sd_private : bool; sd_decl : tdecl }.
(* a rule of the union, in compilation order: is it reported (false for `private rule`), its strings *)
Definition rule_decl := (bool * list sdecl)%type.
(* a reported string: name id, has_xor_modifier, matches *)
Definition rstr := (N * bool * list smatch)%type.

Definition rstr_eqb (a b : rstr) : bool :=
  (fst (fst a) =? fst (fst b)) && Bool.eqb (snd (fst a)) (snd (fst b))
  && list_eqb smatch_eqb (snd a) (snd b).

(* build_matched_rule: zip the rule's variables with their match vectors, drop private strings and
   strings without matches, report name / xor flag / matches *)
Fixpoint reported_strings (sds : list sdecl) (vms : list (list smatch)) : list rstr :=
  match sds, vms with
  | sd :: sds', vm :: vms' =>
      (if sd_private sd then []
       else match vm with
            | [] => []
            | _ => [(sd_name sd, match t_xor (sd_decl sd) with Some _ => true | None => false end, vm)]
            end) ++ reported_strings sds' vms'
  | _, _ => []
  end.

(* the flat match-vector array is consumed positionally, rule after rule (private rules too) *)
Fixpoint report_rules (rules : list rule_decl) (vms : list (list smatch)) : list (list rstr) :=
  match rules with
  | [] => []
  | (rep, sds) :: rest =>
      let n := N.of_nat (length sds) in
      (if rep then [reported_strings sds (ntake n vms)] else []) ++ report_rules rest (ndrop n vms)
  end.

(* rules: the union rule set in compilation order; reported: for each non-private rule, in that
   order, the strings the implementation reported (name, xor flag, matches); alone_same: the
   implementation's results for the rules of A (resp. B) inside the union equal, rule by rule and
   field by field (verdict, string names, xor flags, matches), its results for A (resp. B) alone.
   corr: the union's report is that of the model with one shared automaton over all strings,
         consumed positionally.
   spec: the report is what every string gives when it is the only string of the scanner. *)
Definition C12_case (prm : sparams) (m : bytes) (rules : list rule_decl) (reported : list (list rstr))
           (alone_same : bool) : bool * bool * N :=
  let decls := flat_map (fun r => map sd_decl (snd r)) rules in
  (list_eqb (list_eqb rstr_eqb) reported
            (report_rules rules (scan_direct prm (map text_matcher decls) m)),
   alone_same
   && list_eqb (list_eqb rstr_eqb) reported
               (report_rules rules (map (fun d => model_scan_text prm d m) decls)),
   0).

(* the same over a fragmented scan (regions with base addresses, any fragmented scan mode): the match
   vectors are those of `scan_fragmented` *)
Definition C12_case_frag (prm : sparams) (regions : list fregion) (rules : list rule_decl)
           (reported : list (list rstr)) (alone_same : bool) : bool * bool * N :=
  let decls := flat_map (fun r => map sd_decl (snd r)) rules in
  (list_eqb (list_eqb rstr_eqb) reported
            (report_rules rules (scan_fragmented prm (map text_matcher decls) regions)),
   alone_same
   && list_eqb (list_eqb rstr_eqb) reported
               (report_rules rules (map (fun d => scan_var_fragmented prm (text_matcher d) regions) decls)),
   0).
