(* Model/IndepCase.v — the correspondence term for C12 (rule sets made of text strings). *)
From Boreal Require Import Base.Prelude Base.ListX Base.Bytes Model.Literals Model.AcScan.

Fixpoint forallb2 {A B} (f : A -> B -> bool) (a : list A) (b : list B) : bool :=
  match a, b with
  | [], [] => true
  | x :: a', y :: b' => f x y && forallb2 f a' b'
  | _, _ => false
  end.

(* decls: the text strings of the union rule set in variable order; outs: what the implementation
   reported for each of them when all rules are compiled together; alone_same: the implementation's
   results for the rules of A (resp. B) in the union equal its results for A (resp. B) compiled alone
   (verdicts and full match lists).
   corr: the union's results are those of the model with one shared automaton over all strings.
   spec: every string's matches are what that string gives when it is the only string of the scanner. *)
Definition C12_case (prm : sparams) (m : bytes) (decls : list tdecl) (outs : list (list smatch))
           (alone_same : bool) : bool * bool * N :=
  (list_eqb (list_eqb smatch_eqb) outs (scan_direct prm (map text_matcher decls) m),
   alone_same && forallb2 (fun d o => list_eqb smatch_eqb o (model_scan_text prm d m)) decls outs,
   0).
