(* Model/ModFuncsCase.v — dispatch of a probe to the model and to the specification, and the correspondence term of
   C16.  A probe is (function, literal arguments); all probes of a case are evaluated in one scan, in order
   (the hash cache is shared by them). *)
From Coq Require Import QArith Qabs.
From Boreal Require Import Base.Prelude Spec.MathSpec Spec.Digest Spec.Strtol Spec.RangeSpec Spec.Log2Enc Spec.PeriodicSpec
  Model.ModFuncs Model.HashMod Model.MathMod Model.StringMod.
Open Scope N_scope.

Inductive fn :=
| HMd5 | HSha1 | HSha256 | HCrc32 | HChecksum32
| MEntropy | MMean | MDeviation | MSerial | MMonte | MCount | MPercentage | MMode
| MMin | MMax | MAbs | MToNumber | MToString
| SToInt | SLength.

Record caches := { k_md5 : cmap; k_sha1 : cmap; k_sha256 : cmap }.
Definition no_caches : caches := {| k_md5 := []; k_sha1 := []; k_sha256 := [] |}.

Definition model_call (m : memory) (c : caches) (f : fn) (args : list arg) : caches * mres :=
  match f with
  | HMd5 => let (k, v) := hash_call_cached md5_d m (k_md5 c) args in
            ({| k_md5 := k; k_sha1 := k_sha1 c; k_sha256 := k_sha256 c |}, v)
  | HSha1 => let (k, v) := hash_call_cached sha1_d m (k_sha1 c) args in
             ({| k_md5 := k_md5 c; k_sha1 := k; k_sha256 := k_sha256 c |}, v)
  | HSha256 => let (k, v) := hash_call_cached sha256_d m (k_sha256 c) args in
               ({| k_md5 := k_md5 c; k_sha1 := k_sha1 c; k_sha256 := k |}, v)
  | HCrc32 => (c, hash_call crc_d m args)
  | HChecksum32 => (c, hash_call checksum_d m args)
  | MEntropy => (c, entropy_call m args)
  | MMean => (c, digest_call mean_d m args)
  | MDeviation => (c, deviation_call m args)
  | MSerial => (c, digest_call scc_d m args)
  | MMonte => (c, digest_call mc_d m args)
  | MCount => (c, count_call m args)
  | MPercentage => (c, percentage_call m args)
  | MMode => (c, mode_call m args)
  | MMin => (c, min_call args)
  | MMax => (c, max_call args)
  | MAbs => (c, abs_call args)
  | MToNumber => (c, to_number_call args)
  | MToString => (c, to_string_call args)
  | SToInt => (c, to_int_call args)
  | SLength => (c, length_call args)
  end.

Fixpoint model_run (m : memory) (c : caches) (ps : list (fn * list arg)) : list mres :=
  match ps with
  | [] => []
  | (f, args) :: ps' => let (c', v) := model_call m c f args in v :: model_run m c' ps'
  end.

(* ------------------------------------------------------------------ specification side *)
(* the bytes a call is about: a literal string, or the range (offset, size) of the scanned data *)
Definition spec_data (m : memory) (args : list arg) : option (list N * list arg) :=
  match args with
  | AStr s :: rest => Some (s, rest)
  | AInt o :: AInt n :: rest => match spec_range m o n with Some l => Some (l, rest) | None => None end
  | _ => None
  end.

Definition whole_or_range (m : memory) (rest : list arg) : option (list N) :=
  match rest with
  | [] => get_direct m
  | AInt o :: AInt n :: _ => spec_range m o n
  | _ => None
  end.

Definition of_opt_f (o : option fval) : mres := match o with Some f => RFloat f | None => RUndef end.
Definition of_opt_z (o : option Z) : mres := match o with Some z => RInt z | None => RUndef end.

Definition spec_call (m : memory) (f : fn) (args : list arg) : mres :=
  match f with
  | HMd5 => match spec_data m args with Some (l, _) => RBytes (hex_encode (md5_ref l)) | None => RUndef end
  | HSha1 => match spec_data m args with Some (l, _) => RBytes (hex_encode (sha1_ref l)) | None => RUndef end
  | HSha256 => match spec_data m args with Some (l, _) => RBytes (hex_encode (sha256_ref l)) | None => RUndef end
  | HCrc32 => match spec_data m args with Some (l, _) => RInt (Z.of_N (crc32_ref l)) | None => RUndef end
  | HChecksum32 => match spec_data m args with Some (l, _) => RInt (Z.of_N (checksum32_ref l)) | None => RUndef end
  | MEntropy => match spec_data m args with Some (l, _) => RFloat (entropy_spec l) | None => RUndef end
  | MMean => match spec_data m args with Some (l, _) => of_opt_f (mean_spec l) | None => RUndef end
  | MDeviation => match spec_data m args with
                  | Some (l, AFlt mu :: _) => of_opt_f (deviation_spec l mu)
                  | _ => RUndef
                  end
  | MSerial => match spec_data m args with Some (l, _) => RFloat (scc_spec l) | None => RUndef end
  | MMonte => match spec_data m args with Some (l, _) => of_opt_f (monte_spec l) | None => RUndef end
  | MCount => match args with
              | AInt b :: rest =>
                  if (b <? 0)%Z then RUndef else
                  match whole_or_range m rest with Some l => of_opt_z (count_spec (Z.to_N b) l) | None => RUndef end
              | _ => RUndef
              end
  | MPercentage => match args with
                   | AInt b :: rest =>
                       if (b <? 0)%Z then RUndef else
                       match whole_or_range m rest with
                       | Some l => of_opt_f (percentage_spec (Z.to_N b) l)
                       | None => RUndef
                       end
                   | _ => RUndef
                   end
  | MMode => match whole_or_range m args with Some l => RInt (mode_spec l) | None => RUndef end
  | MMin => match args with AInt a :: AInt b :: _ => RInt (min_spec a b) | _ => RUndef end
  | MMax => match args with AInt a :: AInt b :: _ => RInt (max_spec a b) | _ => RUndef end
  | MAbs => match args with AInt a :: _ => of_opt_z (abs_spec a) | _ => RUndef end
  | MToNumber => match args with ABool b :: _ => RInt (to_number_spec b) | _ => RUndef end
  | MToString => match args with
                 | [AInt v] => match to_string_spec v None with Some s => RBytes s | None => RUndef end
                 | AInt v :: AInt b :: _ =>
                     match to_string_spec v (Some b) with Some s => RBytes s | None => RUndef end
                 | _ => RUndef
                 end
  | SToInt => match args with
              | [AStr s] => of_opt_z (strtoll_full s 0)
              | AStr s :: AInt b :: _ => of_opt_z (strtoll_full s b)
              | _ => RUndef
              end
  | SLength => match args with AStr s :: _ => RInt (length_spec s) | _ => RUndef end
  end.

Definition spec_run (m : memory) (ps : list (fn * list arg)) : list mres :=
  map (fun p => spec_call m (fst p) (snd p)) ps.

(* ------------------------------------------------------------------ what the implementation returned *)
Inductive oval := OUndef | OInt (z : Z) | OBytes (l : list N) | OFloat (m e : Z) (* m * 2^e *) | OInf.
Inductive iout := IPanic | IVals (l : list oval).

Definition float_ok (m e : Z) (f : fval) : bool :=
  let x := f64_q m e in
  match f with
  | FQ q => q_close x q
  | FMonte h t => let (lo, hi) := monte_bounds h t in q_within x lo hi
  | FEntropy hist n => let (lo, hi) := entropy_bounds hist n in q_within x lo hi
  end.

Definition val_ok (o : oval) (r : mres) : bool :=
  match o, r with
  | OUndef, RUndef => true
  | OInt a, RInt b => (a =? b)%Z
  | OBytes a, RBytes b => list_eqb N.eqb a b
  | OFloat m e, RFloat f => float_ok m e f
  | _, _ => false
  end.

Fixpoint vals_ok (os : list oval) (rs : list mres) : bool :=
  match os, rs with
  | [], [] => true
  | o :: os', r :: rs' => val_ok o r && vals_ok os' rs'
  | _, _ => false
  end.

Definition is_panic (r : mres) : bool := match r with RPanic => true | _ => false end.

Definition out_ok (o : iout) (rs : list mres) : bool :=
  match o with
  | IPanic => existsb is_panic rs
  | IVals os => negb (existsb is_panic rs) && vals_ok os rs
  end.

Definition C16_case (m : memory) (ps : list (fn * list arg)) (o : iout) : bool * bool * N :=
  (out_ok o (model_run m no_caches ps), out_ok o (spec_run m ps), 0).

(* ------------------------------------------------------------------ huge periodic inputs
   The input is k copies of the pattern p (as one byte slice, or as adjacent regions cut at period boundaries when
   `frag`), too long to be materialised here; probes range over whole periods and are specified in closed form
   (Spec/PeriodicSpec.v).  `None` = the probe is outside this family (generator error). *)
Definition huge_call (p : list N) (k : N) (frag : bool) (f : fn) (args : list arg) : option mres :=
  let with_q (o n : Z) (g : N -> mres) : option mres :=
    match periods (nlen p) k o n with
    | None => None
    | Some None => Some RUndef
    | Some (Some q) => Some (g q)
    end in
  let whole (g : N -> mres) : option mres := Some (if frag then RUndef else g k) in
  match f, args with
  | MMean, [AInt o; AInt n] => with_q o n (fun q => of_opt_f (p_mean p q))
  | MDeviation, [AInt o; AInt n; AFlt mu] => with_q o n (fun q => of_opt_f (p_deviation p q mu))
  | MEntropy, [AInt o; AInt n] => with_q o n (fun q => RFloat (p_entropy p q))
  | MSerial, [AInt o; AInt n] => with_q o n (fun q => RFloat (p_scc p q))
  | MMonte, [AInt o; AInt n] => with_q o n (fun q => of_opt_f (p_monte p q))
  | MMode, [AInt o; AInt n] => with_q o n (fun q => RInt (p_mode p q))
  | MMode, [] => whole (fun q => RInt (p_mode p q))
  | MCount, [AInt b; AInt o; AInt n] =>
      if (b <? 0)%Z then Some RUndef else with_q o n (fun q => of_opt_z (p_count_opt p q (Z.to_N b)))
  | MCount, [AInt b] => if (b <? 0)%Z then Some RUndef else whole (fun q => of_opt_z (p_count_opt p q (Z.to_N b)))
  | MPercentage, [AInt b; AInt o; AInt n] =>
      if (b <? 0)%Z then Some RUndef else with_q o n (fun q => of_opt_f (p_percentage p q (Z.to_N b)))
  | MPercentage, [AInt b] =>
      if (b <? 0)%Z then Some RUndef else whole (fun q => of_opt_f (p_percentage p q (Z.to_N b)))
  | HChecksum32, [AInt o; AInt n] => with_q o n (fun q => RInt (Z.of_N (p_checksum32 p q)))
  | _, _ => None
  end.

Fixpoint huge_run (p : list N) (k : N) (frag : bool) (ps : list (fn * list arg)) : option (list mres) :=
  match ps with
  | [] => Some []
  | (f, args) :: ps' =>
      match huge_call p k frag f args, huge_run p k frag ps' with
      | Some v, Some vs => Some (v :: vs)
      | _, _ => None
      end
  end.

Definition C16_huge_case (p : list N) (k : N) (frag : bool) (ps : list (fn * list arg)) (o : iout) : bool * bool * N :=
  match huge_run p k frag ps with
  | Some rs => (out_ok o rs, out_ok o rs, 0)
  | None => (false, false, 0)
  end.
