(* Model/TextCase.v — the correspondence term for C01 (evaluated by vm_compute on generated cases). *)
From Boreal Require Import Base.Prelude Base.ListX Base.Bytes Base.Consts Model.Base64 Model.Literals Model.AcScan
  Spec.TextSpec.

(* base64 only — per-declaration validation: boreal's `encode_base64` of every plain form at the
   three alignments is the declarative trimmed encoding (None when nothing survives).  Decidable, a
   function of the declaration alone; hypothesis of C01_text_matches for base64 strings and evaluated
   on every generated case. *)
Definition opt_of_bytes (e : bytes) : option bytes := match e with [] => None | _ => Some e end.
Definition b64_okb (d : tdecl) : bool :=
  match t_b64 d with
  | None => true
  | Some b =>
      let alphabet := match b_alpha b with Some a => a | None => BASE64_DEFAULT_ALPHABET end in
      forallb (fun lit => forallb (fun off =>
          opt_eqb bytes_eqb (encode_base64 lit (b_alpha b) off) (opt_of_bytes (spec_b64 alphabet lit off)))
        [0; 1; 2]) (base_literals d)
  end.

(* specification side: what the reported list must be for declaration d on input m.
   Offsets: exactly spec_offsets (its first `lim` elements when there are more: on one contiguous
   input the limit keeps the smallest offsets, C14_prefix_single); every record is that of a true
   encoding occurrence, with base 0, capped data and a key that un-xors to the text. *)
Definition C01_spec_ok (d : tdecl) (m : bytes) (prm : sparams) (out : list smatch) : bool :=
  list_eqb N.eqb (map sm_off out) (ntake (p_max_nb_matches prm) (spec_offsets d m))
  && forallb (fun x =>
       (sm_base x =? 0)
       && record_ok d m (p_match_max_length prm) (sm_off x) (sm_len x) (sm_key x) (sm_data x)
       && unxor_ok d m (sm_off x) (sm_len x) (sm_key x)) out.

Definition C01_case (d : tdecl) (m : bytes) (prm : sparams) (out : list smatch) : bool * bool * N :=
  (list_eqb smatch_eqb out (model_scan_text prm d m) && b64_okb d, C01_spec_ok d m prm out, 0).
