(* Model/ModuleTypesCase.v — the correspondence / specification term for C17, evaluated by vm_compute on the
   module value trees the real scanner publishes (ScanResult.modules[*].dynamic_values) and on probe expressions
   compiled and evaluated by the real compiler / evaluator.  Definitions only. *)
From Coq Require Import String.
From Boreal Require Import Base.Prelude Base.Res Model.ModuleTypes Model.ModuleTrees.

Definition prim_eqb (a b : prim) : bool :=
  match a, b with
  | PInteger x, PInteger y => Z.eqb x y
  | PFloat x, PFloat y => N.eqb x y
  | PBytes x, PBytes y => bytes_eqb x y
  | PRegex x, PRegex y => N.eqb x y
  | PBoolean x, PBoolean y => Bool.eqb x y
  | _, _ => false
  end.

(* ---- what the harness prints: a module value, with arrays / dictionaries / byte strings pruned to a bounded
   number of leading elements but their real sizes kept.  A function is shown by a finite sample of its graph: the
   harness called it on each listed argument list (None = the function returned None). *)
Inductive dvalue : Type :=
| DInteger (z : Z)
| DFloat (bits : N)
| DBytes (len : N) (prefix : list N)
| DRegex
| DBoolean (b : bool)
| DObject (fields : list (string * dvalue))
| DArray (len : N) (kept : list dvalue)
| DDict (len : N) (kept : list (list N * dvalue))
| DFunction (samples : list (list prim * option dvalue))
| DUndefined.

(* the module value the evaluator sees, restricted to what was kept *)
Fixpoint to_mvalue (d : dvalue) : mvalue :=
  match d with
  | DInteger z => VInteger z
  | DFloat b => VFloat b
  | DBytes _ p => VBytes p
  | DRegex => VRegex 0
  | DBoolean b => VBoolean b
  | DObject fields => VObject (map (fun kv => (fst kv, to_mvalue (snd kv))) fields)
  | DArray _ kept => VArray (map to_mvalue kept)
  | DDict _ kept => VDict (map (fun kv => (fst kv, to_mvalue (snd kv))) kept)
  | DFunction samples =>
      VFunction (fun args =>
                   (fix go (l : list (list prim * option dvalue)) : option mvalue :=
                      match l with
                      | [] => None
                      | (a, r) :: l' =>
                          if list_eqb prim_eqb a args
                          then match r with Some d' => Some (to_mvalue d') | None => None end
                          else go l'
                      end) samples)
  | DUndefined => VUndefined
  end.

Fixpoint sample_get (args : list prim) (l : list (list prim * option dvalue)) : option (option dvalue) :=
  match l with
  | [] => None
  | (a, r) :: l' => if list_eqb prim_eqb a args then Some r else sample_get args l'
  end.

(* ---- structural sanity of a dump: kept elements never exceed the reported size *)
Fixpoint dump_wf (d : dvalue) : bool :=
  match d with
  | DBytes len p => nlen p <=? len
  | DObject fields =>
      (fix go (l : list (string * dvalue)) : bool :=
         match l with [] => true | (_, d') :: l' => dump_wf d' && go l' end) fields
  | DArray len kept =>
      (nlen kept <=? len)
      && (fix go (l : list dvalue) : bool := match l with [] => true | d' :: l' => dump_wf d' && go l' end) kept
  | DDict len kept =>
      (nlen kept <=? len)
      && (fix go (l : list (list N * dvalue)) : bool :=
            match l with [] => true | (_, d') :: l' => dump_wf d' && go l' end) kept
  | DFunction samples =>
      (fix go (l : list (list prim * option dvalue)) : bool :=
         match l with
         | [] => true
         | (_, Some d') :: l' => dump_wf d' && go l'
         | (_, None) :: l' => go l'
         end) samples
  | _ => true
  end.

(* every sampled result of a published function conforms to the declared return type (the part of Conforms that the
   boolean `conforms` leaves out, on the sample) *)
Fixpoint fn_samples_ok (ty : mtype) (d : dvalue) : bool :=
  match d with
  | DObject fields =>
      match ty with
      | TObject ftys =>
          (fix go (l : list (string * dvalue)) : bool :=
             match l with
             | [] => true
             | (k, d') :: l' =>
                 match assoc k ftys with Some t => fn_samples_ok t d' | None => true end && go l'
             end) fields
      | _ => true
      end
  | DArray _ kept =>
      match ty with
      | TArray e => (fix go (l : list dvalue) : bool :=
                       match l with [] => true | d' :: l' => fn_samples_ok e d' && go l' end) kept
      | _ => true
      end
  | DDict _ kept =>
      match ty with
      | TDict e => (fix go (l : list (list N * dvalue)) : bool :=
                      match l with [] => true | (_, d') :: l' => fn_samples_ok e d' && go l' end) kept
      | _ => true
      end
  | DFunction samples =>
      match ty with
      | TFunction _ ret =>
          (fix go (l : list (list prim * option dvalue)) : bool :=
             match l with
             | [] => true
             | (_, Some d') :: l' => conforms ret (to_mvalue d') && fn_samples_ok ret d' && go l'
             | (_, None) :: l' => go l'
             end) samples
      | _ => true
      end
  | _ => true
  end.

(* ---- does the evaluation of ops run into a pruned part of the dump?  (then the model cannot predict it) *)
Fixpoint pruned_hit (d : dvalue) (ops : list vop) (exprs : list prim) : bool :=
  match ops with
  | [] => match d with
          | DBytes len p => negb (nlen p =? len)
          | _ => false
          end
  | OpSubfield name :: ops' =>
      match d with
      | DObject fields => match assoc name fields with Some d' => pruned_hit d' ops' exprs | None => false end
      | _ => false
      end
  | OpSubscript :: ops' =>
      match exprs with
      | [] => false
      | sub :: exprs' =>
          match d, sub with
          | DArray len kept, PInteger index =>
              match usize_try_from index with
              | Some i =>
                  match vec_get kept i with
                  | Some d' => pruned_hit d' ops' exprs'
                  | None => i <? len
                  end
              | None => false
              end
          | DDict len kept, PBytes key =>
              match dict_get key kept with
              | Some d' => pruned_hit d' ops' exprs'
              | None => negb (nlen kept =? len)
              end
          | _, _ => false
          end
      end
  | OpCall _ :: _ => true
      (* a published function may read the per-scan module data (pe.rich_signature.version does); the harness samples
         it under a context without that data, so the samples constrain the *kind* of the results (fn_samples_ok)
         but do not predict the value a rule sees *)
  end.

(* ---- probes: one module value use, compiled by the real compiler and evaluated by the real evaluator *)
Record probe : Type := {
  p_path : list top;             (* operations after the module name, with the types of the index expressions *)
  p_exprs : list prim;           (* values of the index / argument expressions, in order *)
  p_compiled : bool;             (* the real compiler accepted `console.log("<tag>", <use>)` *)
  p_observed : option prim       (* what console.log received; None = nothing logged (undefined) *)
}.

Definition observed_res (o : option prim) : res prim :=
  match o with Some p => Ok p | None => Undef end.

(* console.log shows integers, floats and byte strings; a defined boolean / regex value is observed only as
   "defined but not logged", which the check encodes as PRegex 1 *)
Definition obs_matches (o : option prim) (r : res prim) : bool :=
  match o, r with
  | Some (PRegex _), Ok (PBoolean _) => true
  | Some (PRegex _), Ok (PRegex _) => true
  | _, _ => res_eqb prim_eqb (observed_res o) r
  end.

(* the compiler accepts the use as an expression *)
Definition model_compiles (tree : mtype) (path : list top) : option ety :=
  match typechecks tree path with
  | Some t => expression_type t
  | None => None
  end.

Definition probe_ok (tree : mtype) (d : dvalue) (p : probe) : bool :=
  match model_compiles tree (p_path p) with
  | None => negb (p_compiled p)
  | Some e =>
      p_compiled p
      && (if pruned_hit d (ops_of (p_path p)) (p_exprs p) then
            (* model cannot predict the value (pruned part or opaque function): the observed value must still have
               the type the compiler assigned (C17_expr_value_typed) *)
            match p_observed p with Some o => ety_eqb (prim_ety o) e | None => true end
          else
            obs_matches (p_observed p) (model_module_expr (to_mvalue d) (ops_of (p_path p)) (p_exprs p)))
  end.

(* ---- counters and caps over a dump *)
Fixpoint d_reach (p : list step) (d : dvalue) : list dvalue :=
  match p with
  | [] => [d]
  | SField name :: p' =>
      match d with
      | DObject fields => match assoc name fields with Some d' => d_reach p' d' | None => [] end
      | _ => []
      end
  | SElem :: p' =>
      match d with
      | DArray _ kept => flat_map (d_reach p') kept
      | DDict _ kept => flat_map (fun kv => d_reach p' (snd kv)) kept
      | _ => []
      end
  end.

Definition d_field (name : string) (d : dvalue) : dvalue :=
  match d with
  | DObject fields => match assoc name fields with Some d' => d' | None => DUndefined end
  | _ => DUndefined
  end.

(* A published counter equals the size of the collection it describes; when the collection itself is not published
   (undefined) it has no elements and a published counter must be 0.  A counter that is not published (undefined —
   elf leaves `symtab_entries` undefined for an empty table, on purpose) constrains nothing.  Anything else in a
   counter slot is a violation. *)
Definition count_ok (counter coll : string) (o : dvalue) : bool :=
  match d_field counter o with
  | DInteger n =>
      match d_field coll o with
      | DArray len _ => Z.eqb n (Z.of_N len)
      | DDict len _ => Z.eqb n (Z.of_N len)
      | DUndefined => Z.eqb n 0
      | _ => false
      end
  | DUndefined => true
  | _ => false
  end.

Definition counts_ok (module : string) (d : dvalue) : bool :=
  forallb (fun e => match e with
                    | (m, prefix, counter, coll) =>
                        if String.eqb m module then forallb (count_ok counter coll) (d_reach prefix d) else true
                    end) count_pairs.

Definition len_le (cap : N) (d : dvalue) : bool :=
  match d with
  | DArray len _ => len <=? cap
  | DDict len _ => len <=? cap
  | DBytes len _ => len <=? cap
  | _ => true
  end.

Definition int_le (cap : N) (d : dvalue) : bool :=
  match d with
  | DInteger z => (z <=? Z.of_N cap)%Z
  | _ => true
  end.

Definition caps_ok (module : string) (d : dvalue) : bool :=
  forallb (fun e => match e with
                    | (m, p, cap) => if String.eqb m module then forallb (len_le cap) (d_reach p d) else true
                    end) (collection_caps ++ bytes_caps)
  && forallb (fun e => match e with
                       | (m, p, cap) => if String.eqb m module then forallb (int_le cap) (d_reach p d) else true
                       end) int_caps.

(* ---- the case term *)
Definition module_tree (module : string) : mtype :=
  match assoc module module_trees with Some t => t | None => TObject [] end.

Definition dumps_corr (dumps : list (string * dvalue)) (probes : list (string * probe)) : bool :=
  forallb (fun kv => dump_wf (snd kv)) dumps
  && forallb (fun mp => match assoc (fst mp) dumps with
                        | Some d => probe_ok (module_tree (fst mp)) d (snd mp)
                        | None => false
                        end) probes.

Definition dumps_spec (dumps : list (string * dvalue)) : bool :=
  forallb (fun kv => conforms (module_tree (fst kv)) (to_mvalue (snd kv))
                     && fn_samples_ok (module_tree (fst kv)) (snd kv)
                     && counts_ok (fst kv) (snd kv)
                     && caps_ok (fst kv) (snd kv)) dumps.

(* idem: the harness scanned the same bytes twice and the two complete (unpruned) dumps were equal *)
Definition C17_case (dumps : list (string * dvalue)) (probes : list (string * probe)) (idem : bool)
  : bool * bool * N :=
  (dumps_corr dumps probes, dumps_spec dumps && idem, 0).
