(* Model/StringMod.v — boreal/src/module/string.rs: to_int (hand-written strtol look-alike) and length.
   `fixed = true` is the code after fix 8bfdd31 (C isspace set, 0x prefix also with base 16); `fixed = false` is the
   pinned tree (u8::is_ascii_whitespace, prefix only with base 0), kept for the `_pinned_refuted` lemma. *)
From Boreal Require Import Base.Prelude Spec.MathSpec Model.ModFuncs.
Open Scope N_scope.

(* u8::is_ascii_whitespace: space, \t, \n, \x0C, \r *)
Definition rust_is_ascii_whitespace (b : N) : bool := (b =? 32) || (b =? 9) || (b =? 10) || (b =? 12) || (b =? 13).
(* matches!(b, b' ' | b'\t'..=b'\r') *)
Definition ws_fixed (b : N) : bool := (b =? 32) || ((9 <=? b) && (b <=? 13)).

Fixpoint skip_ws (fixed : bool) (s : list N) : list N :=
  match s with
  | b :: r => if (if fixed then ws_fixed b else rust_is_ascii_whitespace b) then skip_ws fixed r else s
  | [] => []
  end.

(* (c as char).to_digit(base) *)
Definition to_digit (c : N) (base : Z) : option Z :=
  let v := if (48 <=? c) && (c <=? 57) then Some (c - 48)
           else if (97 <=? c) && (c <=? 122) then Some (c - 97 + 10)
           else if (65 <=? c) && (c <=? 90) then Some (c - 65 + 10)
           else None in
  match v with Some d => if (Z.of_N d <? base)%Z then Some (Z.of_N d) else None | None => None end.

Definition fits_i64 (z : Z) : bool := (-9223372036854775808 <=? z)%Z && (z <=? 9223372036854775807)%Z.

Fixpoint parse_digits (neg : bool) (base : Z) (s : list N) (res : Z) : option Z :=
  match s with
  | [] => Some res
  | c :: r =>
      match to_digit c base with
      | None => None
      | Some d =>
          let m := (res * base)%Z in
          if negb (fits_i64 m) then None                     (* checked_mul *)
          else let v := if neg then (m - d)%Z else (m + d)%Z in
               if fits_i64 v then parse_digits neg base r v else None   (* checked_sub / checked_add *)
      end
  end.

Definition starts_0x (s : list N) : bool :=
  match s with 48 :: x :: _ => (x =? 120) || (x =? 88) | _ => false end.

Definition to_int_gen (fixed : bool) (args : list arg) : mres :=
  match args with
  | AStr s0 :: rest =>
      let s := skip_ws fixed s0 in
      let base0 : option Z :=
        match rest with
        | AInt i :: _ =>
            if (0 <=? i)%Z && (i <? 4294967296)%Z                (* u32::try_from *)
            then if (i =? 0)%Z || ((2 <=? i)%Z && (i <=? 36)%Z) then Some i else None
            else None
        | _ :: _ => None
        | [] => Some 0%Z
        end in
      match base0 with
      | None => RUndef
      | Some base =>
          let '(neg, s) := match s with
                           | 45 :: r => (true, r)
                           | 43 :: r => (false, r)
                           | _ => (false, s)
                           end in
          let '(base, s) :=
            if (base =? 0)%Z then
              if starts_0x s then (16%Z, skipn 2 s)
              else match s with 48 :: _ => (8%Z, s) | _ => (10%Z, s) end
            else if fixed && (base =? 16)%Z && starts_0x s then (base, skipn 2 s)
            else (base, s) in
          match s with
          | [] => RUndef
          | _ => match parse_digits neg base s 0 with Some v => RInt v | None => RUndef end
          end
      end
  | _ => RUndef
  end.

Definition to_int_call := to_int_gen true.
Definition to_int_pinned := to_int_gen false.

Definition length_call (args : list arg) : mres :=
  match args with AStr s :: _ => RInt (Z.of_N (nlen s)) | _ => RUndef end.
