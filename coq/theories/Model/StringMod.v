(* Model/StringMod.v — boreal/src/module/string.rs: to_int (hand-written strtol look-alike) and length.
   `fixed = true` is the code after fix 8bfdd31 (C isspace set, 0x prefix also with base 16); `fixed = false` is the
   pinned tree (u8::is_ascii_whitespace, prefix only with base 0), kept for the `_pinned_refuted` lemma. *)
From Boreal Require Import Base.Prelude Spec.MathSpec Model.ModFuncs.
Open Scope N_scope.

(* u8::is_ascii_whitespace: space, \t, \n, \x0C, \r *)
Definition rust_is_ascii_whitespace (b : N) : bool := (b =? 32) || (b =? 9) || (b =? 10) || (b =? 12) || (b =? 13).
(* matches!(b, b' ' | b'\t'..=b'\r') *)
Definition ws_fixed (b : N) : bool := (b =? 32) || ((9 <=? b) && (b <=? 13)).

Fixpoint skip_ws (fixed : bool) (s : list N) : list N :=
  match s with
  | b :: r => if (if fixed then ws_fixed b else rust_is_ascii_whitespace b) then skip_ws fixed r else s
  | [] => []
  end.

(* (c as char).to_digit(base) *)
Definition to_digit (c : N) (base : Z) : option Z :=
  let v := if (48 <=? c) && (c <=? 57) then Some (c - 48)
           else if (97 <=? c) && (c <=? 122) then Some (c - 97 + 10)
           else if (65 <=? c) && (c <=? 90) then Some (c - 65 + 10)
           else None in
  match v with Some d => if (Z.of_N d <? base)%Z then Some (Z.of_N d) else None | None => None end.

Definition fits_i64 (z : Z) : bool := (-9223372036854775808 <=? z)%Z && (z <=? 9223372036854775807)%Z.

Fixpoint parse_digits (neg : bool) (base : Z) (s : list N) (res : Z) : option Z :=
  match s with
  | [] => Some res
  | c :: r =>
      match to_digit c base with
      | None => None
      | Some d =>
          let m := (res * base)%Z in
          if negb (fits_i64 m) then None                     (* checked_mul *)
          else let v := if neg then (m - d)%Z else (m + d)%Z in
               if fits_i64 v then parse_digits neg base r v else None   (* checked_sub / checked_add *)
      end
  end.

Definition split_sign (s : list N) : bool * list N :=
  match s with
  | c :: r => if c =? 45 then (true, r) else if c =? 43 then (false, r) else (false, s)
  | [] => (false, [])
  end.
Definition starts_0x (s : list N) : bool :=
  match s with c :: x :: _ => (c =? 48) && ((x =? 120) || (x =? 88)) | _ => false end.
Definition starts_0 (s : list N) : bool := match s with c :: _ => c =? 48 | [] => false end.

(* the optional second argument: u32::try_from, then 0 or 2..=36 *)
Definition base_arg (rest : list arg) : option Z :=
  match rest with
  | AInt i :: _ =>
      if (0 <=? i)%Z && (i <? 4294967296)%Z
      then if (i =? 0)%Z || ((2 <=? i)%Z && (i <=? 36)%Z) then Some i else None
      else None
  | _ :: _ => None
  | [] => Some 0%Z
  end.

Definition finish (neg : bool) (base : Z) (s : list N) : mres :=
  match s with
  | [] => RUndef
  | _ => match parse_digits neg base s 0 with Some v => RInt v | None => RUndef end
  end.

Definition to_int_core (fixed : bool) (s0 : list N) (base : Z) : mres :=
  let s := skip_ws fixed s0 in
  let '(neg, s) := split_sign s in
  if (base =? 0)%Z then
    if starts_0x s then finish neg 16 (skipn 2 s)
    else if starts_0 s then finish neg 8 s       (* s is not advanced, so that "0" parses *)
    else finish neg 10 s
  else if fixed && (base =? 16)%Z && starts_0x s then finish neg base (skipn 2 s)
  else finish neg base s.

Definition to_int_gen (fixed : bool) (args : list arg) : mres :=
  match args with
  | AStr s0 :: rest => match base_arg rest with Some base => to_int_core fixed s0 base | None => RUndef end
  | _ => RUndef
  end.

Definition to_int_call := to_int_gen true.
Definition to_int_pinned := to_int_gen false.

Definition length_call (args : list arg) : mres :=
  match args with AStr s :: _ => RInt (Z.of_N (nlen s)) | _ => RUndef end.
