(* Model/Wire.v — generic model of boreal's wire format (boreal/src/wire.rs and every `mod wire`).

   The primitive layer is borsh 1.x (wire.rs re-exports BorshSerialize/BorshDeserialize for std types):
   integers little-endian, usize as u64, bool one byte (0/1, anything else rejected), Option one tag byte
   (0/1, anything else rejected) followed by the payload, String/Vec<T>/Box<[T]>/HashMap a u32 length followed
   by the elements, [u8; N] the N bytes, NonZeroU32 a u32 that must not be 0, f64 the IEEE bit pattern with
   NaN rejected on both sides.  On top of that every `mod wire` block writes structs as the concatenation of
   their fields and enums as a u8 discriminant followed by the fields of the variant.

   A schema describes one Rust type; a field of a struct / variant carries the *name of the Rust field* it
   is taken from (write side) or ends up in (read side), so that two schemas with the same byte layout but
   fields crossed are different.  Values are records keyed by the same names.

   Definitions only (Proofs/WireProofs.v has the theorems). *)
From Boreal Require Import Base.Prelude.
From Coq Require Import String.

Definition bytes := list N.

Inductive schema : Type :=
| SU8 | SU32 | SU64 | SNZ32 | SI64 | SF64 | SBool
| SStr                      (* String, Box<str>, &str *)
| SBytes                    (* Vec<u8>, Box<[u8]> *)
| SFixed (n : N)            (* [u8; n] *)
| SSeq (s : schema)         (* Vec<T>, Box<[T]>, &[T] *)
| SOpt (s : schema)
| SStruct (fs : list (string * schema))       (* field name, wire type; in wire order *)
| SEnum (vs : list (string * N * schema))     (* constructor, discriminant, payload *)
| SRef (name : string).                       (* a named wire type (allows recursion) *)

(* HashMap<K,V> is written by borsh as the u32 number of entries followed by the (key, value) pairs sorted by
   key: the same bytes as a Vec of two-field records. *)
Definition SMap (k v : schema) : schema := SSeq (SStruct [("key"%string, k); ("value"%string, v)]).

Inductive value : Type :=
| VN (n : N)                (* any integer; i64 and f64 as their 64-bit pattern *)
| VB (b : bool)
| VS (l : list N)           (* contents of a string / byte string / fixed array *)
| VSeq (l : list value)
| VOpt (o : option value)
| VRec (fs : list (string * value))
| VCtor (c : string) (v : value).

Definition env := list (string * schema).

Fixpoint lookup {A} (n : string) (e : list (string * A)) : option A :=
  match e with
  | [] => None
  | (m, s) :: t => if String.eqb n m then Some s else lookup n t
  end.

(* one step of name resolution; a name bound to another name is not a wire type *)
Definition resolve (e : env) (s : schema) : option schema :=
  match s with
  | SRef n => match lookup n e with
              | Some (SRef _) => None
              | r => r
              end
  | _ => Some s
  end.

(* ---------------------------------------------------------------- little endian *)
Fixpoint le (k : nat) (n : N) : bytes :=
  match k with
  | O => []
  | S k' => (n mod 256) :: le k' (n / 256)
  end.

Fixpoint unle (l : bytes) : N :=
  match l with
  | [] => 0
  | b :: t => b + 256 * unle t
  end.

Definition take (k : nat) (bs : bytes) : option (bytes * bytes) :=
  if (k <=? List.length bs)%nat then Some (firstn k bs, skipn k bs) else None.

Definition get_le (k : nat) (bs : bytes) : option (N * bytes) :=
  match take k bs with
  | Some (a, r) => Some (unle a, r)
  | None => None
  end.

Definition two32 : N := 4294967296.
Definition two64 : N := 18446744073709551616.
Definition two52 : N := 4503599627370496.

(* IEEE-754 binary64 NaN: exponent all ones, mantissa non-zero *)
Definition is_nan (n : N) : bool :=
  (((n / two52) mod 2048) =? 2047) && negb ((n mod two52) =? 0).

(* ---------------------------------------------------------------- encode (the `serialize` side) *)
Definition enc_list {A} (f : A -> option bytes) : list A -> option bytes :=
  fix go (l : list A) : option bytes :=
    match l with
    | [] => Some []
    | x :: t => match f x, go t with
                | Some a, Some b => Some (a ++ b)
                | _, _ => None
                end
    end.

Definition enc_fields (f : value -> schema -> option bytes)
  : list (string * value) -> list (string * schema) -> option bytes :=
  fix go (m : list (string * value)) (fs : list (string * schema)) : option bytes :=
    match m with
    | [] => match fs with [] => Some [] | _ :: _ => None end
    | gx :: m' =>
        match fs with
        | [] => None
        | ht :: fs' =>
            if String.eqb (fst gx) (fst ht) then
              match f (snd gx) (snd ht), go m' fs' with
              | Some a, Some b => Some (a ++ b)
              | _, _ => None
              end
            else None
        end
    end.

Fixpoint find_ctor (c : string) (vs : list (string * N * schema)) : option (N * schema) :=
  match vs with
  | [] => None
  | (c', tag, t) :: r => if String.eqb c c' then Some (tag, t) else find_ctor c r
  end.

Fixpoint find_tag (tag : N) (vs : list (string * N * schema)) : option (string * schema) :=
  match vs with
  | [] => None
  | (c, tag', t) :: r => if tag =? tag' then Some (c, t) else find_tag tag r
  end.

Definition with_len {A} (l : list A) (body : option bytes) : option bytes :=
  if nlen l <? two32 then
    match body with Some b => Some (le 4 (nlen l) ++ b) | None => None end
  else None.

Fixpoint encode (e : env) (v : value) (s : schema) {struct v} : option bytes :=
  match resolve e s with
  | None => None
  | Some s' =>
    match s', v with
    | SU8, VN n => if n <? 256 then Some [n] else None
    | SU32, VN n => if n <? two32 then Some (le 4 n) else None
    | SNZ32, VN n => if (0 <? n) && (n <? two32) then Some (le 4 n) else None
    | SU64, VN n => if n <? two64 then Some (le 8 n) else None
    | SI64, VN n => if n <? two64 then Some (le 8 n) else None
    | SF64, VN n => if (n <? two64) && negb (is_nan n) then Some (le 8 n) else None
    | SBool, VB b => Some [if b then 1 else 0]
    | SStr, VS l => with_len l (Some l)
    | SBytes, VS l => with_len l (Some l)
    | SFixed k, VS l => if nlen l =? k then Some l else None
    | SSeq t, VSeq l => with_len l (enc_list (fun x => encode e x t) l)
    | SOpt t, VOpt None => Some [0]
    | SOpt t, VOpt (Some x) => match encode e x t with Some a => Some (1 :: a) | None => None end
    | SStruct fs, VRec m => enc_fields (fun x t => encode e x t) m fs
    | SEnum vs, VCtor c x =>
        match find_ctor c vs with
        | Some (tag, t) =>
            if tag <? 256 then
              match encode e x t with Some a => Some (tag :: a) | None => None end
            else None
        | None => None
        end
    | _, _ => None
    end
  end.

(* ---------------------------------------------------------------- decode (the `deserialize` side) *)
Fixpoint dec_list {A} (f : bytes -> option (A * bytes)) (k : nat) (bs : bytes) : option (list A * bytes) :=
  match k with
  | O => Some ([], bs)
  | S k' => match f bs with
            | Some (x, bs1) => match dec_list f k' bs1 with
                               | Some (xs, bs2) => Some (x :: xs, bs2)
                               | None => None
                               end
            | None => None
            end
  end.

Fixpoint dec_fields (f : schema -> bytes -> option (value * bytes)) (fs : list (string * schema)) (bs : bytes)
  : option (list (string * value) * bytes) :=
  match fs with
  | [] => Some ([], bs)
  | (h, t) :: fs' => match f t bs with
                     | Some (x, bs1) => match dec_fields f fs' bs1 with
                                        | Some (m, bs2) => Some ((h, x) :: m, bs2)
                                        | None => None
                                        end
                     | None => None
                     end
  end.

Definition dec_blob (bs : bytes) : option (value * bytes) :=
  match get_le 4 bs with
  | Some (n, r) => match take (N.to_nat n) r with
                   | Some (a, r') => Some (VS a, r')
                   | None => None
                   end
  | None => None
  end.

Fixpoint decode (e : env) (fuel : nat) (s : schema) (bs : bytes) {struct fuel} : option (value * bytes) :=
  match fuel with
  | O => None
  | S f =>
    match resolve e s with
    | None => None
    | Some s' =>
      match s' with
      | SU8 => match get_le 1 bs with Some (n, r) => Some (VN n, r) | None => None end
      | SU32 => match get_le 4 bs with Some (n, r) => Some (VN n, r) | None => None end
      | SNZ32 => match get_le 4 bs with
                 | Some (n, r) => if 0 <? n then Some (VN n, r) else None
                 | None => None
                 end
      | SU64 => match get_le 8 bs with Some (n, r) => Some (VN n, r) | None => None end
      | SI64 => match get_le 8 bs with Some (n, r) => Some (VN n, r) | None => None end
      | SF64 => match get_le 8 bs with
                | Some (n, r) => if is_nan n then None else Some (VN n, r)
                | None => None
                end
      | SBool => match bs with
                 | 0 :: r => Some (VB false, r)
                 | 1 :: r => Some (VB true, r)
                 | _ => None
                 end
      | SStr => dec_blob bs
      | SBytes => dec_blob bs
      | SFixed k => match take (N.to_nat k) bs with Some (a, r) => Some (VS a, r) | None => None end
      | SSeq t => match get_le 4 bs with
                  | Some (n, r) => match dec_list (decode e f t) (N.to_nat n) r with
                                   | Some (l, r') => Some (VSeq l, r')
                                   | None => None
                                   end
                  | None => None
                  end
      | SOpt t => match bs with
                  | 0 :: r => Some (VOpt None, r)
                  | 1 :: r => match decode e f t r with
                              | Some (x, r') => Some (VOpt (Some x), r')
                              | None => None
                              end
                  | _ => None
                  end
      | SStruct fs => match dec_fields (decode e f) fs bs with
                      | Some (m, r) => Some (VRec m, r)
                      | None => None
                      end
      | SEnum vs => match bs with
                    | tag :: r => match find_tag tag vs with
                                  | Some (c, t) => match decode e f t r with
                                                   | Some (x, r') => Some (VCtor c x, r')
                                                   | None => None
                                                   end
                                  | None => None
                                  end
                    | [] => None
                    end
      | SRef _ => None
      end
    end
  end.

(* ---------------------------------------------------------------- well-formedness, depth, equality *)
Fixpoint nodupb (l : list N) : bool :=
  match l with
  | [] => true
  | x :: t => negb (existsb (N.eqb x) t) && nodupb t
  end.

Definition tags_of (vs : list (string * N * schema)) : list N :=
  map (fun v => match v with (_, tag, _) => tag end) vs.

(* discriminants of an enum are pairwise distinct and fit a byte, hereditarily *)
Fixpoint wf_schemab (s : schema) : bool :=
  match s with
  | SSeq t => wf_schemab t
  | SOpt t => wf_schemab t
  | SStruct fs => forallb (fun ft => match ft with (_, t) => wf_schemab t end) fs
  | SEnum vs => nodupb (tags_of vs)
                && forallb (fun v => match v with (_, tag, t) => (tag <? 256) && wf_schemab t end) vs
  | _ => true
  end.

Definition wf_envb (e : env) : bool := forallb (fun ns => wf_schemab (snd ns)) e.

(* constructor names of an enum are pairwise distinct, hereditarily (needed for the converse direction:
   every accepted byte string is the encoding of the value it decodes to) *)
Fixpoint nodup_strb (l : list string) : bool :=
  match l with
  | [] => true
  | x :: t => negb (existsb (String.eqb x) t) && nodup_strb t
  end.
Definition ctors_of (vs : list (string * N * schema)) : list string :=
  map (fun v => match v with (c, _, _) => c end) vs.
Fixpoint cwf_schemab (s : schema) : bool :=
  match s with
  | SSeq t => cwf_schemab t
  | SOpt t => cwf_schemab t
  | SStruct fs => forallb (fun ft => match ft with (_, t) => cwf_schemab t end) fs
  | SEnum vs => nodup_strb (ctors_of vs)
                && forallb (fun v => match v with (_, _, t) => cwf_schemab t end) vs
  | _ => true
  end.
Definition cwf_envb (e : env) : bool := forallb (fun ns => cwf_schemab (snd ns)) e.

(* every name used resolves to a proper (non-name) schema *)
Fixpoint closedb (e : env) (s : schema) : bool :=
  match s with
  | SSeq t => closedb e t
  | SOpt t => closedb e t
  | SStruct fs => forallb (fun ft => match ft with (_, t) => closedb e t end) fs
  | SEnum vs => forallb (fun v => match v with (_, _, t) => closedb e t end) vs
  | SRef n => match resolve e (SRef n) with Some _ => true | None => false end
  | _ => true
  end.

Definition closed_envb (e : env) : bool := forallb (fun ns => closedb e (snd ns)) e.

Definition list_max (l : list nat) : nat := fold_right Nat.max O l.

Fixpoint vdepth (v : value) : nat :=
  match v with
  | VSeq l => S (list_max (map vdepth l))
  | VOpt (Some x) => S (vdepth x)
  | VRec m => S (list_max (map (fun fx => match fx with (_, x) => vdepth x end) m))
  | VCtor _ x => S (vdepth x)
  | _ => 1%nat
  end.

Fixpoint schema_eqb (a b : schema) {struct a} : bool :=
  match a, b with
  | SU8, SU8 | SU32, SU32 | SU64, SU64 | SNZ32, SNZ32 | SI64, SI64 | SF64, SF64 | SBool, SBool
  | SStr, SStr | SBytes, SBytes => true
  | SFixed n, SFixed m => n =? m
  | SSeq x, SSeq y => schema_eqb x y
  | SOpt x, SOpt y => schema_eqb x y
  | SStruct fs, SStruct gs =>
      (fix go (fs gs : list (string * schema)) : bool :=
         match fs, gs with
         | [], [] => true
         | (f, x) :: fs', (g, y) :: gs' => String.eqb f g && schema_eqb x y && go fs' gs'
         | _, _ => false
         end) fs gs
  | SEnum vs, SEnum ws =>
      (fix go (vs ws : list (string * N * schema)) : bool :=
         match vs, ws with
         | [], [] => true
         | (c, i, x) :: vs', (d, j, y) :: ws' => String.eqb c d && (i =? j) && schema_eqb x y && go vs' ws'
         | _, _ => false
         end) vs ws
  | SRef n, SRef m => String.eqb n m
  | _, _ => false
  end.

Fixpoint env_eqb (a b : env) : bool :=
  match a, b with
  | [], [] => true
  | (n, x) :: a', (m, y) :: b' => String.eqb n m && schema_eqb x y && env_eqb a' b'
  | _, _ => false
  end.

Fixpoint bytes_eqb (a b : bytes) : bool :=
  match a, b with
  | [], [] => true
  | x :: a', y :: b' => (x =? y) && bytes_eqb a' b'
  | _, _ => false
  end.

(* ---------------------------------------------------------------- rebuild parameters (layer 3)
   An object that is not stored but rebuilt on load is identified with the arguments of its constructor
   call; a site lists them as (parameter name, argument text or literal). *)
Record site := { site_name : string; site_params : list (string * string) }.

Fixpoint params_eqb (a b : list (string * string)) : bool :=
  match a, b with
  | [], [] => true
  | (p, x) :: a', (q, y) :: b' => String.eqb p q && String.eqb x y && params_eqb a' b'
  | _, _ => false
  end.

Definition site_eqb (a b : site) : bool :=
  String.eqb (site_name a) (site_name b) && params_eqb (site_params a) (site_params b).

(* The only fields of wire types that may be absent from the byte stream: automata, pools, function pointers and
   per-scan user data, all recomputed by the deserialiser from what *is* stored (reviewed by hand; a field
   appearing here without review is a change of the format). *)
Definition expected_rebuilt : list (string * list string) :=
  [("DfaValidator", ["dfa"; "pool"]); ("Inner", ["ac_scan"]);
   ("ModuleExpressionKind::StaticFunction", ["fun"]); ("RawMatcher", ["regex"]); ("Regex", ["meta"]);
   ("Scanner", ["module_user_data"])]%string.

Definition fields_table_eqb (a b : list (string * list string)) : bool :=
  list_eqb (fun x y => String.eqb (fst x) (fst y) && list_eqb String.eqb (snd x) (snd y)) a b.

(* ---------------------------------------------------------------- access helpers (case evaluation) *)
Definition field (f : string) (v : value) : option value :=
  match v with VRec m => lookup f m | _ => None end.

Fixpoint path (fs : list string) (v : value) : option value :=
  match fs with
  | [] => Some v
  | f :: r => match field f v with Some x => path r x | None => None end
  end.
