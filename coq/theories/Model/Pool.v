(* Model/Pool.v — ThreadPool of boreal-cli/src/main.rs as a transition system over all schedules.
   Definitions only.

     main thread (producer)            channel                       n workers
     send_directory / scan list  --->  crossbeam bounded(cap)  --->  while let Ok(path) = recv() {
       eprintln!(walk errors)            FIFO, cap = 5 n                 scan_file(path)   -- one stdout lock per event
       sender.send(path)                                                 println!(count)   -- one lock
     drop(sender); join                                              }

   State: what the producer still has to do (`todo`: lines it writes itself and paths it sends, in
   walk order), the queue, whether the sender has been dropped, one state per worker, the output
   written so far, and ghost fields used only to state the invariants: `sent`, `scanned`, `said`
   (lines the producer has written), `log` (the blocks written so far, one entry per lock
   acquisition) and, in a busy worker, `pre` (the blocks it has already written for its file).

   A busy worker holds the blocks it has still to write for the file it received; a block is what one
   `handle_event` call (or the count `println!`) writes while it holds the stdout lock, so a step
   appends a whole block: blocks of different workers interleave, lines inside a block do not.

   Contract of the channel (crossbeam-channel, not modelled further): a sent item is received by
   exactly one receiver, in FIFO order; `send` blocks while `cap` items are queued; `recv` fails only
   when the channel is empty and all senders are dropped.  `cap = 0` (rendezvous) is not modelled:
   nb_threads >= 1 makes cap >= 5. *)
From Boreal Require Import Base.Prelude.
Local Open Scope nat_scope.

(* n-way interleaving, built the way the log grows: `MergeR ls l` — l is obtained from the empty
   list by repeatedly appending one element to l and to one of the components of ls; every
   component is then a subsequence of l, in order, and l has no other elements *)
Inductive MergeR {B : Type} : list (list B) -> list B -> Prop :=
| MR_nil : forall ls, Forall (fun l => l = []) ls -> MergeR ls []
| MR_snoc : forall ls1 l x ls2 lg,
    MergeR (ls1 ++ l :: ls2) lg -> MergeR (ls1 ++ (l ++ [x]) :: ls2) (lg ++ [x]).


Section Pool.
  Variables F L : Type.
  Variable blocks_of : F -> list (list L).

  Inductive wstate :=
  | WIdle                                    (* blocked in / about to call recv() *)
  | WBusy (f : F) (pre rest : list (list L)) (* scanning f; blocks written (ghost) / still to be written *)
  | WExited.                                 (* recv() returned Err: loop left, thread finished *)

  Definition action := (L + F)%type.

  Record state := mk {
    todo : list action;
    sent : list F;          (* ghost: paths sent so far, in order *)
    queue : list F;
    closed : bool;
    workers : list wstate;
    out : list L;
    scanned : list F;       (* ghost: files whose scan has completed, in completion order *)
    said : list L;          (* ghost: lines written by the producer *)
    log : list (list L) }.  (* ghost: the blocks written, in order *)

  Definition init (acts : list action) (n : nat) : state :=
    mk acts [] [] false (repeat WIdle n) [] [] [] [].

  Inductive step (cap : nat) : state -> state -> Prop :=
  | StepSay : forall l td se q c ws o sc sd lg,       (* the main thread writes a line of its own *)
      step cap (mk (inl l :: td) se q c ws o sc sd lg) (mk td se q c ws (o ++ [l]) sc (sd ++ [l]) (lg ++ [[l]]))
  | StepSend : forall f td se q ws o sc sd lg,        (* sender.send(path) completes: room in the channel *)
      length q < cap ->
      step cap (mk (inr f :: td) se q false ws o sc sd lg) (mk td (se ++ [f]) (q ++ [f]) false ws o sc sd lg)
  | StepClose : forall se q ws o sc sd lg,            (* drop(sender) *)
      step cap (mk [] se q false ws o sc sd lg) (mk [] se q true ws o sc sd lg)
  | StepRecv : forall f td se q c w1 w2 o sc sd lg,   (* a waiting worker receives the head of the queue *)
      step cap (mk td se (f :: q) c (w1 ++ WIdle :: w2) o sc sd lg)
               (mk td se q c (w1 ++ WBusy f [] (blocks_of f) :: w2) o sc sd lg)
  | StepEmit : forall f pre b bs td se q c w1 w2 o sc sd lg, (* one event block, written under the stdout lock *)
      step cap (mk td se q c (w1 ++ WBusy f pre (b :: bs) :: w2) o sc sd lg)
               (mk td se q c (w1 ++ WBusy f (pre ++ [b]) bs :: w2) (o ++ b) sc sd (lg ++ [b]))
  | StepFinish : forall f pre td se q c w1 w2 o sc sd lg,    (* end of the loop body *)
      step cap (mk td se q c (w1 ++ WBusy f pre [] :: w2) o sc sd lg)
               (mk td se q c (w1 ++ WIdle :: w2) o (sc ++ [f]) sd lg)
  | StepExit : forall td se w1 w2 o sc sd lg,         (* recv() fails: channel empty and closed *)
      step cap (mk td se [] true (w1 ++ WIdle :: w2) o sc sd lg)
               (mk td se [] true (w1 ++ WExited :: w2) o sc sd lg).

  Inductive reachable (cap : nat) (s0 : state) : state -> Prop :=
  | ReachRefl : reachable cap s0 s0
  | ReachStep : forall s s', reachable cap s0 s -> step cap s s' -> reachable cap s0 s'.

  (* thread_pool.join() has returned: the process is about to exit *)
  Definition terminal (s : state) : Prop :=
    todo s = [] /\ closed s = true /\ queue s = [] /\ Forall (fun w => w = WExited) (workers s).

  Definition sent_of (acts : list action) : list F :=
    flat_map (fun a => match a with inr f => [f] | inl _ => [] end) acts.
  Definition said_of (acts : list action) : list L :=
    flat_map (fun a => match a with inl l => [l] | inr _ => [] end) acts.

  Definition lines_of (f : F) : list L := concat (blocks_of f).

  Definition inflight_of (w : wstate) : list F := match w with WBusy f _ _ => [f] | _ => [] end.
  Definition pending_of (w : wstate) : list L := match w with WBusy _ _ rest => concat rest | _ => [] end.
  Definition pre_of (w : wstate) : list (list L) := match w with WBusy _ pre _ => pre | _ => [] end.
  Definition inflight (ws : list wstate) : list F := flat_map inflight_of ws.
  Definition pending (ws : list wstate) : list L := flat_map pending_of ws.

  (* termination measure: strictly decreases along every step *)
  Definition wweight (w : wstate) : nat :=
    match w with WIdle => 1 | WBusy _ _ rest => 2 + length rest | WExited => 0 end.
  Definition aweight (a : action) : nat :=
    match a with inl _ => 1 | inr f => 4 + length (blocks_of f) end.
  Definition measure (s : state) : nat :=
    list_sum (map aweight (todo s))
    + (if closed s then 0 else 1)
    + list_sum (map (fun f => 3 + length (blocks_of f)) (queue s))
    + list_sum (map wweight (workers s)).
End Pool.

Arguments mk {F L}.
Arguments todo {F L}.
Arguments sent {F L}.
Arguments queue {F L}.
Arguments closed {F L}.
Arguments workers {F L}.
Arguments out {F L}.
Arguments scanned {F L}.
Arguments said {F L}.
Arguments log {F L}.
Arguments init {F L}.
Arguments step {F L}.
Arguments reachable {F L}.
Arguments terminal {F L}.
Arguments sent_of {F L}.
Arguments said_of {F L}.
Arguments lines_of {F L}.
Arguments inflight {F L}.
Arguments pending {F L}.
Arguments measure {F L}.
Arguments WIdle {F L}.
Arguments WBusy {F L}.
Arguments WExited {F L}.
