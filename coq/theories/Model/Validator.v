(* Model/Validator.v — boreal/src/matcher/validator.rs: `Validator::validate_match` for the
   NonGreedy and Greedy kinds, the MAX_SPLIT_MATCH_LENGTH windows and the use of `start_position`;
   `matcher/analysis.rs` as far as the validator choice needs it.
   The two searches of a half validator are parameters here (`fwd start lim`, `rev lo e`); they are
   instantiated by the DFA contract (`dfa_fwd`, `dfa_rev`, from Spec/Regex.v through
   validator/dfa.rs: pattern 0 = the HIR, or its widened form when the match type is wide) or by
   Model/SimpleValidator.v.  Definitions only. *)
From Boreal Require Import Base.Prelude Base.Consts Spec.Regex Model.Widen.

(* re-extracted from boreal/src/matcher/validator.rs on every run (translators/consts.py -> Base/Consts.v) *)
Definition MAX_SPLIT_MATCH_LENGTH : N := Consts.MAX_SPLIT_MATCH_LENGTH.

Inductive mtype := MAscii | MWideStandard | MWideAlternate.
Definition is_wide_mt (t : mtype) : bool := match t with MAscii => false | _ => true end.

Record mods := { m_fullword : bool; m_wide : bool; m_ascii : bool; m_nocase : bool; m_dot_all : bool }.
(* flags of the searches boreal runs: never `wide` (wide matching goes through `widen_hir`) *)
Definition flags_of (md : mods) : rflags := {| nocase := m_nocase md; dot_all := m_dot_all md; wide := false |}.
Definition wide_flags_of (md : mods) : rflags := {| nocase := m_nocase md; dot_all := m_dot_all md; wide := true |}.

(* ---- analysis.rs (the flags the matcher choice reads) *)
Fixpoint has_greedy (h : hir) : bool :=
  match h with
  | HRep h' _ g => g || has_greedy h'
  | HGroup h' => has_greedy h'
  | HConcat l | HAlt l => (fix go (l : list hir) : bool := match l with [] => false | x :: r => has_greedy x || go r end) l
  | _ => false
  end.

Fixpoint has_word_boundary (h : hir) : bool :=
  match h with
  | HAssert WordBoundary | HAssert NonWordBoundary => true
  | HRep h' _ _ | HGroup h' => has_word_boundary h'
  | HConcat l | HAlt l => (fix go (l : list hir) : bool := match l with [] => false | x :: r => has_word_boundary x || go r end) l
  | _ => false
  end.

Fixpoint has_line_anchor (h : hir) : bool :=
  match h with
  | HAssert StartLine | HAssert EndLine => true
  | HRep h' _ _ | HGroup h' => has_line_anchor h'
  | HConcat l | HAlt l => (fix go (l : list hir) : bool := match l with [] => false | x :: r => has_line_anchor x || go r end) l
  | _ => false
  end.

(* ---- DfaValidator by contract (validator/dfa.rs) *)
Definition hir_for (mt : mtype) (h : hir) : hir := if is_wide_mt mt then widen_hir h else h.

(* custom wide runner (`find_wide_anchored_fwd`): the DFA of the plain pattern is stepped over the
   bytes start, start+2, ... as long as each is followed by a NUL inside [start, lim); the state
   before the first byte knows the previous wide character (when mem[start-1] = 0), the end of the
   walk is treated as end of input.  I.e. an anchored leftmost-first search on a virtual haystack. *)
Fixpoint wide_run (fuel : nat) (mem : list N) (i lim : N) : list N :=
  match fuel with
  | O => []
  | S f =>
      if (i + 1 <? lim) && is_nul_at mem (i + 1) then
        match byte_at mem i with Some b => b :: wide_run f mem (i + 2) lim | None => [] end
      else []
  end.

Definition custom_wide_fwd (fl : rflags) (h : hir) (mem : list N) (start lim : N) : option N :=
  let prev := if (2 <=? start) && is_nul_at mem (start - 1)
              then match byte_at mem (start - 2) with Some b => [b] | None => [] end else [] in
  let u := prev ++ wide_run (S (length mem)) mem start lim in
  let base := nlen prev in
  match lf_end fl u h base (nlen u) with
  | Some j => Some (start + 2 * (j - base))
  | None => None
  end.

(* `find_wide_anchored_rev`: bytes e-2, e-4, ... as long as each is followed by a NUL and at least
   two bytes remain above lo; both ends of the walk are treated as ends of input *)
Fixpoint wide_run_rev (fuel : nat) (mem : list N) (lo i : N) (acc : list N) : N * list N :=
  match fuel with
  | O => (i, acc)
  | S f =>
      if (lo + 2 <=? i) && is_nul_at mem (i - 1) then
        match byte_at mem (i - 2) with
        | Some b => wide_run_rev f mem lo (i - 2) (b :: acc)
        | None => (i, acc)
        end
      else (i, acc)
  end.

Definition custom_wide_rev (fl : rflags) (h : hir) (mem : list N) (lo e : N) : option N :=
  let '(i0, u) := wide_run_rev (S (length mem)) mem lo e [] in
  match rev_min_start fl u h 0 (nlen u) with
  | Some s => Some (i0 + 2 * s)
  | None => None
  end.

Definition use_custom (md : mods) (h : hir) (mt : mtype) : bool :=
  m_wide md && has_word_boundary h && is_wide_mt mt.

Definition dfa_fwd (md : mods) (h : hir) (mt : mtype) (mem : list N) (start lim : N) : option N :=
  if use_custom md h mt then custom_wide_fwd (flags_of md) h mem start lim
  else lf_end (flags_of md) mem (hir_for mt h) start lim.

Definition dfa_rev (md : mods) (h : hir) (mt : mtype) (mem : list N) (lo e : N) : option N :=
  if lo <=? e then
    (if use_custom md h mt then custom_wide_rev (flags_of md) h mem lo e
     else rev_min_start (flags_of md) mem (hir_for mt h) lo e)
  else None.

(* ---- validate_match *)
Section Validate.
  Variable memlen : N.

  (* while let Some(s) = rev(start, mat_end) { push (s, e s); start = s + 1; if start > mat_end break } *)
  Fixpoint rev_loop (fuel : nat) (rv : N -> N -> option N) (endf : N -> option N) (start mend : N)
    : list (N * N) :=
    match fuel with
    | O => []
    | S f =>
        match rv start mend with
        | None => []
        | Some s =>
            (match endf s with Some e => [(s, e)] | None => [] end)
              ++ (if mend <? s + 1 then [] else rev_loop f rv endf (s + 1) mend)
        end
    end.

  Definition rev_fuel (mend : N) : nat := S (N.to_nat mend).

  (* Validator::NonGreedy; result: list of (start, end); [] = Matches::None or an empty Multiple *)
  Definition validate_nongreedy (fwd : option (N -> N -> option N)) (rev : option (N -> N -> option N))
             (ms me sp : N) : list (N * N) :=
    let end_opt :=
      match fwd with
      | Some f => f ms (N.min memlen (sat_add ms MAX_SPLIT_MATCH_LENGTH))
      | None => Some me
      end in
    match end_opt with
    | None => []
    | Some e =>
        match rev with
        | None => [(ms, e)]
        | Some rv =>
            (* a start after the end (the two validators followed different branches) is dropped: fix 9c of the notes *)
            rev_loop (rev_fuel me) rv (fun s => if s <=? e then Some e else None)
                     (N.max sp (me - MAX_SPLIT_MATCH_LENGTH)) me
        end
    end.

  (* Validator::Greedy *)
  Definition validate_greedy (rv : N -> N -> option N) (full : N -> N -> option N) (ms me sp : N)
    : list (N * N) :=
    let lim := N.min memlen (sat_add ms MAX_SPLIT_MATCH_LENGTH) in
    rev_loop (rev_fuel me) rv (fun s => full s lim) (N.max sp (me - MAX_SPLIT_MATCH_LENGTH)) me.
End Validate.
