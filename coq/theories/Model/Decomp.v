(* Model/Decomp.v — the decomposition of a flat pattern around a run of single-byte parts
   (boreal/src/matcher/literals.rs: `RunExtractor` runs made of Literal / Class parts, where masks
   are classes; `generate_literals`; `PrePostExtractor` for a boundary that is not an alternation):
   for h = Concat (A ++ R ++ B) with R a run of single-byte nodes,
     literals = every byte string the run can denote, in generate_literals' order,
     pre  = Concat (A ++ R)   (none when A is empty),
     post = Concat (R ++ B)   (none when B is empty).
   Which run the ranking heuristics pick is not modelled: the theorems hold for every run.
   Definitions only. *)
From Boreal Require Import Base.Prelude Spec.Regex Model.Hir Model.Widen Model.Validator Model.Raw Model.HirScan.

Definition is_leaf (h : hir) : bool :=
  match h with HLit _ | HMask _ _ _ | HClass _ | HDot => true | _ => false end.

(* case-sensitive member test of a single-byte node (the bitmap of the part) *)
Definition leaf_mem (da : bool) (h : hir) (b : N) : bool :=
  match h with
  | HLit x => x =? b
  | HMask v m n => mask_mem v m n b
  | HClass c => cls_mem false c b
  | HDot => da || negb (b =? 10)
  | _ => false
  end.

Definition leaf_bytes (da : bool) (h : hir) : list N := filter (leaf_mem da h) (iota 0 256).

Fixpoint expand (da : bool) (r : list hir) : list (list N) :=
  match r with
  | [] => [[]]
  | x :: r' => flat_map (fun b => map (cons b) (expand da r')) (leaf_bytes da x)
  end.

Definition pre_of (a r : list hir) : option hir :=
  match a with [] => None | _ => Some (HConcat (a ++ r)) end.
Definition post_of (r b : list hir) : option hir :=
  match b with [] => None | _ => Some (HConcat (r ++ b)) end.

(* is the description read from the implementation the flat split of its HIR at [i, j) ? *)
Definition opt_hir_eqb (a b : option hir) : bool :=
  match a, b with Some x, Some y => hir_eqb x y | None, None => true | _, _ => false end.

Definition combos_small (da : bool) (r : list hir) : bool :=
  fold_left (fun acc x => if acc <=? 256 then acc * nlen (leaf_bytes da x) else acc) r 1 <=? 256.

Definition flat_split_at (d : sdesc) (l : list hir) (i j : nat) : bool :=
  let a := firstn i l in
  let r := firstn (j - i) (skipn i l) in
  let b := skipn j l in
  let da := m_dot_all (s_mods d) in
  (i <? j)%nat && forallb is_leaf r && combos_small da r
  && opt_hir_eqb (s_pre d) (pre_of a r) && opt_hir_eqb (s_post d) (post_of r b)
  && list_eqb (list_eqb N.eqb) (s_lits d) (expand da r).

Definition in_flat_class (d : sdesc) : bool :=
  match s_hir d with
  | HConcat l =>
      existsb (fun i => existsb (fun j => flat_split_at d l i j) (seq 0 (S (length l)))) (seq 0 (S (length l)))
  | _ => false
  end.
