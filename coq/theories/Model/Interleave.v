(* Model/Interleave.v — T scans running concurrently on one shared `&Scanner` (or on clones, which share the
   same `Arc<Inner>`), as a small-step transition system.  Definitions only.

   Anchors.  `Inner::scan` / `Inner::scan_with_callback` (boreal/src/scanner/mod.rs) build a `ScanData` from their
   arguments (`rules: Vec::new()`, `module_values: EvalData::new(..)` — which calls every module's
   `setup_new_scan`, e.g. a fresh hash `Cache` —, `timeout_checker`, `string_reached_match_limit`, ...) and run
   `do_scan(mem, &mut scan_data)`: everything a scan writes is in that private value (`pstate` below).  `&self`
   (`inner`) is only read.  The exception is below the API: `DfaValidator.pool: Pool<Cache>`
   (matcher/validator/dfa.rs) and the pools inside `regex_automata::meta::Regex` hand a scratch cache to each
   search and take it back; these are shared by all threads (`pool` below).  A step may read and write the pool.

   A schedule is the list of thread numbers in the order the OS lets them make a step. *)
From Boreal Require Import Base.Prelude Model.ScannerState.
Open Scope nat_scope.

Section Interleave.
  Variable inner : Type.      (* compiled rules + whatever the job's scanner holds: read-only during scans *)
  Variable job : Type.        (* (input, params, symbol values, module data) *)
  Variable pstate : Type.     (* ScanData + evaluation stack of one scan in progress *)
  Variable pool : Type.       (* content of the shared cache pools *)
  Variable result : Type.

  Variable init : inner -> job -> pstate.
  Variable step : inner -> pool -> pstate -> pool * (pstate + result).

  (* what a step returns — the next private state or the result — does not depend on the content of the pools *)
  Definition pool_content_irrelevant : Prop :=
    forall i p1 p2 s, snd (step i p1 s) = snd (step i p2 s).

  Inductive tstate := Running (s : pstate) | Done (r : result).

  Record sys := { sy_pool : pool; sy_threads : list tstate }.

  Definition start (i : inner) (p : pool) (jobs : list job) : sys :=
    {| sy_pool := p; sy_threads := map (fun j => Running (init i j)) jobs |}.

  Definition after_step (r : pstate + result) : tstate :=
    match r with inl s' => Running s' | inr x => Done x end.

  (* thread t makes one step; choosing a finished (or absent) thread is a no-op *)
  Definition sys_step (i : inner) (y : sys) (t : nat) : sys :=
    match nth_error (sy_threads y) t with
    | Some (Running s) =>
        let (p', r) := step i (sy_pool y) s in
        {| sy_pool := p'; sy_threads := set_slot (sy_threads y) t (after_step r) |}
    | _ => y
    end.

  Definition exec (i : inner) (y : sys) (sched : list nat) : sys := fold_left (sys_step i) sched y.

  (* one job alone, n steps, with a pool of its own *)
  Fixpoint alone (i : inner) (n : nat) (p : pool) (ts : tstate) : tstate :=
    match n with
    | O => ts
    | S n' =>
        match ts with
        | Running s => let (p', r) := step i p s in alone i n' p' (after_step r)
        | Done _ => ts
        end
    end.

  Definition all_done (y : sys) : Prop := forall t ts, nth_error (sy_threads y) t = Some ts -> exists r, ts = Done r.

  (* the sequential oracle: the jobs one after the other on one thread, each until it finishes;
     as a schedule: n0 times thread 0, then n1 times thread 1, ... *)
  Fixpoint seq_schedule (t : nat) (fuels : list nat) : list nat :=
    match fuels with
    | [] => []
    | n :: r => repeat t n ++ seq_schedule (S t) r
    end.

  (* ---- several jobs per thread: a worker takes the next job of its queue when the previous one is finished *)
  Definition qstate := (option pstate * list job * list result)%type.
  Definition qinit (_ : inner) (js : list job) : qstate := (None, js, []).
  Definition qstep (i : inner) (p : pool) (q : qstate) : pool * (qstate + list result) :=
    let '(cur, pend, acc) := q in
    match cur with
    | Some s =>
        let (p', r) := step i p s in
        match r with
        | inl s' => (p', inl (Some s', pend, acc))
        | inr x => (p', inl (None, pend, acc ++ [x]))
        end
    | None =>
        match pend with
        | [] => (p, inr acc)
        | j :: rest => (p, inl (Some (init i j), rest, acc))     (* a new scan: fresh ScanData *)
        end
    end.
End Interleave.

Arguments pool_content_irrelevant {inner pstate pool result} step.
Arguments Running {pstate result} s.
Arguments Done {pstate result} r.
Arguments sy_pool {pstate pool result} s.
Arguments sy_threads {pstate pool result} s.
Arguments start {inner job pstate pool result} init i p jobs.
Arguments after_step {pstate result} r.
Arguments sys_step {inner pstate pool result} step i y t.
Arguments exec {inner pstate pool result} step i y sched.
Arguments alone {inner pstate pool result} step i n p ts.
Arguments all_done {pstate pool result} y.
Arguments qinit {inner job pstate result} _ js.
Arguments qstep {inner job pstate pool result} init step i p q.
