(* Model/ModFuncs.v — what is common to the models of the hash / math / string module functions:
   argument and result values, the scanned memory, and `Memory::on_range` (boreal/src/memory.rs).
   Definitions only.  `on_range` is modelled twice: as the code is now (after fix f1e9f5e, `fixed = true`)
   and as it was on the pinned tree (`fixed = false`), the latter only for the `_pinned_refuted` lemma. *)
From Coq Require Import QArith.
From Boreal Require Import Base.Prelude Spec.MathSpec.
Open Scope N_scope.

(* ---- values *)
Inductive arg := AInt (z : Z) | AStr (s : list N) | AFlt (q : Q) | ABool (b : bool).

Inductive mres :=
| RUndef                 (* the call evaluates to undefined *)
| RInt (z : Z)
| RBytes (l : list N)
| RFloat (f : fval)
| RPanic.                (* Rust would panic here *)

(* ---- memory *)
Record region := { rg_start : N; rg_len : N (* described length *); rg_data : list N (* fetched bytes *);
                   rg_fail : bool (* fetch returns None *) }.

Inductive memory :=
| Direct (l : list N)
| Frag (refetch : bool) (rs : list region).   (* regions in listing order; refetch = can_refetch_regions *)

Inductive ores (S : Type) := OrOk (s : S) | OrNone | OrPanic.
Arguments OrOk {S} s.
Arguments OrNone {S}.
Arguments OrPanic {S}.

(* &l[a..b] : panics unless a <= b <= len *)
Definition slice (l : list N) (a b : N) : option (list N) :=
  if (a <=? b) && (b <=? nlen l) then Some (firstn (N.to_nat (b - a)) (skipn (N.to_nat a) l)) else None.

Definition checked_add (a b : N) : option N := if a + b <=? umax then Some (a + b) else None.

(* usize::try_from(i64) *)
Definition to_usize (z : Z) : option N := if (z <? 0)%Z then None else Some (Z.to_N z).

Section OnRange.
  Variable S : Type.
  Variable cb : S -> list N -> S.

  Definition fin (called : bool) (s : S) : ores S := if called then OrOk s else OrNone.

  (* the `while let Some(region) = next()` loop of the Fragmented arm *)
  Fixpoint frag_loop (fixed : bool) (rs : list region) (start end_ : N) (called : bool) (s : S) : ores S :=
    match rs with
    | [] => fin called s
    | r :: rs' =>
        if called && negb (start =? rg_start r) then OrNone
        else if start <? rg_start r then fin called s                       (* checked_sub fails: break *)
        else
          let rel_start := start - rg_start r in
          if rg_len r <=? rel_start then frag_loop fixed rs' start end_ called s   (* continue *)
          else
            let rel_end := N.min (rg_len r) (end_ - rg_start r) in
            if rg_fail r then OrNone                                         (* fetch()? *)
            else
              let flen := nlen (rg_data r) in
              if fixed && (flen <=? rel_start) then fin called s             (* break *)
              else
                let avail := if fixed then N.min rel_end flen else rel_end in
                match slice (rg_data r) rel_start avail with
                | None => OrPanic
                | Some d =>
                    let s' := cb s d in
                    if fixed && (avail <? rel_end) then OrOk s'               (* break, has_called_cb *)
                    else
                      match checked_add (rg_start r) (rg_len r) with
                      | None => OrNone
                      | Some st' => if end_ <=? st' then OrOk s' else frag_loop fixed rs' st' end_ true s'
                      end
                end
    end.

  Definition on_range_gen (fixed : bool) (m : memory) (start end_ : N) (s : S) : ores S :=
    if end_ <? start then OrNone
    else match m with
         | Direct l =>
             if nlen l <=? start then OrNone
             else match slice l start (N.min (nlen l) end_) with
                  | Some d => OrOk (cb s d)
                  | None => OrPanic
                  end
         | Frag refetch rs => if refetch then frag_loop fixed rs start end_ false s else OrNone
         end.

  Definition on_range := on_range_gen true.
  Definition on_range_pinned := on_range_gen false.
End OnRange.
Arguments on_range {S}.
Arguments on_range_pinned {S}.
Arguments on_range_gen {S}.
Arguments frag_loop {S}.
Arguments fin {S}.

(* Memory::get_direct *)
Definition get_direct (m : memory) : option (list N) := match m with Direct l => Some l | Frag _ _ => None end.

(* offset/length -> (start, end): hash::get_args (Range arm), math::offset_length_to_start_end, math::distribution *)
Definition start_end (offset length : Z) : option (N * N) :=
  match to_usize offset, to_usize length with
  | Some o, Some n => match checked_add o n with Some e => Some (o, e) | None => None end
  | _, _ => None
  end.
