(* Model/Memory.v — boreal/src/memory.rs: `Memory::{filesize, get_contiguous, on_range}` over a
   FragmentedMemory object presented as a region list (cursor = position in the list, `reset` = start
   again, `fetch` = the bytes of the current region unless it fails), and the evaluator functions that
   look matches up by absolute address (boreal/src/evaluator/variable.rs `VarMatches::{find_at,
   find_in, count_matches_in}` with Rust's `binary_search_by_key`), `evaluate_read_integer`.
   on_range is the code after "fix: on_range tolerates a fetched region shorter than its description".
   Definitions only. *)
From Boreal Require Import Base.Prelude Base.ListX Base.Bytes Model.Literals Model.AcScan.

(* Memory::filesize *)
Definition filesize_direct (mem : bytes) : option N := Some (nlen mem).
Definition filesize_fragmented (regions : list fregion) : option N := None.

(* Memory::get_contiguous, Fragmented arm: the `while let Some(region) = next()` loop *)
Fixpoint get_contiguous_loop (regions : list fregion) (start end_ : N) : option bytes :=
  match regions with
  | [] => None
  | r :: rest =>
      if start <? f_start r then None                               (* checked_sub fails: break *)
      else
        let rel := start - f_start r in
        if f_described r <=? rel then get_contiguous_loop rest start end_     (* continue *)
        else if f_fail r then None                                  (* fetch()? *)
        else
          let e := end_ - f_start r in                              (* region.mem.get(rel..e) *)
          if (rel <=? e) && (e <=? nlen (f_mem r)) then Some (slice rel e (f_mem r)) else None
  end.

Definition get_contiguous (can_refetch : bool) (regions : list fregion) (start end_ : N) : option bytes :=
  if end_ <? start then None
  else if can_refetch then get_contiguous_loop regions start end_ else None.

(* Memory::get_contiguous, Direct arm *)
Definition get_contiguous_direct (mem : bytes) (start end_ : N) : option bytes :=
  if end_ <? start then None
  else if nlen mem <=? start then None
  else if end_ <=? nlen mem then Some (slice start end_ mem) else None.

(* Memory::on_range, Fragmented arm; the callback slices are accumulated in acc.
   None = the function returned None. *)
Fixpoint on_range_loop (regions : list fregion) (start end_ : N) (called : bool) (acc : bytes)
  : option bytes :=
  match regions with
  | [] => if called then Some acc else None
  | r :: rest =>
      if called && negb (start =? f_start r) then None
      else if start <? f_start r then (if called then Some acc else None)        (* break *)
      else
        let rel := start - f_start r in
        if f_described r <=? rel then on_range_loop rest start end_ called acc      (* continue *)
        else
          let rel_end := N.min (f_described r) (end_ - f_start r) in
          if f_fail r then None                                                    (* fetch()? *)
          else
            let flen := nlen (f_mem r) in
            if flen <=? rel then (if called then Some acc else None)               (* break *)
            else
              let avail := N.min rel_end flen in
              let acc' := acc ++ slice rel avail (f_mem r) in
              if avail <? rel_end then Some acc'                                   (* break *)
              else
                let start' := f_start r + f_described r in
                if umax <? start' then None                                        (* checked_add *)
                else if end_ <=? start' then Some acc'
                else on_range_loop rest start' end_ true acc'
  end.

Definition on_range (can_refetch : bool) (regions : list fregion) (start end_ : N) : option bytes :=
  if end_ <? start then None
  else if can_refetch then on_range_loop regions start end_ false [] else None.

Definition on_range_direct (mem : bytes) (start end_ : N) : option bytes :=
  if end_ <? start then None
  else if nlen mem <=? start then None
  else Some (slice start (N.min (nlen mem) end_) mem).

(* evaluate_read_integer, unsigned little-endian of n bytes at addr *)
Fixpoint le_value (bs : bytes) : N :=
  match bs with [] => 0 | b :: bs' => b + 256 * le_value bs' end.
Definition read_uint (can_refetch : bool) (regions : list fregion) (addr n : N) : option N :=
  if umax <? addr + n then None
  else match get_contiguous can_refetch regions addr (addr + n) with
       | Some bs => if nlen bs =? n then Some (le_value bs) else None
       | None => None
       end.

(* ---- lookups by absolute address: mat.offset.saturating_add(mat.base) *)
Definition abs_off (x : smatch) : N := sat_add (sm_off x) (sm_base x).

(* slice::binary_search_by (Rust 1.82+ implementation), on the keys of the vector; returns
   (found?, index).  Only its contract on strictly ascending keys is used in theorems; the literal
   algorithm is kept so that the model reproduces the implementation on unsorted vectors too. *)
Fixpoint bsearch_loop (fuel : nat) (keys : list N) (target : N) (base size : N) : N :=
  match fuel with
  | O => base
  | S fuel' =>
      if size <=? 1 then base
      else
        let half := size / 2 in
        let mid := base + half in
        let base' := if target <? nnth 0 mid keys then base else mid in
        bsearch_loop fuel' keys target base' (size - half)
  end.
Definition binary_search (keys : list N) (target : N) : bool * N :=
  match keys with
  | [] => (false, 0)
  | _ =>
      let base := bsearch_loop (length keys) keys target 0 (nlen keys) in
      let k := nnth 0 base keys in
      if k =? target then (true, base) else (false, if k <? target then base + 1 else base)
  end.

(* VarMatches::find_at / find_in / count_matches_in *)
Definition find_at (vm : list smatch) (offset : N) : bool := fst (binary_search (map abs_off vm) offset).
Definition find_in (vm : list smatch) (from to : N) : bool :=
  let idx := snd (binary_search (map abs_off vm) from) in
  match nnth_opt idx vm with Some x => abs_off x <=? to | None => false end.

(* VarMatches::count_matches_in: from the insertion point of `from`, count while the absolute address is <= to *)
Fixpoint count_while_le (to : N) (l : list smatch) : N :=
  match l with
  | [] => 0
  | x :: l' => if to <? abs_off x then 0 else 1 + count_while_le to l'
  end.
Definition count_matches_in (vm : list smatch) (from to : N) : N :=
  let idx := snd (binary_search (map abs_off vm) from) in
  count_while_le to (ndrop idx vm).
