(* Model/EvalCost.v — number of `check_timeout` calls made while evaluating an expression:
   one per `evaluate_expr` invocation actually performed (boreal/src/evaluator/mod.rs:263),
   following the same short-circuits as `eval`.  Used by the interruption model (C15). *)
From Boreal Require Import Base.Prelude Base.Res Model.Eval.

Definition is_ok {A} (r : res A) : bool := match r with Ok _ => true | _ => false end.
Definition is_ok_num (r : res value) : bool := match r with Ok (VInt _) => true | _ => false end.
Definition is_ok_bytes (r : res value) : bool := match r with Ok (VBytes _) => true | _ => false end.

(* is the right operand evaluated, given the result of the left one *)
Definition right_evaluated (o : binop) (l : res value) : bool :=
  match o with
  | OMod | OXor | OBand | OBor | OShl | OShr => is_ok_num l
  | OContains _ | OStartsWith _ | OEndsWith _ | OIEquals => is_ok_bytes l
  | _ => is_ok l
  end.

Fixpoint and_cost (items : list (res value * N)) : N :=
  match items with
  | [] => 0
  | (r, c) :: rest =>
      c + match r with
          | Ok v => if truthy v then and_cost rest else 0
          | Needed => and_cost rest
          | _ => 0
          end
  end.

Fixpoint or_cost (items : list (res value * N)) : N :=
  match items with
  | [] => 0
  | (r, c) :: rest =>
      c + match r with
          | Ok v => if truthy v then 0 else or_cost rest
          | Undef | Needed => or_cost rest
          | Panic => 0
          end
  end.

Fixpoint for_cost (s : fsel) (items : list (res value * N)) : N :=
  match items with
  | [] => 0
  | (r, c) :: rest =>
      c + let step (b : bool) :=
            let '(s', o) := add_result s b in
            match o with Some _ => 0 | None => for_cost s' rest end in
          match r with
          | Ok v => step (truthy v)
          | Undef => step false
          | Needed => for_cost s rest
          | Panic => 0
          end
  end.

(* items: (element result, element cost, body result, body cost) *)
Fixpoint list_cost (s : fsel) (needed : bool) (items : list (res value * N * res value * N)) : N :=
  match items with
  | [] => 0
  | (re, ce, rb, cb) :: rest =>
      ce + match re with
           | Ok (VBool _) => 0
           | Ok _ =>
               cb + let step (b : bool) :=
                      let '(s', o) := add_result s b in
                      match o with Some _ => 0 | None => list_cost s' needed rest end in
                    match rb with
                    | Ok v => step (truthy v)
                    | Undef => step false
                    | Needed => list_cost s true rest
                    | Panic => 0
                    end
           | _ => 0
           end
  end.

Definition sel_cost (k : selk) (c : N) : N := match k with KExpr _ => c | _ => 0 end.

Fixpoint cost (en : env) (sel : option nat) (stack : list value) (e : expr) {struct e} : N :=
  1 +
  match e with
  | EInt _ | EBytes _ | EBool _ | EDouble _ | EFilesize | ECount _ | EVar _ | ERule _ | EExt _ | EBound _ => 0
  | EReadInt _ a | EOffset _ a | ELength _ a | EVarAt _ a | EUn _ a | EDefined a => cost en sel stack a
  | ECountIn _ f t | EVarIn _ f t =>
      cost en sel stack f + if is_ok_num (eval en sel stack f) then cost en sel stack t else 0
  | EBin o l r =>
      cost en sel stack l + if right_evaluated o (eval en sel stack l) then cost en sel stack r else 0
  | EAnd l => and_cost (map (fun x => (eval en sel stack x, cost en sel stack x)) l)
  | EOr l => or_cost (map (fun x => (eval en sel stack x, cost en sel stack x)) l)
  | EFor k se set body =>
      sel_cost k (cost en sel stack se) +
      match eval_selection k (eval en sel stack se) (nlen set) with
      | Ok (FSE fs) => for_cost fs (map (fun idx => (eval en (Some idx) stack body, cost en (Some idx) stack body)) set)
      | _ => 0
      end
  | EForRange k se from to body =>
      sel_cost k (cost en sel stack se) +
      match eval_selection k (eval en sel stack se) 0 with
      | Ok (FSE fs) =>
          cost en sel stack from +
          match eval en sel stack from with
          | Ok (VInt f) =>
              cost en sel stack to +
              match eval en sel stack to with
              | Ok (VInt t) =>
                  if (t <? f)%Z then 0
                  else for_cost fs (map (fun z => (eval en sel (stack ++ [VInt z]) body,
                                                   cost en sel (stack ++ [VInt z]) body)) (zrange f t))
              | _ => 0
              end
          | _ => 0
          end
      | _ => 0
      end
  | EForList k se elems body =>
      sel_cost k (cost en sel stack se) +
      match eval_selection k (eval en sel stack se) 0 with
      | Ok (FSE fs) =>
          list_cost fs false
            (map (fun el =>
                    let re := eval en sel stack el in
                    (re, cost en sel stack el,
                     match re with Ok v => eval en sel (stack ++ [v]) body | _ => Undef end,
                     match re with Ok v => cost en sel (stack ++ [v]) body | _ => 0 end)) elems)
      | _ => 0
      end
  | EForRules k se _ _ => sel_cost k (cost en sel stack se)
  end.

Definition cost_rule (en : env) (cond : expr) : N := cost en None [] cond.
