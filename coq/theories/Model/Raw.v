(* Model/Raw.v — boreal/src/matcher/raw.rs `RawMatcher::find_next_match_at` (standard case: no
   word boundary under `wide`), `Matcher::find_next_match_at` (fullword loop) and
   boreal/src/scanner/ac_scan.rs `scan_single_variable`.  The meta regex search is the contract
   `find_from` of Spec/Regex.v; with `ascii wide` the two patterns (plain, widened) compete
   leftmost-first, pattern 0 first.  Definitions only. *)
From Boreal Require Import Base.Prelude Spec.Regex Model.Widen Model.Validator.

(* ---- check_fullword (matcher/mod.rs) *)
Definition alnum_at (mem : list N) (i : N) : bool :=
  match byte_at mem i with Some b => is_alnum b | None => false end.
Definition nul_at (mem : list N) (i : N) : bool :=
  match byte_at mem i with Some b => b =? 0 | None => false end.

Definition check_fullword (mem : list N) (s e : N) (mt : mtype) : bool :=
  if is_wide_mt mt then
    negb ((1 <? s) && nul_at mem (s - 1) && alnum_at mem (s - 2))
    && negb ((e + 1 <? nlen mem) && alnum_at mem e && nul_at mem (e + 1))
  else
    negb ((0 <? s) && alnum_at mem (s - 1))
    && negb ((e <? nlen mem) && alnum_at mem e).

Definition validate_fullword (md : mods) (mem : list N) (s e : N) (mt : mtype) : bool :=
  negb (m_fullword md) || check_fullword mem s e mt.

(* ---- RawMatcher::find_next_match_at, one meta search *)
Definition raw_find (md : mods) (h : hir) (mem : list N) (offset : N) : option (N * N * mtype) :=
  let fl := flags_of md in
  match m_ascii md, m_wide md with
  | false, true =>
      match find_from fl mem (widen_hir h) offset with
      | Some (s, e) => Some (s, e, MWideStandard) | None => None end
  | true, true =>
      match find_from fl mem h offset, find_from fl mem (widen_hir h) offset with
      | Some (s, e), Some (s', e') => if s' <? s then Some (s', e', MWideAlternate) else Some (s, e, MAscii)
      | Some (s, e), None => Some (s, e, MAscii)
      | None, Some (s', e') => Some (s', e', MWideAlternate)
      | None, None => None
      end
  | _, _ =>
      match find_from fl mem h offset with
      | Some (s, e) => Some (s, e, MAscii) | None => None end
  end.

(* ---- apply_wide_word_boundaries (regex with \b or \B under `wide`): the widened regex (where the
   boundaries were erased) found [s, e); the plain regex is run on the un-widened text starting one
   wide character before s (when there is one) and at most 500 bytes after e; the match is kept
   when the plain regex, searched from s on, finds its leftmost match exactly at s (fix: the search
   used to start at the previous character), and its length is taken from it. *)
Fixpoint unwide (fuel : nat) (mem : list N) (i lim : N) : list N :=
  match fuel with
  | O => []
  | S f =>
      if (i + 2 <=? lim) && is_nul_at mem (i + 1) then
        match byte_at mem i with Some b => b :: unwide f mem (i + 2) lim | None => [] end
      else []
  end.

Definition apply_wide_word_boundaries (md : mods) (h : hir) (mem : list N) (s e : N) (mt : mtype)
  : option (N * N) :=
  if is_wide_mt mt then
    let start := if (2 <=? s) && is_nul_at mem (s - 1) then s - 2 else s in
    let u := unwide (S (length mem)) mem start (N.min (nlen mem) (e + 500)) in
    let expected := if start <? s then 1 else 0 in
    match find_from (flags_of md) u h expected with
    | Some (ms, me) => if ms =? expected then Some (s, s + 2 * (me - ms)) else None
    | None => None
    end
  else Some (s, e).

(* RawMatcher::find_next_match_at *)
Fixpoint raw_find_next (fuel : nat) (md : mods) (h : hir) (mem : list N) (offset : N) : option (N * N * mtype) :=
  match fuel with
  | O => None
  | S f =>
      match raw_find md h mem offset with
      | None => None
      | Some (s, e, mt) =>
          if m_wide md && has_word_boundary h then
            match apply_wide_word_boundaries md h mem s e mt with
            | Some (s', e') => Some (s', e', mt)
            | None => raw_find_next f md h mem (s + 1)
            end
          else Some (s, e, mt)
      end
  end.

(* ---- Matcher::find_next_match_at: skip matches refused by fullword *)
Fixpoint find_next_match_at (fuel : nat) (md : mods) (h : hir) (mem : list N) (offset : N) : option (N * N) :=
  match fuel with
  | O => None
  | S f =>
      if offset <? nlen mem then
        match raw_find_next (S (S (length mem))) md h mem offset with
        | None => None
        | Some (s, e, mt) =>
            if validate_fullword md mem s e mt then Some (s, e)
            else find_next_match_at f md h mem (s + 1)
        end
      else None
  end.

(* ---- scan_single_variable; matches are (offset, length) *)
Fixpoint raw_scan_loop (fuel : nat) (md : mods) (h : hir) (mem : list N) (max_nb : N) (offset : N)
         (acc : list (N * N)) : list (N * N) :=
  match fuel with
  | O => acc
  | S f =>
      if (offset <? nlen mem) && negb (max_nb <=? nlen acc) then
        match find_next_match_at (S (length mem)) md h mem offset with
        | None => acc
        | Some (s, e) =>
            let acc' := acc ++ [(s, e - s)] in
            if max_nb <=? nlen acc' then acc'
            else raw_scan_loop f md h mem max_nb (s + 1) acc'
        end
      else acc
  end.

Definition raw_scan (md : mods) (h : hir) (mem : list N) (max_nb : N) : list (N * N) :=
  raw_scan_loop (S (length mem)) md h mem max_nb 0 [].
