(* Model/HashCache.v — boreal/src/module/hash.rs: the per-scan private data of the hash module
   (`struct Data { cache: RwLock<Cache> }`, `struct Cache { md5, sha1, sha256 : HashMap<(usize, usize), Value> }`),
   created by `Hash::setup_new_scan` (`data_map.insert::<Self>(Data::default())`) each time
   `evaluator::module::EvalData::new` is called, i.e. once per call of `Inner::scan` / `Inner::scan_with_callback`.
   The functions themselves (get_args, on_range, digests, `hash_call_cached`) are those of Model/HashMod.v
   (property C16); this file adds the three maps, the sequence of calls of one scan, and sequences of scans.
   Definitions only. *)
From Boreal Require Import Base.Prelude Model.ModFuncs Model.HashMod.
Open Scope N_scope.

Inductive halg := HMd5 | HSha1 | HSha256 | HChecksum32 | HCrc32.

Record hcache := { c_md5 : cmap; c_sha1 : cmap; c_sha256 : cmap }.

(* Data::default() *)
Definition hcache_empty : hcache := {| c_md5 := []; c_sha1 := []; c_sha256 := [] |}.

Definition hcall := (halg * list arg)%type.

Section Calls.
  Variable dg : halg -> digest.     (* the five digests, by contract (HashMod.digest) *)

  (* Hash::{md5, sha1, sha2} go through their own map; checksum32 and crc32 have none *)
  Definition call_cached (m : memory) (c : hcache) (k : hcall) : hcache * mres :=
    let (alg, args) := k in
    match alg with
    | HMd5 => let (c', v) := hash_call_cached (dg HMd5) m (c_md5 c) args in
              ({| c_md5 := c'; c_sha1 := c_sha1 c; c_sha256 := c_sha256 c |}, v)
    | HSha1 => let (c', v) := hash_call_cached (dg HSha1) m (c_sha1 c) args in
               ({| c_md5 := c_md5 c; c_sha1 := c'; c_sha256 := c_sha256 c |}, v)
    | HSha256 => let (c', v) := hash_call_cached (dg HSha256) m (c_sha256 c) args in
                 ({| c_md5 := c_md5 c; c_sha1 := c_sha1 c; c_sha256 := c' |}, v)
    | HChecksum32 => (c, hash_call (dg HChecksum32) m args)
    | HCrc32 => (c, hash_call (dg HCrc32) m args)
    end.

  (* the same call without any cache: the reference *)
  Definition call_plain (m : memory) (k : hcall) : mres := hash_call (dg (fst k)) m (snd k).

  (* the hash calls of one scan in evaluation order, cache threaded through *)
  Fixpoint calls_cached (m : memory) (c : hcache) (calls : list hcall) : list mres :=
    match calls with
    | [] => []
    | k :: r => let (c', v) := call_cached m c k in v :: calls_cached m c' r
    end.

  (* one scan: the cache starts empty *)
  Definition scan_hashes (m : memory) (calls : list hcall) : list mres := calls_cached m hcache_empty calls.

  (* a sequence of scans (same scanner, any inputs): each scan has its own cache *)
  Definition scans_hashes (jobs : list (memory * list hcall)) : list (list mres) :=
    map (fun j => scan_hashes (fst j) (snd j)) jobs.

  (* NOT the code: one cache that survives from scan to scan (a `static`, or a cache stored in the scanner);
     only used to show that the per-scan cache is what makes the memoisation sound *)
  Fixpoint calls_cached_st (m : memory) (c : hcache) (calls : list hcall) : hcache * list mres :=
    match calls with
    | [] => (c, [])
    | k :: r => let (c', v) := call_cached m c k in
                let (c'', vs) := calls_cached_st m c' r in (c'', v :: vs)
    end.
  Fixpoint scans_shared_cache (c : hcache) (jobs : list (memory * list hcall)) : list (list mres) :=
    match jobs with
    | [] => []
    | (m, calls) :: r => let (c', vs) := calls_cached_st m c calls in vs :: scans_shared_cache c' r
    end.
End Calls.

(* the digests of the code *)
Definition std_dg (a : halg) : digest :=
  match a with
  | HMd5 => md5_d | HSha1 => sha1_d | HSha256 => sha256_d | HChecksum32 => checksum_d | HCrc32 => crc_d
  end.

(* ---- equality for the correspondence *)
Definition mres_eqb_simple (a b : mres) : bool :=
  match a, b with
  | RUndef, RUndef => true
  | RInt x, RInt y => (x =? y)%Z
  | RBytes x, RBytes y => list_eqb N.eqb x y
  | RPanic, RPanic => true
  | _, _ => false        (* floats do not occur in hash results *)
  end.
