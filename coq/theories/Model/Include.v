(* Model/Include.v — boreal/src/compiler/mod.rs: `add_rules_file_inner`, `add_rules_str_inner`,
   `add_component` (Include branch in full; Import / Rule branches as far as names, namespaces,
   imports, rule references and wildcard rule sets go), `set_include_callback`,
   `CompilerParams::disable_includes`, MAX_INCLUDE_DEPTH.  Definitions only. *)
From Coq Require Import String Ascii.
From Boreal Require Import Base.Prelude Spec.IncludeSpec.
Open Scope string_scope.
Open Scope list_scope.

(* ---------------------------------------------------------------- path text *)
(* split at '/' (the pieces between slashes, possibly empty) *)
Fixpoint split_slash (s cur : string) : list string :=
  match s with
  | EmptyString => [cur]
  | String c s' => if Ascii.eqb c "/" then cur :: split_slash s' "" else split_slash s' (cur ++ String c "")
  end.

Definition seg_of (p : string) : list seg :=
  if String.eqb p "" then [] else if String.eqb p "." then [SCur]
  else if String.eqb p ".." then [SUp] else [SName p].

(* (absolute?, segments); a trailing slash means "must be a directory" = a final `.` *)
Definition segs_of (s : string) : bool * list seg :=
  let parts := split_slash s "" in
  let abs := match s with String c _ => Ascii.eqb c "/" | EmptyString => false end in
  let trailing := match s with EmptyString => false | _ => String.eqb (last parts "x") "" end in
  (abs, flat_map seg_of parts ++ (if trailing then [SCur] else [])).

Definition not_cur (s : seg) : bool := match s with SCur => false | _ => true end.
(* `Path::parent()` of a path as written *)
Definition parent_segs (segs : list seg) : list seg := removelast (filter not_cur segs).

(* `canonicalize` / the kernel's path walk, without symbolic links *)
Fixpoint walk {plain} (fs : fsys plain) (d : path) (segs : list seg) : option path :=
  match segs with
  | [] => Some d
  | s :: rest =>
      if is_dir fs d then
        match s with
        | SCur => walk fs d rest
        | SUp => walk fs (removelast d) rest
        | SName n => if exists_node fs (d ++ [n]) then walk fs (d ++ [n]) rest else None
        end
      else None
  end.

(* ---------------------------------------------------------------- the document being compiled *)
Inductive curdoc :=
| CurNone                 (* text given to add_rules_str *)
| CurRaw (s : string)     (* top-level path as given, or (callback mode) the last include name *)
| CurCanon (p : path).    (* canonicalized path of an included file *)

(* `current_filepath` as the include callback sees it *)
Definition cur_arg (c : curdoc) : option string :=
  match c with
  | CurNone => None
  | CurRaw s => Some s
  | CurCanon p => Some (String.concat "/" ("" :: p))
  end.

(* include callback as a table: first entry whose patterns match decides; no entry = io error *)
Record cbentry (plain : Type) := {
  cb_name : string;
  cb_cur : option (option string);   (* None = any current path *)
  cb_ns : option string;             (* None = any namespace *)
  cb_res : option (fcontent plain)   (* None = the callback returns Err *)
}.
Arguments cb_name {plain}. Arguments cb_cur {plain}. Arguments cb_ns {plain}. Arguments cb_res {plain}.

Definition ostr_eqb := opt_eqb String.eqb.

Fixpoint cb_lookup {plain} (tbl : list (cbentry plain)) (name : string) (c : option string) (ns : string)
  : option (fcontent plain) :=
  match tbl with
  | [] => None
  | e :: rest =>
      if String.eqb (cb_name e) name
         && match cb_cur e with None => true | Some p => ostr_eqb p c end
         && match cb_ns e with None => true | Some n => String.eqb n ns end
      then cb_res e else cb_lookup rest name c ns
  end.

Record env (plain : Type) := {
  e_fs : fsys plain;
  e_cwd : path;                               (* working directory of the process *)
  e_cb : option (list (cbentry plain));       (* set_include_callback *)
  e_disabled : bool                           (* CompilerParams::disable_includes *)
}.
Arguments e_fs {plain}. Arguments e_cwd {plain}. Arguments e_cb {plain}. Arguments e_disabled {plain}.

Definition MAX_INCLUDE_DEPTH : nat := 16.

Section Model.
  Variables plain St E : Type.
  Variable step : St -> string -> plain -> St * option E.
  Variable touch : St -> string -> St.
  Variable log : St -> string * option string * string -> St.   (* the callback was called *)

  Definition res := (St * option (err E))%type.

  (* which file an include directive names, file-system mode *)
  Definition fs_target (en : env plain) (c : curdoc) (name : string) : option path :=
    let '(abs, isegs) := segs_of name in
    if abs then walk (e_fs en) [] isegs else
    match c with
    | CurNone => walk (e_fs en) (e_cwd en) isegs
    | CurRaw s =>
        let '(sabs, ssegs) := segs_of s in
        walk (e_fs en) (if sabs then [] else e_cwd en) (parent_segs ssegs ++ isegs)
    | CurCanon p => walk (e_fs en) [] (map SName (removelast p) ++ isegs)
    end.

  Definition fs_resolve (en : env plain) (c : curdoc) (name : string) : err E + (curdoc * fcontent plain) :=
    match fs_target en c name with
    | None => inl EInvalidInclude                     (* canonicalize failed *)
    | Some q =>
        match fs_node (e_fs en) q with
        | Some (NFile content) => inr (CurCanon q, content)
        | _ => inl EIO                                (* read_to_string on a directory *)
        end
    end.

  Definition cb_resolve (tbl : list (cbentry plain)) (ns : string) (c : curdoc) (name : string)
    : err E + (curdoc * fcontent plain) :=
    match cb_lookup tbl name (cur_arg c) ns with
    | None => inl EInvalidInclude
    | Some content => inr (CurRaw name, content)
    end.

  Definition resolve (en : env plain) (ns : string) (c : curdoc) (name : string) :=
    match e_cb en with
    | Some tbl => cb_resolve tbl ns c name
    | None => fs_resolve en c name
    end.

  (* add_component over the components of one parsed document.
     `rec` = how to compile an included document (None: the depth limit is reached). *)
  Fixpoint add_cs (rec : option (curdoc -> fcontent plain -> St -> res))
           (en : env plain) (ns : string) (c : curdoc) (cs : list (string + plain)) (st : St) : res :=
    match cs with
    | [] => (st, None)
    | comp :: rest =>
        let st0 := touch st ns in
        let r :=
          match comp with
          | inr x =>
              match step st0 ns x with
              | (st', None) => (st', None)
              | (st', Some e) => (st', Some (ECompile e))
              end
          | inl name =>
              if e_disabled en then (st0, Some EUnauthorized) else
              match rec with
              | None => (st0, Some ETooDeep)
              | Some rc =>
                  let st1 := match e_cb en with
                             | Some _ => log st0 (name, cur_arg c, ns)
                             | None => st0
                             end in
                  match resolve en ns c name with
                  | inl e => (st1, Some e)
                  | inr (c', doc) => rc c' doc st1
                  end
              end
          end in
        match r with
        | (st', None) => add_cs rec en ns c rest st'
        | bad => bad
        end
    end.

  (* add_rules_str_inner: parse, then the components *)
  Definition add_doc_with rec (en : env plain) (ns : string) (c : curdoc) (doc : fcontent plain) (st : St) : res :=
    match doc with
    | FText cs => add_cs rec en ns c cs st
    | FBadSyntax => (st, Some EParse)
    | FNotUtf8 => (st, Some EIO)
    end.

  (* The repaired code ("fix: limit the nesting of include directives"): structural recursion
     on the remaining include depth. *)
  Fixpoint add_doc (d : nat) (en : env plain) (ns : string) : curdoc -> fcontent plain -> St -> res :=
    add_doc_with (match d with O => None | S d' => Some (add_doc d' en ns) end) en ns.

  (* The code as written: a depth counter counting up, compared with an optional limit
     (`Some 16` after the fix, `None` on the pinned tree); `fuel` bounds the recursion of the
     *model*, and running out of it (None) stands for unbounded recursion = stack overflow. *)
  Fixpoint add_cs_f (too_deep : bool) (rec : curdoc -> fcontent plain -> St -> option res)
           (en : env plain) (ns : string) (c : curdoc) (cs : list (string + plain)) (st : St) : option res :=
    match cs with
    | [] => Some (st, None)
    | comp :: rest =>
        let st0 := touch st ns in
        let r :=
          match comp with
          | inr x =>
              match step st0 ns x with
              | (st', None) => Some (st', None)
              | (st', Some e) => Some (st', Some (ECompile e))
              end
          | inl name =>
              if e_disabled en then Some (st0, Some EUnauthorized) else
              if too_deep then Some (st0, Some ETooDeep) else
              let st1 := match e_cb en with
                         | Some _ => log st0 (name, cur_arg c, ns)
                         | None => st0
                         end in
              match resolve en ns c name with
              | inl e => Some (st1, Some e)
              | inr (c', doc) => rec c' doc st1
              end
          end in
        match r with
        | Some (st', None) => add_cs_f too_deep rec en ns c rest st'
        | other => other
        end
    end.

  Fixpoint add_doc_fuel (limit : option nat) (fuel depth : nat) (en : env plain) (ns : string)
           (c : curdoc) (doc : fcontent plain) (st : St) : option res :=
    match fuel with
    | O => None
    | S f =>
        match doc with
        | FText cs =>
            add_cs_f (match limit with Some l => Nat.leb l depth | None => false end)
                     (add_doc_fuel limit f (S depth) en ns) en ns c cs st
        | FBadSyntax => Some (st, Some EParse)
        | FNotUtf8 => Some (st, Some EIO)
        end
    end.

  (* ---- the public entry points *)
  Inductive call :=
  | AddFile (p : string) (ns : string)                  (* add_rules_file[_in_namespace] *)
  | AddStr (doc : fcontent plain) (ns : string).        (* add_rules_str[_in_namespace] *)

  Definition do_call (en : env plain) (st : St) (k : call) : res :=
    match k with
    | AddStr doc ns => add_doc MAX_INCLUDE_DEPTH en ns CurNone doc st
    | AddFile p ns =>
        let '(abs, segs) := segs_of p in
        match walk (e_fs en) (if abs then [] else e_cwd en) segs with
        | None => (st, Some EIO)
        | Some q =>
            match fs_node (e_fs en) q with
            | Some (NFile doc) => add_doc MAX_INCLUDE_DEPTH en ns (CurRaw p) doc st
            | _ => (st, Some EIO)
            end
        end
    end.

  (* a compiler stays usable after an error: the calls of a session share the state *)
  Fixpoint run_calls (en : env plain) (st : St) (ks : list call) : St * list (option (err E)) :=
    match ks with
    | [] => (st, [])
    | k :: rest =>
        let '(st', r) := do_call en st k in
        let '(st'', rs) := run_calls en st' rest in
        (st'', r :: rs)
    end.
End Model.

(* ================================================================ the concrete compiler state *)
Record rule := {
  r_name : string;
  r_global : bool;
  r_private : bool;
  r_deps : list string;     (* rules referenced by name in the condition *)
  r_mods : list string;     (* modules used in the condition *)
  r_wild : list string;     (* prefixes p of the rule sets "any of ( p* )" *)
  r_bad : bool;             (* the rule does not compile whatever the context *)
  r_val : bool              (* value of the context-free part of the condition on the scanned input *)
}.
Inductive plain := PImport (m : string) | PRule (r : rule).
Inductive cerr := CUnknownImport | CDupRule | CUnknownIdent | CBadRule | CWildcard.

Record nsst := {
  n_rules : list string;        (* rules_indexes keys *)
  n_mods : list string;         (* imported_modules keys *)
  n_forbidden : list string     (* forbidden_rule_prefixes *)
}.
Definition ns_empty : nsst := {| n_rules := []; n_mods := []; n_forbidden := [] |}.

Record cstate := {
  c_ns : list (string * nsst);                        (* namespaces, creation order *)
  c_rules : list (string * rule);                     (* Compiler::rules with their namespace *)
  c_globals : list (string * rule);                   (* Compiler::global_rules *)
  c_log : list (string * option string * string)      (* include callback invocations, newest first *)
}.
Definition cstate_empty : cstate := {| c_ns := []; c_rules := []; c_globals := []; c_log := [] |}.

Fixpoint assoc {A} (l : list (string * A)) (k : string) : option A :=
  match l with
  | [] => None
  | (k', v) :: rest => if String.eqb k' k then Some v else assoc rest k
  end.
Fixpoint assoc_set {A} (l : list (string * A)) (k : string) (v : A) : list (string * A) :=
  match l with
  | [] => [(k, v)]
  | (k', v') :: rest => if String.eqb k' k then (k, v) :: rest else (k', v') :: assoc_set rest k v
  end.

Definition get_ns (st : cstate) (ns : string) : nsst :=
  match assoc (c_ns st) ns with Some n => n | None => ns_empty end.
Definition set_ns (st : cstate) (ns : string) (n : nsst) : cstate :=
  {| c_ns := assoc_set (c_ns st) ns n; c_rules := c_rules st; c_globals := c_globals st; c_log := c_log st |}.

Definition c_touch (st : cstate) (ns : string) : cstate :=
  match assoc (c_ns st) ns with Some _ => st | None => set_ns st ns ns_empty end.
Definition c_log_call (st : cstate) (k : string * option string * string) : cstate :=
  {| c_ns := c_ns st; c_rules := c_rules st; c_globals := c_globals st; c_log := k :: c_log st |}.

Definition mem_str (x : string) (l : list string) : bool := existsb (String.eqb x) l.
(* modules a default compiler offers (the ones the generated rules use, and more) *)
Definition available_modules : list string :=
  ["time"; "math"; "string"; "hash"; "elf"; "macho"; "pe"; "dotnet"; "dex"].

Definition compile_rule (n : nsst) (r : rule) : option cerr :=
  if r_bad r then Some CBadRule
  else if forallb (fun d => mem_str d (n_rules n)) (r_deps r)
          && forallb (fun m => mem_str m (n_mods n)) (r_mods r)
          && forallb (fun p => existsb (String.prefix p) (n_rules n)) (r_wild r)
       then None else Some CUnknownIdent.

Definition c_step (st : cstate) (ns : string) (x : plain) : cstate * option cerr :=
  let n := get_ns st ns in
  match x with
  | PImport m =>
      if mem_str m available_modules
      then (set_ns st ns {| n_rules := n_rules n;
                            n_mods := if mem_str m (n_mods n) then n_mods n else n_mods n ++ [m];
                            n_forbidden := n_forbidden n |}, None)
      else (st, Some CUnknownImport)
  | PRule r =>
      if existsb (fun p => String.prefix p (r_name r)) (n_forbidden n) then (st, Some CWildcard)
      else match compile_rule n r with
           | Some e => (st, Some e)
           | None =>
               if mem_str (r_name r) (n_rules n) then (st, Some CDupRule)
               else
                 let n' := {| n_rules := n_rules n ++ [r_name r]; n_mods := n_mods n;
                              n_forbidden := n_forbidden n ++ r_wild r |} in
                 let st' := set_ns st ns n' in
                 (if r_global r
                  then {| c_ns := c_ns st'; c_rules := c_rules st'; c_globals := c_globals st' ++ [(ns, r)];
                          c_log := c_log st' |}
                  else {| c_ns := c_ns st'; c_rules := c_rules st' ++ [(ns, r)]; c_globals := c_globals st';
                          c_log := c_log st' |}, None)
           end
  end.

Definition c_add_doc := add_doc plain cstate cerr c_step c_touch c_log_call.
Definition c_run := run_calls plain cstate cerr c_step c_touch c_log_call.
Definition c_add_doc_fuel := add_doc_fuel plain cstate cerr c_step c_touch c_log_call.

(* ---- what a finalized scanner shows *)
(* Scanner::rules(): global rules, then the others: (namespace, name, is_global, is_private) *)
Definition listing (st : cstate) : list (string * string * bool * bool) :=
  map (fun '(ns, r) => (ns, r_name r, r_global r, r_private r)) (c_globals st ++ c_rules st).

(* one scan: a rule matches when its own part holds, the rules it names matched, each rule set
   has a matched member, and (non-global rules) every global rule of its namespace matched *)
Definition matched_in (acc : list (string * string * bool)) (ns name : string) : bool :=
  existsb (fun '(ns', nm, v) => String.eqb ns' ns && String.eqb nm name && v) acc.
Definition eval_rule (acc : list (string * string * bool)) (ns : string) (r : rule) : bool :=
  r_val r
  && forallb (matched_in acc ns) (r_deps r)
  && forallb (fun p => existsb (fun '(ns', nm, v) => String.eqb ns' ns && String.prefix p nm && v) acc) (r_wild r).
Fixpoint eval_rules (rules : list (string * rule)) (acc : list (string * string * bool))
  : list (string * string * bool) :=
  match rules with
  | [] => acc
  | (ns, r) :: rest => eval_rules rest (acc ++ [(ns, r_name r, eval_rule acc ns r)])
  end.
Definition scan_matched (st : cstate) : list (string * string) :=
  let g := eval_rules (c_globals st) [] in
  let ns_ok ns := forallb (fun '(ns', _, v) => negb (String.eqb ns' ns) || v) g in
  let all := eval_rules (c_rules st) g in
  let priv ns nm := existsb (fun '(ns', r) => String.eqb ns' ns && String.eqb (r_name r) nm && r_private r)
                            (c_globals st ++ c_rules st) in
  flat_map (fun '(ns, nm, v) => if v && ns_ok ns && negb (priv ns nm) then [(ns, nm)] else []) all.
