(* Model/HashMod.v — boreal/src/module/hash.rs: get_args, compute_hash_from_bytes / compute_hash_from_mem over
   Memory::on_range, the per-scan cache keyed by (offset, end), checksum32 and crc32.
   The RustCrypto digests and crc32fast enter by contract: a streaming digest is a state, `update`, `finalize`;
   the instances used to run the model take "the bytes seen so far" as the state and the reference function of
   Spec/Digest.v as `finalize` (md5/sha1/sha256), the table-driven byte-wise CRC (Sarwate) for crc32fast. *)
From Boreal Require Import Base.Prelude Spec.MathSpec Spec.Digest Model.ModFuncs.
Open Scope N_scope.

Inductive hargs := HBytes (s : list N) | HRange (offset end_ : N).

Definition get_args (args : list arg) : option hargs :=
  match args with
  | AStr s :: _ => Some (HBytes s)
  | AInt offset :: AInt length :: _ =>
      match start_end offset length with Some (o, e) => Some (HRange o e) | None => None end
  | _ => None
  end.

(* ---- a streaming digest *)
Record digest := { d_state : Type; d_init : d_state; d_update : d_state -> list N -> d_state;
                   d_finalize : d_state -> mres }.

Definition from_bytes (d : digest) (s : list N) : mres := d_finalize d (d_update d (d_init d) s).

Definition from_mem_gen (fixed : bool) (d : digest) (m : memory) (offset end_ : N) : mres :=
  match on_range_gen (d_update d) fixed m offset end_ (d_init d) with
  | OrOk st => d_finalize d st
  | OrNone => RUndef
  | OrPanic => RPanic
  end.
Definition from_mem := from_mem_gen true.

(* uncached call: checksum32, crc32 *)
Definition hash_call (d : digest) (m : memory) (args : list arg) : mres :=
  match get_args args with
  | None => RUndef
  | Some (HBytes s) => from_bytes d s
  | Some (HRange o e) => from_mem d m o e
  end.

(* ---- cache: HashMap<(usize, usize), Value>, one per algorithm *)
Definition cmap := list ((N * N) * mres).
Definition cget (k : N * N) (c : cmap) : option mres :=
  match find (fun kv => (fst (fst kv) =? fst k) && (snd (fst kv) =? snd k)) c with
  | Some kv => Some (snd kv)
  | None => None
  end.
Definition cput (k : N * N) (v : mres) (c : cmap) : cmap := (k, v) :: c.

Definition is_value (r : mres) : bool := match r with RUndef | RPanic => false | _ => true end.

Definition hash_call_cached (d : digest) (m : memory) (c : cmap) (args : list arg) : cmap * mres :=
  match get_args args with
  | None => (c, RUndef)
  | Some (HBytes s) => (c, from_bytes d s)
  | Some (HRange o e) =>
      match cget (o, e) c with
      | Some v => (c, v)
      | None => let v := from_mem d m o e in
                if is_value v then (cput (o, e) v c, v) else (c, v)    (* `?` returns before the insert *)
      end
  end.

(* ---- instances *)
Definition bytes_digest (f : list N -> list N) : digest :=
  {| d_state := list N; d_init := []; d_update := fun st data => st ++ data;
     d_finalize := fun st => RBytes (hex_encode (f st)) |}.
Definition md5_d := bytes_digest md5_ref.
Definition sha1_d := bytes_digest sha1_ref.
Definition sha256_d := bytes_digest sha256_ref.

(* checksum32: u32 wrapping_add over the bytes *)
Definition checksum_d : digest :=
  {| d_state := N; d_init := 0;
     d_update := fun st data => fold_left (fun acc b => (acc + b) mod 4294967296) data st;
     d_finalize := fun st => RInt (Z.of_N st) |}.

(* crc32fast by contract: table-driven byte-wise update of the reflected CRC-32 register *)
Definition crc_table : list N := map (crc_iter 8) (upto 256 0).
Definition crc_byte_tab (c b : N) : N :=
  N.lxor (nth (N.to_nat (N.land (N.lxor c b) 255)) crc_table 0) (N.shiftr c 8).
Definition crc_d : digest :=
  {| d_state := N; d_init := mask32;
     d_update := fun st data => fold_left crc_byte_tab data st;
     d_finalize := fun st => RInt (Z.of_N (N.lxor st mask32)) |}.
