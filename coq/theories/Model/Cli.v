(* Model/Cli.v — executable model of boreal-cli (main.rs, args/*.rs), function for function.
   Definitions only.

   Modelled: InputOptions::from_args (thread count), build_scan_params,
   update_scanner_params_from_callback_options, Input::new (classification supplied by the case),
   send_directory (walkdir: depth limit, symlink following, --skip-larger, error lines),
   scan_file, handle_event, display_rule, print_metadata, print_bytes, the per-file work of
   ThreadPool::worker_thread, and scan_input's sequential skeleton.  The thread pool itself is
   Model/Pool.v.

   Also: the `[namespace:]path` resolution of compile_rules and parse_define (args/compiler.rs).

   Not modelled: clap's parsing of argv, compile diagnostics, -D / --scan-stats output,
   process targets, the console module, timeouts, the value of a float define (classified only).

   The library is a parameter: `lib path` is what the callback API delivers for that file
   (all events of an uninterrupted scan, in delivery order) or the error text of
   ScanError::CannotReadFile ("cannot read file to scan: ..."). *)
From Coq Require Import String Ascii.
From Boreal Require Import Base.Prelude Spec.CliSpec.

(* ------------------------------------------------------------------ args/input.rs *)
(* InputOptions::from_args: `--threads n` gives max(1, n); without it available_parallelism *)
Definition nb_threads (io : in_options) (available : N) : N :=
  match i_threads io with
  | Some n => N.max 1 n
  | None => available
  end.

(* the pinned tree had min(1, n) — see Proofs/CliProofs.v, nb_threads_pinned_refuted *)
Definition nb_threads_pinned (io : in_options) (available : N) : N :=
  match i_threads io with
  | Some n => N.min 1 n
  | None => available
  end.

(* ThreadPool::new: bounded(nb_threads * 5) *)
Definition channel_capacity (n : N) : N := n * 5.

(* ------------------------------------------------------------------ main.rs: scan parameters *)
Definition default_params : scan_params :=
  {| p_full_matches := false; p_match_max_length := 512; p_string_max_nb_matches := 1000;
     p_include_not_matched := false; p_events := EV_RULE_MATCH; p_statistics := false;
     p_memory_chunk_size := None; p_timeout := None; p_max_fetched_region_size := 1024 * 1024 * 1024;
     p_frag_mode := 0 |}.

Definition set_memory_chunk_size (p : scan_params) v :=
  {| p_full_matches := p_full_matches p; p_match_max_length := p_match_max_length p;
     p_string_max_nb_matches := p_string_max_nb_matches p; p_include_not_matched := p_include_not_matched p;
     p_events := p_events p; p_statistics := p_statistics p; p_memory_chunk_size := v;
     p_timeout := p_timeout p; p_max_fetched_region_size := p_max_fetched_region_size p;
     p_frag_mode := p_frag_mode p |}.
Definition set_timeout (p : scan_params) v :=
  {| p_full_matches := p_full_matches p; p_match_max_length := p_match_max_length p;
     p_string_max_nb_matches := p_string_max_nb_matches p; p_include_not_matched := p_include_not_matched p;
     p_events := p_events p; p_statistics := p_statistics p; p_memory_chunk_size := p_memory_chunk_size p;
     p_timeout := v; p_max_fetched_region_size := p_max_fetched_region_size p;
     p_frag_mode := p_frag_mode p |}.
Definition set_max_fetched (p : scan_params) v :=
  {| p_full_matches := p_full_matches p; p_match_max_length := p_match_max_length p;
     p_string_max_nb_matches := p_string_max_nb_matches p; p_include_not_matched := p_include_not_matched p;
     p_events := p_events p; p_statistics := p_statistics p; p_memory_chunk_size := p_memory_chunk_size p;
     p_timeout := p_timeout p; p_max_fetched_region_size := v;
     p_frag_mode := p_frag_mode p |}.
Definition set_frag_mode (p : scan_params) v :=
  {| p_full_matches := p_full_matches p; p_match_max_length := p_match_max_length p;
     p_string_max_nb_matches := p_string_max_nb_matches p; p_include_not_matched := p_include_not_matched p;
     p_events := p_events p; p_statistics := p_statistics p; p_memory_chunk_size := p_memory_chunk_size p;
     p_timeout := p_timeout p; p_max_fetched_region_size := p_max_fetched_region_size p;
     p_frag_mode := v |}.
Definition set_string_max (p : scan_params) v :=
  {| p_full_matches := p_full_matches p; p_match_max_length := p_match_max_length p;
     p_string_max_nb_matches := v; p_include_not_matched := p_include_not_matched p;
     p_events := p_events p; p_statistics := p_statistics p; p_memory_chunk_size := p_memory_chunk_size p;
     p_timeout := p_timeout p; p_max_fetched_region_size := p_max_fetched_region_size p;
     p_frag_mode := p_frag_mode p |}.
Definition set_match_max_length (p : scan_params) v :=
  {| p_full_matches := p_full_matches p; p_match_max_length := v;
     p_string_max_nb_matches := p_string_max_nb_matches p; p_include_not_matched := p_include_not_matched p;
     p_events := p_events p; p_statistics := p_statistics p; p_memory_chunk_size := p_memory_chunk_size p;
     p_timeout := p_timeout p; p_max_fetched_region_size := p_max_fetched_region_size p;
     p_frag_mode := p_frag_mode p |}.

(* build_scan_params *)
Definition build_scan_params (s : sc_options) : scan_params :=
  let p := set_timeout (set_memory_chunk_size default_params (s_memory_chunk_size s)) (s_timeout s) in
  let p := match s_max_fetched_region_size s with Some v => set_max_fetched p v | None => p end in
  let p := match s_frag_mode s with Some v => set_frag_mode p v | None => p end in
  let p := match s_string_max_nb_matches s with Some v => set_string_max p v | None => p end in
  p.

Definition print_strings_matches (o : cb_options) : bool := o_strings o || o_length o || o_xor o.

(* update_scanner_params_from_callback_options *)
Definition callback_events (o : cb_options) : N :=
  let ev := 0 in
  let ev := match o_warning o with WIgnore => ev | WFail | WPrint => N.lor ev EV_STRING_LIMIT end in
  let ev := if o_module_data o then N.lor ev EV_MODULE_IMPORT else ev in
  let ev := if o_stats o then N.lor ev EV_SCAN_STATISTICS else ev in
  if o_negate o then N.lor ev EV_RULE_NO_MATCH else N.lor ev EV_RULE_MATCH.

Definition update_params_from_callback_options (p : scan_params) (o : cb_options) : scan_params :=
  let p := match o_match_max_length o with Some v => set_match_max_length p v | None => p end in
  {| p_full_matches := print_strings_matches o;
     p_match_max_length := p_match_max_length p;
     p_string_max_nb_matches := p_string_max_nb_matches p;
     p_include_not_matched := o_negate o;
     p_events := callback_events o;
     p_statistics := o_stats o;
     p_memory_chunk_size := p_memory_chunk_size p; p_timeout := p_timeout p;
     p_max_fetched_region_size := p_max_fetched_region_size p; p_frag_mode := p_frag_mode p |}.

(* scan_input: set_scanner_options then update_scanner_params_from_callback_options *)
Definition params_of_flags (s : sc_options) (o : cb_options) : scan_params :=
  update_params_from_callback_options (build_scan_params s) o.

Definition params_eqb (a b : scan_params) : bool :=
  Bool.eqb (p_full_matches a) (p_full_matches b)
  && (p_match_max_length a =? p_match_max_length b)
  && (p_string_max_nb_matches a =? p_string_max_nb_matches b)
  && Bool.eqb (p_include_not_matched a) (p_include_not_matched b)
  && (p_events a =? p_events b)
  && Bool.eqb (p_statistics a) (p_statistics b)
  && opt_eqb N.eqb (p_memory_chunk_size a) (p_memory_chunk_size b)
  && opt_eqb N.eqb (p_timeout a) (p_timeout b)
  && (p_max_fetched_region_size a =? p_max_fetched_region_size b)
  && (p_frag_mode a =? p_frag_mode b).

(* ------------------------------------------------------------------ compile_rules / args/compiler.rs *)
Fixpoint split_once (sep : N) (s : bytes) : option (bytes * bytes) :=
  match s with
  | [] => None
  | c :: rest => if c =? sep then Some ([], rest)
                 else match split_once sep rest with Some (a, b) => Some (c :: a, b) | None => None end
  end.

(* `[NAMESPACE:]RULES_FILE`: the whole argument is tried as a path first (a colon is legal in a file
   name); only when no such file exists is it split at the first colon *)
Definition resolve_rules_arg (path_exists : bytes -> bool) (arg : bytes) : option bytes * bytes :=
  if path_exists arg then (None, arg)
  else match split_once 58 arg with
       | Some (ns, p) => (Some ns, p)
       | None => (None, arg)
       end.

(* parse_define: VAR=VALUE; true / false; a value containing '.' is a float if it parses as one;
   otherwise an integer if it parses as an i64; otherwise a byte string *)
Inductive ext_value := XBool (b : bool) | XInt (z : Z) | XFloat (text : bytes) | XBytes (s : bytes).

Definition is_digit (c : N) : bool := (48 <=? c) && (c <=? 57).

Fixpoint digits_value (acc : Z) (s : bytes) : option Z :=
  match s with
  | [] => Some acc
  | c :: rest => if is_digit c then digits_value (acc * 10 + Z.of_N (c - 48)) rest else None
  end.

(* i64::from_str: optional sign, at least one digit, nothing else, no overflow *)
Definition parse_i64 (s : bytes) : option Z :=
  let '(neg, body) := match s with
                      | 45 :: r => (true, r)
                      | 43 :: r => (false, r)
                      | _ => (false, s)
                      end in
  match body with
  | [] => None
  | _ => match digits_value 0 body with
         | Some v => let z := if neg then (- v)%Z else v in
                     if ((-9223372036854775808 <=? z) && (z <=? 9223372036854775807))%Z then Some z else None
         | None => None
         end
  end.

(* the decimal subset of f64::from_str that contains a '.':  [+-] digits* '.' digits* ([eE] [+-] digits+)?
   with at least one mantissa digit ("inf", "nan", hex floats have no '.', "infinity." does not parse) *)
Fixpoint span_digits (s : bytes) : bytes * bytes :=
  match s with
  | c :: rest => if is_digit c then let '(d, r) := span_digits rest in (c :: d, r) else ([], s)
  | [] => ([], [])
  end.

Definition parses_as_float (s : bytes) : bool :=
  let body := match s with 45 :: r => r | 43 :: r => r | _ => s end in
  let '(int_part, r1) := span_digits body in
  match r1 with
  | 46 :: r2 =>
      let '(frac, r3) := span_digits r2 in
      match int_part, frac with
      | [], [] => false
      | _, _ =>
          match r3 with
          | [] => true
          | e :: r4 =>
              if (e =? 101) || (e =? 69)
              then let r5 := match r4 with 45 :: r => r | 43 :: r => r | _ => r4 end in
                   let '(ex, r6) := span_digits r5 in
                   match ex, r6 with
                   | _ :: _, [] => true
                   | _, _ => false
                   end
              else false
          end
      end
  | _ => false
  end.

Definition parse_define (arg : bytes) : option (bytes * ext_value) :=
  match split_once 61 arg with
  | None => None                                   (* clap reports "missing '=' delimiter" *)
  | Some (name, value) =>
      Some (name,
            if bytes_eqb value (B "true") then XBool true
            else if bytes_eqb value (B "false") then XBool false
            else if existsb (N.eqb 46) value
                 then if parses_as_float value then XFloat value else XBytes value
                 else match parse_i64 value with Some z => XInt z | None => XBytes value end)
  end.

Definition ext_value_eqb (a b : ext_value) : bool :=
  match a, b with
  | XBool x, XBool y => Bool.eqb x y
  | XInt x, XInt y => (x =? y)%Z
  | XFloat x, XFloat y => bytes_eqb x y
  | XBytes x, XBytes y => bytes_eqb x y
  | _, _ => false
  end.

(* ------------------------------------------------------------------ args/mod.rs: the yr subcommand *)
Inductive yr_exec :=
| YrListModules
| YrError                                   (* message on stderr, ExitCode::FAILURE *)
| YrLoad (file input : bytes)
| YrScan (rules : list bytes) (input : bytes).

(* ExecutionMode::from_yr_args: the last positional argument is the target, the others are rules *)
Definition from_yr_args (module_names load : bool) (positional : list bytes) : yr_exec :=
  if module_names then YrListModules
  else if (length positional <? 2)%nat then YrError
  else
    let input := last positional [] in
    let rules := removelast positional in
    if load then match rules with [r] => YrLoad r input | _ => YrError end
    else YrScan rules input.

(* list_modules: names.sort_unstable() on byte strings, one per line *)
Fixpoint bytes_leb (a b : bytes) : bool :=
  match a, b with
  | [], _ => true
  | _ :: _, [] => false
  | x :: a', y :: b' => if x <? y then true else if y <? x then false else bytes_leb a' b'
  end.
Fixpoint insert_sorted (x : bytes) (l : list bytes) : list bytes :=
  match l with
  | [] => [x]
  | y :: rest => if bytes_leb x y then x :: l else y :: insert_sorted x rest
  end.
Definition list_modules (available : list bytes) : list bytes := fold_right insert_sorted [] available.

(* save_scanner: refuses to overwrite *)
Definition save_exit (destination_exists : bool) : N := if destination_exists then 1 else 0.

(* ------------------------------------------------------------------ Input::new *)
Inductive input_kind := InFiles | InDirectory | InFile | InProcess (pid : N).

(* u32::from_str: optional '+', at least one digit, nothing else, no overflow *)
Definition parse_u32 (s : bytes) : option N :=
  let body := match s with 43 :: r => r | _ => s end in
  match body with
  | [] => None
  | _ => match digits_value 0 body with
         | Some v => if (v <=? 4294967295)%Z then Some (Z.to_N v) else None
         | None => None
         end
  end.

(* same as YARA: the argument is a pid only if no file has this name *)
Definition classify_input (scan_list is_dir path_exists : bool) (arg : bytes) : input_kind :=
  if scan_list then InFiles
  else if is_dir then InDirectory
  else if path_exists then InFile
  else match parse_u32 arg with Some pid => InProcess pid | None => InFile end.

(* ------------------------------------------------------------------ library events *)
Inductive event :=
| EvRule (matched : bool) (info : rule_info) (ms : list (bytes * list smatch))   (* RuleMatch / RuleNoMatch *)
| EvLimit (ns rule str : bytes)                                                   (* StringReachedMatchLimit *)
| EvOther.

(* ------------------------------------------------------------------ printing *)
(* print_bytes *)
Definition print_bytes (data : bytes) (xor_key : N) : bytes :=
  flat_map (fun c => escape_byte (N.lxor c xor_key)) data.

(* print_metadata *)
Fixpoint print_metadata_items (first : bool) (ms : list (bytes * meta_value)) : bytes :=
  match ms with
  | [] => []
  | (name, v) :: rest =>
      (if first then [] else B ",")
      ++ name ++ B "="
      ++ match v with
         | MBytes b => B """" ++ print_bytes b 0 ++ B """"
         | MInt z => decZ z
         | MBool b => if b then B "true" else B "false"
         end
      ++ print_metadata_items false rest
  end.
Definition print_metadata (ms : list (bytes * meta_value)) : bytes :=
  B " [" ++ print_metadata_items true ms ++ B "]".

Definition print_match (o : cb_options) (sname : bytes) (m : smatch) : bytes :=
  B "0x" ++ hex (m_base m + m_offset m) ++ B ":"
  ++ (if o_length o then dec (m_length m) ++ B ":" else [])
  ++ B "$" ++ sname
  ++ (if o_xor o then B ":xor(0x" ++ hex2 (m_key m) ++ B "," ++ print_bytes (m_data m) (m_key m) ++ B ")" else [])
  ++ (if o_strings o then B ": " ++ print_bytes (m_data m) 0 else []).

(* display_rule: the lines written for one rule event ([] when filtered out) *)
Definition display_rule (o : cb_options) (what : bytes) (info : rule_info) (ms : list (bytes * list smatch))
  : list bytes :=
  if match o_ident o with Some id => negb (bytes_eqb (r_name info) id) | None => false end then []
  else if match o_tag o with Some tag => forallb (fun t => negb (bytes_eqb t tag)) (r_tags info) | None => false end
  then []
  else
    let header :=
        (if o_ns o then r_ns info ++ B ":" else [])
        ++ r_name info
        ++ (if o_tags o then B " [" ++ join (B ",") (r_tags info) ++ B "]" else [])
        ++ (if o_meta o then print_metadata (r_metas info) else [])
        ++ B " " ++ what in
    header :: (if print_strings_matches o
               then flat_map (fun s => map (print_match o (fst s)) (snd s)) ms
               else []).

(* handle_event: (lines written while the stdout lock is held, new nb_rules, abort?) *)
Definition handle_event (o : cb_options) (what : bytes) (ev : event) (nb_rules : N) : list line * N * bool :=
  let '(lines, nb, abort_now) :=
    match ev with
    | EvRule _ info ms =>
        (if o_count o then [] else map so (display_rule o what info ms), nb_rules + 1, false)
    | EvLimit ns rule str =>
        ([se (B "warning: string $" ++ str ++ B " in rule " ++ ns ++ B ":" ++ rule
                ++ B " reached the maximum number of matches")],
         nb_rules, match o_warning o with WFail => true | _ => false end)
    | EvOther => ([], nb_rules, false)
    end in
  if abort_now then (lines, nb, true)
  else (lines, nb, match o_limit o with Some limit => limit <=? nb | None => false end).

(* the callback driven over the events of one scan, until it answers Abort.
   Result: one block of lines per delivered event, and the final nb_rules. *)
Fixpoint run_events (o : cb_options) (what : bytes) (evs : list event) (nb : N) : list (list line) * N :=
  match evs with
  | [] => ([], nb)
  | e :: rest =>
      let '(lines, nb', abort) := handle_event o what e nb in
      if abort then ([lines], nb')
      else let '(blocks, n) := run_events o what rest nb' in (lines :: blocks, n)
  end.

Definition libfn := bytes -> (bytes + list event)%type.   (* inl: CannotReadFile text *)

(* scan_file: Ok(blocks, nb_rules) | Err(text); a CallbackAbort is Ok *)
Definition scan_file (o : cb_options) (lib : libfn) (path : bytes) : (bytes + list (list line) * N)%type :=
  match lib path with
  | inl err => inl err
  | inr evs => inr (run_events o path evs 0)
  end.

(* body of the worker loop for one received path: the blocks it writes, each under one lock *)
Definition worker_blocks (o : cb_options) (lib : libfn) (path : bytes) : list (list line) :=
  let '(blocks, nb) :=
    match scan_file o lib path with
    | inl err => ([[se (B "Cannot scan file " ++ path ++ B ": " ++ err)]], 0)
    | inr r => r
    end in
  blocks ++ (if o_count o then [[so (path ++ B ": " ++ dec nb)]] else []).

Definition worker_lines (o : cb_options) (lib : libfn) (path : bytes) : list line :=
  concat (worker_blocks o lib path).

(* ------------------------------------------------------------------ send_directory *)
Inductive node :=
| NFile (name : bytes) (size : N)
| NDir (name : bytes) (children : list node)
| NLinkFile (name : bytes) (size : N)              (* symlink to a regular file of that size *)
| NLinkDir (name : bytes) (children : list node)   (* symlink to a directory *)
| NDangling (name : bytes).                        (* symlink to nothing *)

Definition path_join (dir name : bytes) : bytes := dir ++ B "/" ++ name.

(* producer actions: inl = a line written by the main thread, inr = a path sent to the channel *)
Definition action := (line + bytes)%type.

Definition visit_file (io : in_options) (depth : N) (path : bytes) (size : N) : list action :=
  match i_skip_larger io with
  | Some max_size =>
      if (0 <? max_size) && (0 <? depth) && (max_size <=? size)
      then [inl (se (B "skipping " ++ path ++ B " (" ++ dec size ++ B " bytes) because it's larger than "
                       ++ dec max_size ++ B " bytes."))]
      else [inr path]
  | None => [inr path]
  end.

(* the entry for `n` found in directory `dir`, itself at depth `depth - 1` *)
Fixpoint walk_node (io : in_options) (dir : bytes) (depth : N) (n : node) : list action :=
  let descend name children :=
      if i_recursive io || (depth <? 1)
      then flat_map (walk_node io (path_join dir name) (depth + 1)) children
      else [] in
  match n with
  | NFile name size => visit_file io depth (path_join dir name) size
  | NDir name children => descend name children
  | NLinkFile name size =>
      if i_no_follow io then [] else visit_file io depth (path_join dir name) size
  | NLinkDir name children =>
      if i_no_follow io then [] else descend name children
  | NDangling name =>
      if i_no_follow io then []
      else [inl (se (B "IO error for operation on " ++ path_join dir name
                       ++ B ": No such file or directory (os error 2)"))]
  end.

(* send_directory(root): the root is depth 0, its entries depth 1 *)
Definition send_directory (io : in_options) (root : bytes) (children : list node) : list action :=
  flat_map (walk_node io root 1) children.

(* ------------------------------------------------------------------ scan_input *)
Inductive lentry := LDir (path : bytes) (children : list node) | LFile (path : bytes).

Inductive target :=
| TDir (root : bytes) (children : list node)     (* Input::Directory *)
| TFile (path : bytes)                           (* Input::File (existing or not) *)
| TList (entries : list lentry).                 (* Input::Files, each entry classified by is_dir *)

Definition producer (io : in_options) (t : target) : list action :=
  match t with
  | TDir root children => send_directory io root children
  | TFile _ => []
  | TList entries =>
      flat_map (fun e => match e with
                         | LDir p ch => send_directory io p ch
                         | LFile p => [inr p]
                         end) entries
  end.

Definition sent_files (acts : list action) : list bytes :=
  flat_map (fun a => match a with inr p => [p] | inl _ => [] end) acts.
Definition producer_lines (acts : list action) : list line :=
  flat_map (fun a => match a with inl l => [l] | inr _ => [] end) acts.

(* Sequential reference of a whole run: (lines, exit status).  For directory and list targets
   the real tool distributes `sent_files` over a thread pool; Proofs/PoolProofs.v shows that
   every terminal state of the pool has written a permutation of these lines. *)
Definition cli_run (o : cb_options) (io : in_options) (lib : libfn) (t : target) : list line * N :=
  match t with
  | TFile path =>
      match scan_file o lib path with
      | inr (blocks, nb) =>
          (concat blocks ++ (if o_count o then [so (path ++ B ": " ++ dec nb)] else []), 0)
      | inl err => ([se (B "Cannot scan " ++ path ++ B ": " ++ err)], 1)
      end
  | _ =>
      let acts := producer io t in
      (producer_lines acts ++ flat_map (worker_lines o lib) (sent_files acts), 0)
  end.

Definition stdout_of (l : list line) : list bytes := flat_map (fun x : line => if fst x then [] else [snd x]) l.
Definition stderr_of (l : list line) : list bytes := flat_map (fun x : line => if fst x then [snd x] else []) l.
