(* Model/SimpleValidator.v — boreal/src/matcher/validator/simple.rs: `SimpleValidator::new`
   (`add_hir_to_simple_nodes`, with the Dot -> Jump merging under dot_all), `find_anchored_fwd`,
   `find_anchored_rev`, `check_node`.  The node vector is kept in reverse push order while it is built
   (its last element is what a Dot may merge into).  Definitions only. *)
From Boreal Require Import Base.Prelude Spec.Regex Model.Widen Model.Validator.

Inductive snode :=
| SByte (b : N)
| SMask (value mask : N)
| SNegMask (value mask : N)
| SJump (k : N)
| SDot.

(* acc: nodes pushed so far, last pushed first *)
Fixpoint add_nodes (da reverse : bool) (h : hir) (acc : list snode) {struct h} : option (list snode) :=
  match h with
  | HAlt _ | HAssert _ | HClass _ | HRep _ _ _ => None
  | HMask v m neg => Some ((if neg then SNegMask v m else SMask v m) :: acc)
  | HConcat l =>
      if reverse then
        (fix go (l : list hir) (acc : list snode) : option (list snode) :=
           match l with
           | [] => Some acc
           | x :: r => match go r acc with Some acc' => add_nodes da reverse x acc' | None => None end
           end) l acc
      else
        (fix go (l : list hir) (acc : list snode) : option (list snode) :=
           match l with
           | [] => Some acc
           | x :: r => match add_nodes da reverse x acc with Some acc' => go r acc' | None => None end
           end) l acc
  | HDot =>
      if da then
        match acc with
        | SJump v :: t => if v <? 255 then Some (SJump (v + 1) :: t) else Some (SJump 1 :: acc)
        | _ => Some (SJump 1 :: acc)
        end
      else Some (SDot :: acc)
  | HEmpty => Some acc
  | HLit b => Some (SByte b :: acc)
  | HGroup h' => add_nodes da reverse h' acc
  end.

Record simple_validator := { sv_nodes : list snode; sv_length : N }.

Definition node_len (n : snode) : N := match n with SJump k => k | _ => 1 end.
Definition nodes_len (l : list snode) : N := fold_right (fun n a => node_len n + a) 0 l.

(* SimpleValidator::new; the analysis flags it tests are implied by add_nodes failing *)
Definition simple_new (md : mods) (h : hir) (reverse : bool) : option simple_validator :=
  if m_nocase md || m_wide md then None
  else match add_nodes (m_dot_all md) reverse h [] with
       | Some acc => let nodes := rev acc in Some {| sv_nodes := nodes; sv_length := nodes_len nodes |}
       | None => None
       end.

(* check_node on the byte at absolute position p *)
Definition check_byte (n : snode) (b : N) : bool :=
  match n with
  | SJump _ => true
  | SDot => negb (b =? 10)
  | SByte a => b =? a
  | SMask v m => N.land b m =? v
  | SNegMask v m => negb (N.land b m =? v)
  end.

Fixpoint walk_fwd (nodes : list snode) (mem : list N) (p : N) : option N :=
  match nodes with
  | [] => Some p
  | SJump k :: r => walk_fwd r mem (p + k)
  | n :: r => match byte_at mem p with
              | Some b => if check_byte n b then walk_fwd r mem (p + 1) else None
              | None => None
              end
  end.

Fixpoint walk_rev (nodes : list snode) (mem : list N) (p : N) : option N :=
  match nodes with
  | [] => Some p
  | SJump k :: r => walk_rev r mem (p - k)
  | n :: r => match byte_at mem (p - 1) with
              | Some b => if (0 <? p) && check_byte n b then walk_rev r mem (p - 1) else None
              | None => None
              end
  end.

Definition simple_fwd (sv : simple_validator) (mem : list N) (start lim : N) : option N :=
  if lim - start <? sv_length sv then None else walk_fwd (sv_nodes sv) mem start.

Definition simple_rev (sv : simple_validator) (mem : list N) (lo e : N) : option N :=
  if e - lo <? sv_length sv then None else walk_rev (sv_nodes sv) mem e.
