(* Model/ScannerState.v — boreal/src/scanner/mod.rs: `struct Scanner` (`inner: Arc<Inner>`, `scan_params`,
   `external_symbols_values`, `module_user_data`), `#[derive(Clone)]`, `define_symbol` / `define_symbol_inner`
   (`UnknownName`, `InvalidType`, in-place update of one slot of the value vector), `set_scan_params`,
   `set_module_data` (`HashMap<TypeId, Arc<..>>::insert`), and histories of such operations over a family of
   clones.  Definitions only.

   What a scan computes is not re-modelled here (that is Model/Scanner.v `run_scan`, Model/Eval.v, ...): a scan is
   a Section variable `scan : scanner -> input -> result`, i.e. *some* function of the four fields of the
   scanner it is called on (`Scanner::scan_mem` passes exactly `&self.inner`, `&self.scan_params`,
   `&self.external_symbols_values`, `&self.module_user_data` to `Inner::scan`) and of the input. *)
From Coq Require Import String.
From Boreal Require Import Base.Prelude.
Open Scope N_scope.

(* compiler/external_symbol.rs: enum ExternalValue { Integer(i64), Float(f64), Bytes(Vec<u8>), Boolean(bool) }.
   The payload of a float is opaque here (an integer code of the f64 chosen by the case printer). *)
Inductive extval := EBool (b : bool) | EInt (z : Z) | EFloat (code : Z) | EBytes (l : list N).

(* the match of define_symbol_inner: same constructor on both sides *)
Definition same_type (a b : extval) : bool :=
  match a, b with
  | EBool _, EBool _ | EInt _, EInt _ | EFloat _, EFloat _ | EBytes _, EBytes _ => true
  | _, _ => false
  end.

Definition extval_eqb (a b : extval) : bool :=
  match a, b with
  | EBool x, EBool y => Bool.eqb x y
  | EInt x, EInt y => (x =? y)%Z
  | EFloat x, EFloat y => (x =? y)%Z
  | EBytes x, EBytes y => list_eqb N.eqb x y
  | _, _ => false
  end.

Inductive dres := DOk | DUnknownName | DInvalidType.   (* Result<(), DefineSymbolError> *)
Definition dres_eqb (a b : dres) : bool :=
  match a, b with DOk, DOk | DUnknownName, DUnknownName | DInvalidType, DInvalidType => true | _, _ => false end.

(* HashMap<Box<str>, usize>::get — built in Scanner::new from distinct names; first binding *)
Fixpoint sym_lookup (name : string) (m : list (string * nat)) : option nat :=
  match m with
  | [] => None
  | (n, i) :: r => if String.eqb n name then Some i else sym_lookup name r
  end.

(* in-place write of slot i *)
Fixpoint set_slot {A} (l : list A) (i : nat) (v : A) : list A :=
  match l, i with
  | [], _ => []
  | _ :: r, O => v :: r
  | x :: r, S i' => x :: set_slot r i' v
  end.

(* HashMap<TypeId, Arc<dyn Any>>::insert: replaces the value of an existing key, else adds the key *)
Fixpoint md_insert {D} (k : N) (d : D) (m : list (N * D)) : list (N * D) :=
  match m with
  | [] => [(k, d)]
  | (k', d') :: r => if k' =? k then (k, d) :: r else (k', d') :: md_insert k d r
  end.
Fixpoint md_get {D} (k : N) (m : list (N * D)) : option D :=
  match m with
  | [] => None
  | (k', d') :: r => if k' =? k then Some d' else md_get k r
  end.

Section Scanner.
  Variable compiled : Type.   (* rules, variables, ac_scan, modules, namespaces, bytes_pool: never written after finalize() *)
  Variable params : Type.     (* ScanParams *)
  Variable udata : Type.      (* a module's UserData value (behind an Arc, never written) *)
  Variable input : Type.
  Variable result : Type.

  Record inner := { i_compiled : compiled; i_symmap : list (string * nat) }.

  Record scanner := {
    sc_inner : inner;                 (* Arc<Inner>: shared by all clones, read-only *)
    sc_params : params;
    sc_syms : list extval;            (* Box<[ExternalValue]> *)
    sc_mdata : list (N * udata)       (* ModuleUserData, keyed by the module's TypeId *)
  }.

  Variable scan : scanner -> input -> result.

  (* Scanner::define_symbol_inner *)
  Definition define_symbol (s : scanner) (name : string) (v : extval) : scanner * dres :=
    match sym_lookup name (i_symmap (sc_inner s)) with
    | None => (s, DUnknownName)
    | Some idx =>
        match nth_error (sc_syms s) idx with
        | Some old =>
            if same_type old v then
              ({| sc_inner := sc_inner s; sc_params := sc_params s;
                  sc_syms := set_slot (sc_syms s) idx v; sc_mdata := sc_mdata s |}, DOk)
            else (s, DInvalidType)
        | None => (s, DOk)          (* `if let Some(v) = ...get_mut(index)` not taken: Ok(()) *)
        end
    end.

  Definition set_scan_params (s : scanner) (p : params) : scanner :=
    {| sc_inner := sc_inner s; sc_params := p; sc_syms := sc_syms s; sc_mdata := sc_mdata s |}.

  Definition set_module_data (s : scanner) (k : N) (d : udata) : scanner :=
    {| sc_inner := sc_inner s; sc_params := sc_params s; sc_syms := sc_syms s;
       sc_mdata := md_insert k d (sc_mdata s) |}.

  (* #[derive(Clone)]: Arc::clone(inner), params.clone(), values.clone(), map.clone() *)
  Definition clone (s : scanner) : scanner :=
    {| sc_inner := sc_inner s; sc_params := sc_params s; sc_syms := sc_syms s; sc_mdata := sc_mdata s |}.

  (* Compiler::define_symbol_inner: a name already present is refused (returns false) *)
  Definition compiler_define (syms : list (string * extval)) (name : string) (v : extval)
    : list (string * extval) * bool :=
    if existsb (fun e => String.eqb (fst e) name) syms then (syms, false) else (syms ++ [(name, v)], true).

  (* Scanner::new: the symbols in definition order give the value vector, and name |-> position the map *)
  Fixpoint new_symmap (syms : list (string * extval)) (i : nat) : list (string * nat) :=
    match syms with
    | [] => []
    | (n, _) :: r => (n, i) :: new_symmap r (S i)
    end.
  Definition scanner_new (c : compiled) (default_params : params) (syms : list (string * extval)) : scanner :=
    {| sc_inner := {| i_compiled := c; i_symmap := new_symmap syms 0 |};
       sc_params := default_params; sc_syms := map snd syms; sc_mdata := [] |}.

  (* ---- operations on one scanner (the &mut self methods) *)
  Inductive lop := LDefine (name : string) (v : extval) | LSetParams (p : params) | LSetData (k : N) (d : udata).

  Inductive lout := LUnit | LDef (r : dres).

  Definition apply_lop (s : scanner) (o : lop) : scanner * lout :=
    match o with
    | LDefine name v => let (s', r) := define_symbol s name v in (s', LDef r)
    | LSetParams p => (set_scan_params s p, LUnit)
    | LSetData k d => (set_module_data s k d, LUnit)
    end.
  Definition apply_l (s : scanner) (o : lop) : scanner := fst (apply_lop s o).

  (* ---- histories over a family of clones; clone ids are positions in the family, the original is 0 *)
  Inductive op :=
  | OClone (from : nat)               (* let c_new = c_from.clone() *)
  | OLocal (c : nat) (o : lop)        (* c.define_symbol / set_scan_params / set_module_data *)
  | OScan (c : nat) (inp : input).    (* c.scan_*(inp) *)

  Inductive out := OutNone (* no such clone: nothing happens *) | OutCloned (id : nat) | OutLocal (r : lout)
                 | OutScan (r : result).

  Definition fam := list scanner.

  Definition step (f : fam) (o : op) : fam * out :=
    match o with
    | OClone from =>
        match nth_error f from with
        | Some s => (f ++ [clone s], OutCloned (length f))
        | None => (f, OutNone)
        end
    | OLocal c l =>
        match nth_error f c with
        | Some s => let (s', r) := apply_lop s l in (set_slot f c s', OutLocal r)
        | None => (f, OutNone)
        end
    | OScan c inp =>
        match nth_error f c with
        | Some s => (f, OutScan (scan s inp))
        | None => (f, OutNone)
        end
    end.

  Definition run (f : fam) (h : list op) : fam := fold_left (fun f o => fst (step f o)) h f.

  (* the outputs of the operations, in order *)
  Fixpoint outputs (f : fam) (h : list op) : list out :=
    match h with
    | [] => []
    | o :: r => let (f', x) := step f o in x :: outputs f' r
    end.

  (* the family after every operation (what the correspondence observes) *)
  Fixpoint trace (f : fam) (h : list op) : list (fam * out) :=
    match h with
    | [] => []
    | o :: r => let (f', x) := step f o in (f', x) :: trace f' r
    end.

  (* ---- the declarative side: what one clone is, told without the other clones *)
  (* operations of `h` addressed to clone c *)
  Fixpoint own_ops (c : nat) (h : list op) : list lop :=
    match h with
    | [] => []
    | OLocal c' l :: r => if Nat.eqb c' c then l :: own_ops c r else own_ops c r
    | _ :: r => own_ops c r
    end.

  (* size of the family after a history given most-recent-first *)
  Fixpoint nfam_r (hr : list op) : nat :=
    match hr with
    | [] => 1
    | OClone from :: r => if Nat.ltb from (nfam_r r) then S (nfam_r r) else nfam_r r
    | _ :: r => nfam_r r
    end.

  (* every operation that contributed to clone c, oldest first: its own, and those of its ancestors
     before each fork (history most-recent-first) *)
  Fixpoint lineage_r (hr : list op) (c : nat) : list lop :=
    match hr with
    | [] => []
    | OClone from :: r =>
        if Nat.ltb from (nfam_r r) && Nat.eqb c (nfam_r r) then lineage_r r from else lineage_r r c
    | OLocal c' l :: r => if Nat.eqb c' c then lineage_r r c ++ [l] else lineage_r r c
    | OScan _ _ :: r => lineage_r r c
    end.
  Definition nfam (h : list op) : nat := nfam_r (rev h).
  Definition lineage (h : list op) (c : nat) : list lop := lineage_r (rev h) c.

  (* spec of the family: clone by clone, from the lineage only *)
  Definition spec_clone (s0 : scanner) (h : list op) (c : nat) : scanner := fold_left apply_l (lineage h c) s0.
  Definition spec_fam (s0 : scanner) (h : list op) : fam := map (spec_clone s0 h) (seq 0 (nfam h)).

  (* ---- well-formedness (what Scanner::new establishes: every index of the name map is a slot) *)
  Definition wf_scanner (s : scanner) : Prop :=
    forall name idx, sym_lookup name (i_symmap (sc_inner s)) = Some idx -> (idx < length (sc_syms s))%nat.
End Scanner.

Arguments sc_inner {compiled params udata} s.
Arguments sc_params {compiled params udata} s.
Arguments sc_syms {compiled params udata} s.
Arguments sc_mdata {compiled params udata} s.
Arguments i_compiled {compiled} i.
Arguments i_symmap {compiled} i.
Arguments define_symbol {compiled params udata} s name v.
Arguments set_scan_params {compiled params udata} s p.
Arguments set_module_data {compiled params udata} s k d.
Arguments clone {compiled params udata} s.
Arguments scanner_new {compiled params udata} c default_params syms.
Arguments LDefine {params udata} name v.
Arguments LSetParams {params udata} p.
Arguments LSetData {params udata} k d.
Arguments apply_lop {compiled params udata} s o.
Arguments apply_l {compiled params udata} s o.
Arguments OClone {params udata input} from.
Arguments OLocal {params udata input} c o.
Arguments OScan {params udata input} c inp.
Arguments OutNone {result}.
Arguments OutCloned {result} id.
Arguments OutLocal {result} r.
Arguments OutScan {result} r.
Arguments step {compiled params udata input result} scan f o.
Arguments run {compiled params udata input result} scan f h.
Arguments outputs {compiled params udata input result} scan f h.
Arguments trace {compiled params udata input result} scan f h.
Arguments own_ops {params udata input} c h.
Arguments nfam_r {params udata input} hr.
Arguments lineage_r {params udata input} hr c.
Arguments nfam {params udata input} h.
Arguments lineage {params udata input} h c.
Arguments spec_clone {compiled params udata input} s0 h c.
Arguments spec_fam {compiled params udata input} s0 h.
Arguments wf_scanner {compiled params udata} s.
