(* Model/ScannerCase.v — correspondence terms for C05 / C06 / C15 (rule sets, options, interruptions). *)
From Boreal Require Import Base.Prelude Base.Res Model.Eval Spec.CondSem Model.EvalCost Model.Scanner
     Spec.RuleSetSpec.

Definition is_panic (o : outcome) : bool := match o_err o with Some EPanic => true | _ => false end.

Definition outcome_eqb (check_count : bool) (a b : outcome) : bool :=
  if is_panic a || is_panic b then is_panic a && is_panic b   (* nothing else is observable after a panic *)
  else
  opt_eqb err_eqb (o_err a) (o_err b)
  && list_eqb erule_eqb (o_rules a) (o_rules b)
  && list_eqb event_eqb (o_events a) (o_events b)
  && (negb check_count || (o_checks a =? o_checks b)).

Definition mk_outcome (e : option err) (rules : list (N * bool)) (events : list event) (checks : N) : outcome :=
  {| o_err := e;
     o_rules := map (fun p => {| er_id := fst p; er_ns := 0; er_matched := snd p |}) rules;
     o_events := events; o_checks := checks |}.

(* C05: uninterrupted scan against the model and against the declarative rule-set semantics *)
Definition C05_case (c : cfg) (sc : scanner) (inp : inputs) (impl : outcome) : bool * bool * N :=
  (outcome_eqb false impl (run_scan c Never inp sc),
   match o_err impl with
   | None => if c_cb c then list_eqb event_eqb
                                (filter (fun e => match e with EvMatch _ | EvNoMatch _ => true | _ => false end)
                                        (o_events impl))
                                (spec_events c sc inp)
             else list_eqb erule_eqb (o_rules impl) (spec_reported sc inp (c_nm c))
   | Some _ => false
   end,
   if kf_global_refs_ordinary sc then 1 else 0).

(* C06: several configurations; each observed outcome must equal the model's for that configuration
   (correspondence), and the matched rules must be those of the declarative semantics whatever the
   configuration (spec).  `skipped`: for the configurations that report statistics, whether the string
   scan was skipped (no memory chunk scanned), which the model predicts from the no-scan pass. *)
Definition matched_ids (o : outcome) : list N :=
  map er_id (filter er_matched (o_rules o))
  ++ flat_map (fun e => match e with EvMatch i => [i] | _ => [] end) (o_events o).

Definition noscan_decides (c : cfg) (sc : scanner) (inp : inputs) : bool :=
  if can_noscan c then
    match snd (eval_without_matches c Never inp sc {| pend := []; evs := []; nchecks := 0 |}) with
    | inl NSDone => true
    | _ => false
    end
  else false.

Definition C06_case (sc : scanner) (inp : inputs) (runs : list (cfg * outcome * option bool)) : bool * bool * N :=
  let spec_ids := map er_id (spec_reported sc inp false) in
  (forallb (fun r => let '(c, o, sk) := r in
                     outcome_eqb false o (run_scan c Never inp sc)
                     && match sk with Some b => Bool.eqb b (noscan_decides c sc inp) | None => true end) runs,
   forallb (fun r => let '(c, o, _) := r in
                     match o_err o with None => list_eqb N.eqb (matched_ids o) spec_ids | Some _ => false end) runs,
   if kf_global_refs_ordinary sc then 1 else 0).

(* C15: an interrupted run against the model (corr) and against the uninterrupted run of the
   implementation itself (spec: same error kind, delivered events / returned matched rules form a
   prefix of the uninterrupted ones, nothing spurious). *)
Fixpoint is_prefix_by {A} (eqb : A -> A -> bool) (p l : list A) : bool :=
  match p, l with
  | [], _ => true
  | x :: p', y :: l' => eqb x y && is_prefix_by eqb p' l'
  | _ :: _, [] => false
  end.

Definition expected_err (it : intr) : option err :=
  match it with Never => None | AbortAt _ => Some EAbort | TimeoutAt _ => Some ETimeout end.

(* known-finding class C15-timeout-unvalidated-globals: the timeout fires while global rules are
   being evaluated (after at least one of them matched): already matched global rules are reported
   although a later global rule may invalidate them *)
Definition kf_timeout_in_globals (c : cfg) (it : intr) (sc : scanner) (inp : inputs) : bool :=
  match it with
  | TimeoutAt j =>
      (* the timeout lands inside the evaluation of the global rules of one of the two passes *)
      let s0 := {| pend := []; evs := []; nchecks := 0 |} in
      let in_globals (m : option (list (list smatch))) (start : N) :=
        let '(s, _) := eval_globals c Never inp (ctx0 sc m) (s_globals sc) false
                         {| pend := []; evs := []; nchecks := start |} in
        (start <? j) && (j <=? nchecks s) in
      let pass1 := if can_noscan c then in_globals None 0 else false in
      let '(s1, r1) := (if can_noscan c then eval_without_matches c Never inp sc s0 else (s0, inl NSUndecidable)) in
      let start2 := (if can_noscan c then nchecks s1 else 0) + i_ac_checks inp in
      pass1 || (match r1 with inl NSUndecidable => in_globals (Some (i_matches inp)) start2 | _ => false end)
  | _ => false
  end.

(* known-finding class C15-noscan-timeout-flush-order: the evaluation pass before the string scan is
   allowed and the timeout fires during that pass: the rules it had decided are flushed to the callback,
   although the complete scan (which goes on to scan for strings) delivers the events of the string scan
   first — StringReachedMatchLimit events, and for fragmented memory the ModuleImport events *)
Definition kf_noscan_timeout_flush_order (c : cfg) (it : intr) (sc : scanner) (inp : inputs) : bool :=
  match it with
  | TimeoutAt j =>
      can_noscan c && c_cb c
      && ((c_ev_limit c && existsb (fun l => negb (is_nil l)) (i_ac inp))
          || (negb (c_direct c) && c_ev_import c && negb (is_nil (i_imports inp))))
      && (j <=? nchecks (fst (eval_without_matches c Never inp sc {| pend := []; evs := []; nchecks := 0 |})))
  | _ => false
  end.

Definition C15_case (c : cfg) (it : intr) (sc : scanner) (inp : inputs) (full impl : outcome) (next_ok : bool)
  : bool * bool * N :=
  (outcome_eqb true impl (run_scan c it inp sc) && outcome_eqb true full (run_scan c Never inp sc),
   (* the interruption happened iff its point exists; then same error kind; prefix; no spurious match *)
   match o_err impl with
   | None =>
       (* no interruption: only legitimate when the complete scan has no such point *)
       outcome_eqb false impl full
       && match it with
          | AbortAt k => nlen (o_events full) <? k
          | TimeoutAt j => o_checks full <? j
          | Never => true
          end
   | Some e => opt_eqb err_eqb (Some e) (expected_err it)
   end
   && is_prefix_by event_eqb (o_events impl) (o_events full)
   && forallb (fun r => negb (er_matched r) || existsb (fun r' => (er_id r' =? er_id r) && er_matched r') (o_rules full))
              (o_rules impl)
   && is_prefix_by N.eqb (map er_id (filter er_matched (o_rules impl))) (map er_id (filter er_matched (o_rules full)))
   && next_ok,
   if kf_global_refs_ordinary sc then 1 else if kf_timeout_in_globals c it sc inp then 2
   else if kf_noscan_timeout_flush_order c it sc inp then 3 else 0).
