(* Model/Literals.v — text-string declarations and `Matcher::new_bytes` (boreal/src/matcher/mod.rs),
   `compile_variable`'s ascii default (boreal/src/compiler/variable.rs).  Definitions only. *)
From Boreal Require Import Base.Prelude Base.ListX Base.Bytes Model.Base64.

(* VariableModifierBase64 *)
Record b64mod := { b_ascii : bool; b_wide : bool; b_alpha : option bytes }.

(* a text string declaration as the parser delivers it (VariableDeclarationValue::Bytes + VariableModifiers);
   `private` only affects reporting and is kept apart (Model/AcScan.v does not see it) *)
Record tdecl := {
  t_text : bytes;
  t_ascii : bool; t_wide : bool; t_nocase : bool; t_fullword : bool;
  t_xor : option (N * N);
  t_b64 : option b64mod }.

(* matcher::Modifiers *)
Record mods := { m_fullword : bool; m_wide : bool; m_ascii : bool; m_nocase : bool; m_xor_start : option N }.

(* compile_variable: `if !modifiers.wide { modifiers.ascii = true }` *)
Definition c_ascii (d : tdecl) : bool := if t_wide d then t_ascii d else true.

(* string_to_wide *)
Definition string_to_wide (s : bytes) : bytes := flat_map (fun b => [b; 0]) s.

(* xor_details.0 ..= xor_details.1 *)
Definition key_range (lo hi : N) : list N := iota lo (hi + 1 - lo).

Definition base_literals (d : tdecl) : list bytes :=
  if t_wide d then
    if c_ascii d then [t_text d; string_to_wide (t_text d)] else [string_to_wide (t_text d)]
  else [t_text d].

Definition b64_literals (b : b64mod) (lits : list bytes) : list bytes :=
  if b_ascii b then
    flat_map (fun lit => flat_map (fun off =>
        match encode_base64 lit (b_alpha b) off with
        | Some e => (if b_wide b then [string_to_wide e] else []) ++ [e]
        | None => []
        end) [0; 1; 2]) lits
  else
    flat_map (fun lit => flat_map (fun off =>
        match encode_base64 lit (b_alpha b) off with
        | Some e => [string_to_wide e]
        | None => []
        end) [0; 1; 2]) lits.

(* Matcher::new_bytes: the literals *)
Definition new_bytes_literals (d : tdecl) : list bytes :=
  let lits := base_literals d in
  match t_xor d with
  | Some (lo, hi) => flat_map (fun lit => map (fun k => xor_bytes k lit) (key_range lo hi)) lits
  | None =>
      match t_b64 d with
      | Some b => b64_literals b lits
      | None => lits
      end
  end.

(* Matcher::new_bytes: the modifiers *)
Definition new_bytes_mods (d : tdecl) : mods :=
  {| m_fullword := t_fullword d; m_wide := t_wide d; m_ascii := c_ascii d; m_nocase := t_nocase d;
     m_xor_start := match t_xor d with Some (lo, _) => Some lo | None => None end |}.

(* the parser's legality rules (boreal-parser/src/rule.rs validate_modifiers, xor_modifier, base64_modifier)
   plus compile_variable's "variable is empty" error *)
Definition wf_decl (d : tdecl) : bool :=
  negb (match t_text d with [] => true | _ => false end)
  && bytes_ok (t_text d)
  && match t_xor d with
     | Some (lo, hi) => (lo <=? hi) && (hi <? 256) && negb (t_nocase d)
                        && match t_b64 d with Some _ => false | None => true end
     | None => true
     end
  && match t_b64 d with
     | Some b => negb (t_nocase d) && negb (t_fullword d) && (b_ascii b || b_wide b)
                 && match b_alpha b with Some a => (nlen a =? 64) && bytes_ok a | None => true end
     | None => true
     end.
