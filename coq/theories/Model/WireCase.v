(* Model/WireCase.v — evaluation of one C10 case: the bytes produced by the real `Scanner::to_bytes` are
   decoded with the generic `decode` under the *translated* read schemas, re-encoded under the translated
   write schemas, and what the decoded value says about the rule listing and the scan parameters is compared
   with what the real scanner reports.  Definitions only. *)
From Boreal Require Import Base.Prelude Model.Wire Model.WireSchemas.
From Coq Require Import String.

Definition scanner_ref : schema := SRef "Scanner"%string.

(* Scanner::to_bytes: header (magic, kind, version) then the Scanner value *)
Definition to_bytes_model (v : value) : option bytes :=
  match encode write_env v scanner_ref with
  | Some b => Some (wire_magic_write ++ scanner_kind_write ++ le 4 wire_version ++ b)
  | None => None
  end.

Fixpoint strip_prefix (p bs : bytes) : option bytes :=
  match p with
  | [] => Some bs
  | x :: p' => match bs with
               | y :: bs' => if x =? y then strip_prefix p' bs' else None
               | [] => None
               end
  end.

(* Scanner::from_bytes_unchecked: header checks, then the Scanner value; trailing bytes are not looked at *)
Definition from_bytes_model (fuel : nat) (bs : bytes) : option (value * bytes) :=
  match strip_prefix wire_magic_read bs with
  | Some b1 =>
      match strip_prefix scanner_kind_read b1 with
      | Some b2 =>
          match get_le 4 b2 with
          | Some (ver, b3) => if ver =? wire_version then decode read_env fuel scanner_ref b3 else None
          | None => None
          end
      | None => None
      end
  | None => None
  end.

(* ---------------------------------------------------------------- what the decoded value says *)
Definition vseq (v : value) : list value := match v with VSeq l => l | _ => [] end.
Definition vbytes (v : value) : bytes := match v with VS l => l | _ => [] end.
Definition vnum (v : value) : N := match v with VN n => n | _ => 0 end.
Definition vbool (v : value) : bool := match v with VB b => b | _ => false end.
Definition oget (o : option value) : value := match o with Some v => v | None => VSeq [] end.

Definition slice (buf : bytes) (from to : N) : bytes :=
  firstn (N.to_nat (to - from)) (skipn (N.to_nat from) buf).

Definition symbol (buf : bytes) (sym : value) : bytes :=
  slice buf (vnum (oget (field "from"%string sym))) (vnum (oget (field "to"%string sym))).

(* one line of `Scanner::rules()`: namespace, name, is_global, is_private, tags *)
Definition listing_entry := (bytes * bytes * bool * bool * list bytes)%type.

Definition rule_entry (namespaces : list value) (buf : bytes) (is_global : bool) (r : value) : listing_entry :=
  (vbytes (nth (N.to_nat (vnum (oget (field "namespace_index"%string r)))) namespaces (VS [])),
   vbytes (oget (field "name"%string r)),
   is_global,
   vbool (oget (field "is_private"%string r)),
   map (symbol buf) (vseq (oget (field "tags"%string r)))).

Definition listing_of (scanner : value) : list listing_entry :=
  let inner := oget (field "inner"%string scanner) in
  let nss := vseq (oget (field "namespaces"%string inner)) in
  let buf := vbytes (oget (path ["bytes_pool"%string; "buffer"%string] inner)) in
  (map (rule_entry nss buf true) (vseq (oget (field "global_rules"%string inner)))
   ++ map (rule_entry nss buf false) (vseq (oget (field "rules"%string inner)))).

Definition entry_eqb (a b : listing_entry) : bool :=
  match a, b with
  | (ns, nm, g, p, tg), (ns', nm', g', p', tg') =>
      bytes_eqb ns ns' && bytes_eqb nm nm' && Bool.eqb g g' && Bool.eqb p p' && list_eqb bytes_eqb tg tg'
  end.

(* scan parameters the harness set before saving: compute_full_matches, match_max_length,
   string_max_nb_matches, include_not_matched_rules *)
Definition params_of (scanner : value) : bool * N * N * bool :=
  let p := oget (field "scan_params"%string scanner) in
  (vbool (oget (field "compute_full_matches"%string p)), vnum (oget (field "match_max_length"%string p)),
   vnum (oget (field "string_max_nb_matches"%string p)), vbool (oget (field "include_not_matched_rules"%string p))).

Definition params_eqb (a b : bool * N * N * bool) : bool :=
  match a, b with
  | (c, m, s, i), (c', m', s', i') => Bool.eqb c c' && (m =? m') && (s =? s') && Bool.eqb i i'
  end.

Definition case_fuel : nat := 400.

(* file: bytes written by the real to_bytes.  listing/params/nvars: reported by the real (original) scanner.
   impl_same: the harness found the reloaded scanner indistinguishable from the original (byte identity of
   the second save, listing, every scan).
   corr_ok: the real byte stream is exactly what the model's codec accepts and produces, and carries the
   listing and the parameters the real scanner reports. *)
Definition C10_case (file : bytes) (listing : list listing_entry) (prm : bool * N * N * bool) (nvars : N)
           (impl_same : bool) : bool * bool * N :=
  let corr :=
    match from_bytes_model case_fuel file with
    | Some (v, rest) =>
        match rest with [] => true | _ => false end
        && match to_bytes_model v with Some b => bytes_eqb b file | None => false end
        && list_eqb entry_eqb (listing_of v) listing
        && params_eqb (params_of v) prm
        && (nlen (vseq (oget (path ["inner"%string; "variables"%string] v))) =? nvars)
    | None => false
    end in
  (corr, impl_same, 0).

(* small wire types reached through the hook-free route: a value written by `T::serialize` alone *)
Definition C10_small (ty : string) (bs : bytes) : bool * bool * N :=
  let ok := match decode read_env case_fuel (SRef ty) bs with
            | Some (v, []) => match encode write_env v (SRef ty) with
                              | Some b => bytes_eqb b bs
                              | None => false
                              end
            | _ => false
            end in
  (ok, ok, 0).

(* ---------------------------------------------------------------- rebuilt automata (layer 3, interpreted)
   A lazy DFA that is recompiled on load is identified with what build_dfa is given: the two expressions, the
   two syntax flags taken from the stored Modifiers, and the direction (which selects MatchKind::All + a reverse
   NFA, or LeftmostFirst + a forward NFA).  The direction is not stored: it comes from literals in the code,
   read here from a site table (build_sites for Validator::new, rebuild_sites for deserialize_validator).
   An argument "true"/"false" is a literal, anything else (the parameter `reverse`) is passed through. *)
Definition dfa_automaton := (bytes * bytes * bool * bool * bool)%type.   (* expr1, expr2, nocase, dot_all, reverse *)

Definition site_param (sites : list site) (s p : string) : string :=
  match find (fun x => String.eqb (site_name x) s) sites with
  | Some x => match lookup p (site_params x) with Some a => a | None => EmptyString end
  | None => EmptyString
  end.

Definition arg_bool (a : string) (inherited : bool) : bool :=
  if String.eqb a "true"%string then true else if String.eqb a "false"%string then false else inherited.

Definition dfa_of (sites : list site) (m d : value) (rev : bool) : dfa_automaton :=
  (vbytes (oget (field "exprs[0]"%string d)), vbytes (oget (field "exprs[1]"%string d)),
   vbool (oget (field "nocase"%string m)),
   vbool (oget (field "dot_all"%string m)),
   arg_bool (site_param sites "DfaValidator/dfa"%string "reverse"%string) rev).

Definition half_automata (sites : list site) (m h : value) (rev : bool) : list dfa_automaton :=
  match h with
  | VCtor c (VRec [(_, d)]) =>
      if String.eqb c "Dfa"%string
      then [dfa_of sites m d (arg_bool (site_param sites "HalfValidator/Dfa"%string "reverse"%string) rev)]
      else []
  | _ => []
  end.

Definition opt_half (sites : list site) (m o : value) (site : string) : list dfa_automaton :=
  match o with
  | VOpt (Some h) => half_automata sites m h (arg_bool (site_param sites site "reverse"%string) false)
  | _ => []
  end.

(* m: the Modifiers value of the matcher, v: its Validator value *)
Definition validator_automata (sites : list site) (m v : value) : list dfa_automaton :=
  match v with
  | VCtor c (VRec [(_, x); (_, y)]) =>
      if String.eqb c "NonGreedy"%string then
        (opt_half sites m x "Validator/Half.forward"%string ++ opt_half sites m y "Validator/Half.reverse"%string)%list
      else if String.eqb c "Greedy"%string then
        [dfa_of sites m x (arg_bool (site_param sites "Validator/Dfa.reverse"%string "reverse"%string) false);
         dfa_of sites m y (arg_bool (site_param sites "Validator/Dfa.full"%string "reverse"%string) false)]
      else []
  | _ => []
  end.

(* witness of finding 9.9: the validator of /a.+foo.b/ (atom "foo"): reverse part a.+foo, full expression *)
Definition greedy_witness_modifiers : value :=
  VRec [("fullword"%string, VB false); ("wide"%string, VB false); ("ascii"%string, VB true);
        ("nocase"%string, VB false); ("dot_all"%string, VB false); ("xor_start"%string, VOpt None)].
Definition greedy_witness : value :=
  VCtor "Greedy"%string
    (VRec [("reverse"%string, VRec [("exprs[0]"%string, VS [97; 46; 43]); ("exprs[1]"%string, VS []);
                                    ("use_custom_wide_runner"%string, VB false)]);
           ("full"%string, VRec [("exprs[0]"%string, VS [97; 46; 43; 102; 111; 111; 46; 98]); ("exprs[1]"%string, VS []);
                                 ("use_custom_wide_runner"%string, VB false)])]).

(* ---------------------------------------------------------------- finding: NaN float external symbols
   borsh refuses to write a NaN f64, so `Scanner::to_bytes` fails (also into a Vec) for a scanner holding a NaN
   external symbol value.  bits: the IEEE bit pattern of the symbol's value; impl_refused: to_bytes returned Err.
   corr: the model's encode refuses exactly when the implementation does; spec: the scanner can be saved;
   class 1: the value is a NaN. *)
Definition quiet_nan_bits : N := 9221120237041090560.   (* 0x7FF8_0000_0000_0000 = f64::NAN *)

Definition float_symbol (bits : N) : value := VCtor "Float"%string (VRec [("0"%string, VN bits)]).

Definition C10_unsaveable (bits : N) (impl_refused : bool) : bool * bool * N :=
  let model_refused := match encode write_env (float_symbol bits) (SRef "ExternalValue"%string) with
                       | None => true
                       | Some _ => false
                       end in
  (Bool.eqb model_refused impl_refused, negb impl_refused, if is_nan bits then 1 else 0).

(* ---------------------------------------------------------------- module table on reload
   DeserializeParams holds name ↦ module.  `default()` fills it with the built-in modules, every `add_module`
   call is a HashMap::insert (the later one wins, also over a built-in of the same name: "If the same module has
   already been added, it will be replaced by this one"), and deserialize_modules resolves each saved module
   name in that table (unknown name = error).  An implementation is identified by a number: 0 = built-in,
   n > 0 = the n-th module supplied by the user. *)
Definition mod_table := list (bytes * N).

Fixpoint mod_lookup (n : bytes) (t : mod_table) : option N :=
  match t with
  | [] => None
  | (m, i) :: r => if bytes_eqb n m then Some i else mod_lookup n r
  end.

Definition default_params (builtins : list bytes) : mod_table := map (fun n => (n, 0)) builtins.

(* the table after default() and the user's add_module calls in order: each insert shadows what was there *)
Definition deserialize_params (builtins : list bytes) (user : list (bytes * N)) : mod_table :=
  (rev user ++ default_params builtins)%list.

Fixpoint resolve_modules (t : mod_table) (names : list bytes) : option (list N) :=
  match names with
  | [] => Some []
  | n :: r => match mod_lookup n t, resolve_modules t r with
              | Some i, Some l => Some (i :: l)
              | _, _ => None
              end
  end.

(* file … same: as C10_case.  builtins: names of the built-in modules; user: the modules given to add_module on
   reload (name, id > 0); observed: for each of them, whether the reloaded scanner behaves as the user's
   implementation (its probe rule matched).  The saved module names are read off the decoded file. *)
Definition C10_case_mods (file : bytes) (listing : list listing_entry) (prm : bool * N * N * bool) (nvars : N)
           (impl_same : bool) (builtins : list bytes) (user : list (bytes * N)) (observed : list (bytes * bool))
  : bool * bool * N :=
  match C10_case file listing prm nvars impl_same with
  | (c1, s1, k) =>
      let table := deserialize_params builtins user in
      let names := match from_bytes_model case_fuel file with
                   | Some (v, _) => map vbytes (vseq (oget (path ["inner"%string; "modules"%string] v)))
                   | None => []
                   end in
      let c2 := match resolve_modules table names with Some _ => true | None => false end
                && forallb (fun o => match mod_lookup (fst o) table with
                                     | Some i => Bool.eqb (snd o) (0 <? i)
                                     | None => false
                                     end) observed in
      let s2 := forallb (fun o => snd o) observed in
      (c1 && c2, s1 && s2, k)
  end.
