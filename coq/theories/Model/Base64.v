(* Model/Base64.v — boreal/src/matcher/base64.rs `encode_base64`, statement for statement.
   Definitions only. *)
From Boreal Require Import Base.Prelude Base.ListX Base.Bytes Base.Consts.

(* alphabet[(v >> s) & 0x3F] *)
Definition b64_char (alphabet : bytes) (v s : N) : N :=
  nnth 0 (N.land (N.shiftr v s) 63) alphabet.

(* the `chunks_exact(3)` loop followed by the `remainder()` match *)
Fixpoint b64_chunks (alphabet : bytes) (s : bytes) : bytes :=
  match s with
  | c0 :: c1 :: c2 :: rest =>
      let v := N.lor (N.lor (N.shiftl c0 16) (N.shiftl c1 8)) c2 in
      b64_char alphabet v 18 :: b64_char alphabet v 12 :: b64_char alphabet v 6 :: b64_char alphabet v 0
        :: b64_chunks alphabet rest
  | [a] => [nnth 0 (N.land (N.shiftr a 2) 63) alphabet]
  | [a; b] =>
      let v := N.lor (N.shiftl a 8) b in
      [b64_char alphabet v 10; b64_char alphabet v 4]
  | [] => []
  end.

Definition encode_base64 (s : bytes) (alphabet : option bytes) (offset : N) : option bytes :=
  let alphabet := match alphabet with Some a => a | None => BASE64_DEFAULT_ALPHABET end in
  match offset mod 3 with
  | 1 =>
      match s with
      | s0 :: s1 :: rest =>
          let v := N.lor (N.shiftl s0 8) s1 in
          Some (b64_char alphabet v 6 :: b64_char alphabet v 0 :: b64_chunks alphabet rest)
      | _ => None
      end
  | 2 =>
      match s with
      | s0 :: rest => Some (nnth 0 (N.land s0 63) alphabet :: b64_chunks alphabet rest)
      | [] => None
      end
  | _ => Some (b64_chunks alphabet s)
  end.
