(* Model/ConformCase.v — the case term of C07 (drop-in conformance with YARA 4.5.5).

   libyara cannot be modelled here: it is run (harness_yara) and its observations are an *input* of
   the term, next to boreal's observations on the same rule file and inputs.  The term computes

     spec_agrees   : what libyara reported is what the Gallina specifications predict
                     (Spec/TextSpec.v, Spec/Regex.v through the lowering of Model/Hir.v, Spec/CondSem.v,
                     Spec/RuleSetSpec.v) — the link "spec = libyara", validated per generated program;
     boreal_agrees : boreal accepted the file and reported the same rules, the same offsets per string
                     and the same lengths wherever the specification admits a single length at that
                     offset — the property itself, with libyara as the executable specification;
     class         : a decidable predicate on the rule file: documented deviation (1..4) or recorded
                     finding (>= 10) that explains a disagreement, 0 otherwise.

   Order of the result triple (what vlib/runner.py calls corr_ok, spec_ok, kf): (spec_agrees,
   boreal_agrees, class): a boreal / libyara disagreement outside every class is reported as a
   violation with the case as replay; a specification / libyara disagreement with boreal = libyara
   breaks the tie (the chain C01-C05 then proves boreal correct against a specification that is not
   libyara's) and is reported as such.  Definitions only. *)
From Boreal Require Import Base.Prelude Base.ListX Base.Bytes Base.Res Model.Literals Spec.TextSpec Spec.Regex
  Model.Hir Model.Eval Spec.CondSem Model.EvalCost Model.Scanner Spec.RuleSetSpec.

Open Scope bool_scope.

(* ------------------------------------------------------------------ rule files *)
Record xmods := { x_nocase : bool; x_wide : bool; x_ascii : bool; x_fullword : bool }.

Inductive sdecl :=
| SText (d : tdecl)
| SHex (toks : list token)
| SRegex (n : node) (ci da : bool) (md : xmods).

Record crule := {
  c_ns : nat;
  c_id : N;
  c_global : bool;
  c_private : bool;
  c_strings : list sdecl;
  c_nlits : list N;             (* per string, the number of literals boreal's Aho-Corasick pass searches for it
                                   (read through the hook Scanner::verif_describe_strings; 0 when unknown) *)
  c_glue : list bool;           (* per string (hook): compiled with a reverse validator and literals of unequal lengths *)
  c_cond : option expr          (* None: a condition outside the modelled dialect (module probe) *)
}.

(* what one engine reported for one rule on one input: None = not reported (private rule);
   per string (declaration order) the list of (offset, length) *)
Definition obs := option (bool * list (list (N * N))).

(* ------------------------------------------------------------------ strings: member lengths by the specification *)
Definition pos_len (l : N) : bool := 0 <? l.

Definition text_lens (d : tdecl) (m : bytes) (o : N) : list N :=
  map (fun e => nlen (e_bytes e)) (filter (TextSpec.occ d m o) (enc_set d)).

Definition hex_flags : rflags := {| nocase := false; dot_all := true; wide := false |}.

Definition hex_lens (toks : list token) (m : bytes) (o : N) : list N :=
  filter pos_len (Lens hex_flags m (hir_of_tokens toks) o).

(* a regex string: the plain reading when ascii (the default without wide), the wide reading when
   wide; under fullword only the delimited members count (Spec/TextSpec.delimited) *)
Definition regex_lens (n : node) (ci da : bool) (md : xmods) (m : bytes) (o : N) : list N :=
  let h := node_to_hir n in
  let nc := ci || x_nocase md in
  let fw (w : bool) (l : N) := pos_len l && (negb (x_fullword md) || TextSpec.delimited w m o l) in
  (if x_ascii md || negb (x_wide md)
   then filter (fw false) (Lens {| nocase := nc; dot_all := da; wide := false |} m h o) else [])
  ++ (if x_wide md
      then filter (fw true) (Lens {| nocase := nc; dot_all := da; wide := true |} m h o) else []).

Definition spec_lens (s : sdecl) (m : bytes) (o : N) : list N :=
  match s with
  | SText d => text_lens d m o
  | SHex toks => hex_lens toks m o
  | SRegex n ci da md => regex_lens n ci da md m o
  end.

Definition spec_offsets_of (s : sdecl) (m : bytes) : list N :=
  filter (fun o => nonempty (spec_lens s m o)) (ListX.iota 0 (nlen m)).

(* the specification admits a single length at o *)
Definition uniq_len (s : sdecl) (m : bytes) (o : N) : bool :=
  match spec_lens s m o with [] => true | l :: r => forallb (N.eqb l) r end.

(* ---- recorded finding 12 (C03-fullword-single-length seen from libyara's side): a regex with
   `fullword` whose members at some offset of the input do not all have the same length.  Each
   engine applies the delimiter test to the one length it prefers at a start (libyara: the longest
   from the atom when some quantifier is greedy, else the shortest; boreal: the leftmost-first one)
   and drops the start when that length is not delimited; the specification keeps a start when
   some member length is delimited.  The three differ only inside this class. *)
Definition all_same (l : list N) : bool := match l with [] => true | x :: r => forallb (N.eqb x) r end.

Definition fullword_ambiguous (s : sdecl) (m : bytes) : bool :=
  match s with
  | SRegex n ci da md =>
      x_fullword md &&
      let nofw := {| x_nocase := x_nocase md; x_wide := x_wide md; x_ascii := x_ascii md; x_fullword := false |} in
      existsb (fun o => negb (all_same (regex_lens n ci da nofw m o))) (ListX.iota 0 (nlen m))
  | _ => false
  end.

(* reported list conforms to the specification: the offsets are exactly the offsets with a member,
   ascending, one per offset; every length is a member length at its offset *)
Definition string_spec_ok (s : sdecl) (m : bytes) (out : list (N * N)) : bool :=
  list_eqb N.eqb (map fst out) (spec_offsets_of s m)
  && forallb (fun ol => mem_N (snd ol) (spec_lens s m (fst ol))) out.

Fixpoint forallb2 {A B} (f : A -> B -> bool) (l : list A) (l' : list B) : bool :=
  match l, l' with
  | [], [] => true
  | a :: r, b :: r' => f a b && forallb2 f r r'
  | _, _ => false
  end.

(* two engines agree on a string: same offsets; same length where the length is unique *)
Definition string_agree (s : sdecl) (m : bytes) (y b : list (N * N)) : bool :=
  forallb2 (fun yo bo => (fst yo =? fst bo) && (negb (uniq_len s m (fst yo)) || (snd yo =? snd bo))) y b.

(* matches the specification predicts (used for the strings of rules that are not reported) *)
Definition spec_matches (s : sdecl) (m : bytes) : list (N * N) :=
  map (fun o => (o, hd 0 (spec_lens s m o))) (spec_offsets_of s m).

(* ------------------------------------------------------------------ traversal of conditions *)
Fixpoint esub (p : expr -> bool) (e : expr) {struct e} : bool :=
  p e ||
  match e with
  | EReadInt _ a | EUn _ a | EDefined a | EOffset _ a | ELength _ a | EVarAt _ a => esub p a
  | ECountIn _ a b | EVarIn _ a b | EBin _ a b => esub p a || esub p b
  | EAnd l | EOr l => existsb (esub p) l
  | EFor _ se _ body => esub p se || esub p body
  | EForRange _ se f t body => esub p se || esub p f || esub p t || esub p body
  | EForList _ se elems body => esub p se || existsb (esub p) elems || esub p body
  | EForRules _ se _ _ => esub p se
  | _ => false
  end.

(* ---- documented deviation 1: arithmetic overflow.  Interval analysis with unbounded integers: a
   bound on |value| of every integer sub-expression; the file is in the class when some bound
   reaches 2^63 (inputs are shorter than 2^16 bytes). *)
Definition I63 : Z := (2 ^ 63)%Z.
Definition MEMB : Z := (2 ^ 16)%Z.
Definition capf (b : Z) (f : bool) : Z * bool := if (I63 <=? b)%Z then (I63, true) else (b, f).
Definition pow2_above (n : Z) : Z := (2 ^ (Z.log2 (Z.max n 1) + 2))%Z.

Fixpoint ob (st : list Z) (e : expr) {struct e} : Z * bool :=
  match e with
  | EInt z => capf (Z.abs z) false
  | EBytes _ | EBool _ | ERule _ | EVar _ => (1%Z, false)
  | EExt _ | EDouble _ => (I63, true)
  | EFilesize | ECount _ => (MEMB, false)
  | EBound i => capf (nth i st I63) false
  | EReadInt _ a => ((2 ^ 32)%Z, snd (ob st a))
  | ECountIn _ a b => (MEMB, snd (ob st a) || snd (ob st b))
  | EOffset _ a | ELength _ a => (MEMB, snd (ob st a))
  | EVarAt _ a => (1%Z, snd (ob st a))
  | EVarIn _ a b => (1%Z, snd (ob st a) || snd (ob st b))
  | EUn o a =>
      let (x, f) := ob st a in
      match o with UBnot => capf (x + 1)%Z f | UNeg => (x, f) | UNot | UMatches _ _ _ => (1%Z, f) end
  | EBin o l r =>
      let (a, fa) := ob st l in
      let (c, fc) := ob st r in
      let f := fa || fc in
      match o with
      | OAdd | OSub => capf (a + c)%Z f
      | OMul => capf (a * c)%Z f
      | ODiv | OMod | OShr => (a, f)
      | OShl => capf (a * 2 ^ (Z.min c 64))%Z f
      | OXor | OBand | OBor => capf (pow2_above (Z.max a c)) f
      | _ => (1%Z, f)
      end
  | EAnd l | EOr l => (1%Z, existsb (fun x => snd (ob st x)) l)
  | EDefined a => (1%Z, snd (ob st a))
  | EFor _ se _ body => (1%Z, snd (ob st se) || snd (ob st body))
  | EForRange _ se f t body =>
      let (lo, f1) := ob st f in
      let (hi, f2) := ob st t in
      (1%Z, snd (ob st se) || f1 || f2 || snd (ob (st ++ [(Z.max lo hi + 1)%Z]) body))
  | EForList _ se elems body =>
      let m := fold_right Z.max 0%Z (map (fun x => fst (ob st x)) elems) in
      (1%Z, snd (ob st se) || existsb (fun x => snd (ob st x)) elems || snd (ob (st ++ [m]) body))
  | EForRules _ se _ _ => (1%Z, snd (ob st se))
  end.

Definition may_overflow (e : expr) : bool := snd (ob [] e).

(* ---- documented deviation 4 (of the oracle): `contains` with an empty right operand.  libyara
   answers through memmem; the vendored build uses libyara's own fallback, which answers "not
   found" for an empty needle, where the C library's memmem (autotools builds on Linux) answers
   "found" — as boreal does.  Not comparable. *)
Definition contains_empty (e : expr) : bool :=
  esub (fun x => match x with EBin (OContains false) _ (EBytes []) => true | _ => false end) e.

(* ---- recorded finding 14: an element of a `for .. in (list)` enumeration that is undefined.
   libyara runs the body with the identifier undefined; boreal makes the whole `for` undefined.
   Class: some enumeration has an element that is not defined-whatever-the-input. *)
Fixpoint never_undef (e : expr) : bool :=
  match e with
  | EInt _ | EFilesize | ECount (Some _) => true
  | EUn UNeg a | EUn UBnot a => never_undef a
  | EBin o a b =>
      match o with
      | OAdd | OSub | OMul | OXor | OBand | OBor => never_undef a && never_undef b
      | _ => false
      end
  | _ => false
  end.

Definition list_may_undef (e : expr) : bool :=
  esub (fun x => match x with
                 | EForList _ _ elems _ => existsb (fun el => negb (never_undef el)) elems
                 | _ => false
                 end) e.

(* ---- recorded finding 16: a quantifier count (`N of ..`, `for N ..`) that is undefined.  libyara
   encodes `all` as the undefined value, so an undefined count behaves as `all`; boreal makes the
   quantified expression undefined.  Class: some count is not defined-whatever-the-input. *)
Definition is_kexpr (k : selk) : bool := match k with KExpr _ => true | _ => false end.
Definition quant_may_undef (e : expr) : bool :=
  esub (fun x => match x with
                 | EFor k se _ _ | EForRange k se _ _ _ | EForList k se _ _ | EForRules k se _ _ =>
                     is_kexpr k && negb (never_undef se)
                 | _ => false
                 end) e.

(* ---- recorded finding 15: ordering of byte strings with a byte >= 0x80.  libyara compares `char`
   (signed on x86-64: 0xff < 0x41), boreal compares unsigned bytes. *)
Definition is_order (o : binop) : bool := match o with OLt | OLe | OGt | OGe => true | _ => false end.
Definition high_byte_order (e : expr) : bool :=
  esub (fun x => match x with
                 | EBin o (EBytes a) (EBytes b) => is_order o && existsb (fun c => 128 <=? c) (a ++ b)
                 | _ => false
                 end) e.

(* ---- recorded finding 10: a string used only as `$s at K`.  libyara keeps the match at K only
   (STRING_FLAGS_FIXED_OFFSET); boreal lists every match.  Class, per string: every use of the
   string in the condition is an `at`. *)
Definition anon_other (body : expr) : bool :=
  esub (fun x => match x with
                 | ECount None | ECountIn None _ _ | EOffset None _ | ELength None _ | EVar None
                 | EVarIn None _ _ => true
                 | _ => false
                 end) body.
Definition anon_at (body : expr) : bool :=
  esub (fun x => match x with EVarAt None _ => true | _ => false end) body.

Definition is_v (v : nat) (o : option nat) : bool := match o with Some i => Nat.eqb i v | None => false end.

Definition uses_other (v : nat) (e : expr) : bool :=
  esub (fun x => match x with
                 | ECount o | ECountIn o _ _ | EOffset o _ | ELength o _ | EVar o | EVarIn o _ _ => is_v v o
                 | EFor _ _ set body => existsb (Nat.eqb v) set && (anon_other body || negb (anon_at body))
                 | _ => false
                 end) e.
Definition uses_at (v : nat) (e : expr) : bool :=
  esub (fun x => match x with
                 | EVarAt o _ => is_v v o
                 | EFor _ _ set body => existsb (Nat.eqb v) set && anon_at body
                 | _ => false
                 end) e.

Definition fixed_offset_string (cond : option expr) (v : nat) : bool :=
  match cond with
  | Some e => uses_at v e && negb (uses_other v e)
  | None => false
  end.

(* libyara's list for such a string: some of the specification's matches (the test is made on the
   atom hit, before the match is verified: a literal string keeps the match at K only, a regex or
   hex string may keep more) *)
Definition sublist_of (y : list (N * N)) (full : list N) : bool := forallb (fun yo => mem_N (fst yo) full) y.

(* ------------------------------------------------------------------ per rule, per input *)
Definition nth_obs {A} (i : nat) (l : list (list A)) : list A := nth i l [].

(* what the comparison of strings found: specification agrees, boreal agrees, the fixed-offset
   class explained a difference, an ambiguous fullword regex is present, it explained a difference *)
(* q_sp: 0, or the class (11, 19, 20) of a per-string finding that explained a difference on this input
   (such a difference may also change the verdicts of the rules that use the string) *)
(* q_oq: libyara's list for some string of this input is not trusted (documented deviation 5 of the
   oracle, see nested_rep_quirk): the verdicts libyara derives from it are not held against anyone *)
Record sres := { q_spec : bool; q_boreal : bool; q_fix : bool; q_amb : bool; q_amb_used : bool; q_sp : N; q_oq : bool }.
Definition mk_sres (sp bo fx am amu : bool) (st : N) : sres :=
  {| q_spec := sp; q_boreal := bo; q_fix := fx; q_amb := am; q_amb_used := amu; q_sp := st; q_oq := false |}.
Definition sres_ok : sres := mk_sres true true false false false 0.
Definition sres_oq : sres :=
  {| q_spec := true; q_boreal := true; q_fix := false; q_amb := false; q_amb_used := false; q_sp := 0; q_oq := true |}.
Definition sres_and (a b : sres) : sres :=
  {| q_spec := q_spec a && q_spec b; q_boreal := q_boreal a && q_boreal b; q_fix := q_fix a || q_fix b;
     q_amb := q_amb a || q_amb b; q_amb_used := q_amb_used a || q_amb_used b; q_sp := N.max (q_sp a) (q_sp b);
     q_oq := q_oq a || q_oq b |}.

(* ---- finding 17 (C07-empty-class, fixed in /repo by 861b829; the predicate is kept for the record and is
   no longer used by the case term): a regex with a bracketed class that denotes the empty set (`[^\w\W]`,
   `[^\x00-\xff]`, `[^\w\D]`).  Nothing can match it (libyara, Spec/Regex.v); boreal's literal
   extraction drops the class, as if it matched the empty string. *)
Fixpoint hsub (p : hir -> bool) (h : hir) {struct h} : bool :=
  p h ||
  match h with
  | HAlt l | HConcat l => existsb (hsub p) l
  | HGroup x | HRep x _ _ => hsub p x
  | _ => false
  end.
Definition empty_cls (nc : bool) (c : cls) : bool := forallb (fun b => negb (cls_mem nc c b)) (ListX.iota 0 256).
Definition has_empty_class (s : sdecl) : bool :=
  match s with
  | SRegex n ci da md =>
      hsub (fun x => match x with HClass c => empty_cls (ci || x_nocase md) c | _ => false end) (node_to_hir n)
  | _ => false
  end.

Definition K_START_POS : N := 11.
Definition K_EMPTY_CLASS : N := 17.

(* ---- recorded finding 11 (C02/C03-start-position seen from libyara's side): boreal drops a start
   that is found from a later atom hit and is smaller than the last offset already saved
   (`start_position = last.offset + 1`).  The class is recognised by the shape of the disagreement: a
   hex or regex string; boreal reports nothing that libyara does not; every match (o, l) it misses
   has a later start o' that boreal did save.
   * One literal (nlits <= 1): hits come in increasing position, the hit that would give o lies
     inside [o, o + l) and the hit that saved o' is not after it, so o' lies inside the missed match:
     o < o' < o + l is required.
   * Several literals (nlits > 1, e.g. an alternation with a long literal and one-byte branches):
     the validator of one literal can save, early, a start that lies far after the hits of the
     other literals still to come (`/_\b_c11_A xa|\D/` on `__c11_A xa`: the long literal's hit saves
     offset 9 through the `\D` branch before the one-byte hits at 3, 4, 7, 8 are handled), so only
     o < o' can be required.  nlits comes from the implementation (hook), as in C02/C03. *)
Definition is_pattern (s : sdecl) : bool := match s with SText _ => false | _ => true end.
Definition start_position_shape (s : sdecl) (m : bytes) (nlits : N) (y b : list (N * N)) : bool :=
  is_pattern s
  && forallb (fun bo => existsb (fun yo => (fst yo =? fst bo)
                                  && (negb (uniq_len s m (fst yo)) || (snd yo =? snd bo))) y) b
  && forallb (fun yo => existsb (fun bo => fst yo =? fst bo) b
                        || existsb (fun bo => (fst yo <? fst bo)
                                              && ((1 <? nlits) || (fst bo <? fst yo + snd yo))) b) y.

(* ---- recorded finding 19 (C07-alt-glue; C02-alt-glue / C03-alt-glue seen from libyara's side): the
   literals of a hex or regex string come from an alternation whose branches have different lengths
   and the string has a reverse validator; the reverse and the forward validator of one literal hit
   can each follow a different branch (all literals share one pre / post pair), and the assembled
   (start, end) is not a member — and the member that should have been found there is missed.
   `{ ( ( ~D? FF | 00 92 ?? ) 00 63 | 00 ) ~D? }` on `0E FF 00 63 FB`: libyara (and Spec/Regex.v)
   (0,5), (2,2); boreal (2,3).  `/.(x|\S..\b|B1)[^ -%]/ nocase` on `1Ab1_`: libyara (1,4); boreal
   also (2,3).  Class (per string and input), mirroring Model/HexCase.kf_alt_glue with what can be
   observed here: the decomposition has that shape (hook: reverse validator, literals of unequal
   lengths) *and* boreal's list contains a pair that is not a member by the specification. *)
Definition reports_non_member (s : sdecl) (m : bytes) (b : list (N * N)) : bool :=
  existsb (fun bo => negb (mem_N (snd bo) (spec_lens s m (fst bo)))) b.
Definition K_ALT_FIRST : N := 19.

Definition has_word_boundary (s : sdecl) : bool :=
  match s with
  | SRegex n _ _ _ =>
      hsub (fun x => match x with HAssert WordBoundary | HAssert NonWordBoundary => true | _ => false end)
           (node_to_hir n)
  | _ => false
  end.

(* ---- recorded finding 20 (C07-wide-ascii-boundary): a regex that is both `wide` and `ascii` and has a
   word-boundary assertion.  On the path without atoms boreal judges \b / \B of the *wide* reading on
   the neighbouring bytes, not on the neighbouring wide characters: `/\b[a-z].[a-z]\b/s wide ascii` on
   `a\0e\0 \0q\0`: libyara (and Spec/Regex.v): (0,3) only; boreal also (2,6) — `e` is preceded by the
   wide character `a`, there is no boundary.  With `wide` alone boreal is right. *)
Definition wide_ascii_boundary (s : sdecl) : bool :=
  match s with
  | SRegex _ _ _ md => x_wide md && x_ascii md && has_word_boundary s
  | _ => false
  end.
Definition K_WIDE_ASCII_WB : N := 20.

(* the full list a fixed-offset string would have had in libyara: every offset the specification
   predicts, with libyara's length where libyara kept the match and the longest member length
   elsewhere (the length only bounds where a later saved start may lie, see start_position_shape) *)
Definition full_list (s : sdecl) (m : bytes) (y : list (N * N)) : list (N * N) :=
  map (fun o => (o, match find (fun yo => fst yo =? o) y with
                    | Some yo => snd yo
                    | None => match list_max (spec_lens s m o) with Some l => l | None => 0 end
                    end)) (spec_offsets_of s m).

(* ---- documented deviation 5 (of the oracle): a regex with a repetition (other than `?`) of a group
   that contains a repetition of something containing a dot or a class: `/(c( xx.)?)+a11/` on
   `A cccc xxccca11` — libyara 4.5.5 reports (11,4) only; boreal and Spec/Regex.v report the seven
   starts 2, 3, 4, 5, 9, 10, 11 (libyara's backward run from the atom `a11` does not take a second
   iteration of the outer group; with `c` in place of the dot it does; it also fails when the inner
   repetition contains a further repetition: `/(xB x((\n){1,3}\x00\x2e{3})?)+.Abxa(c){3}Ba/s`).
   libyara misses members; its
   list is not the reference for such a string.  Accepted only when boreal's list conforms exactly
   to the specification and contains everything libyara lists. *)
Definition rep_many (k : rkind) : bool := match k with ZeroOrOne => false | _ => true end.
Definition has_wild (h : hir) : bool :=
  hsub (fun x => match x with HDot | HClass _ | HMask _ _ _ => true | _ => false end) h.
Definition has_rep (h : hir) : bool := hsub (fun x => match x with HRep _ _ _ => true | _ => false end) h.
Definition nested_rep_quirk (s : sdecl) : bool :=
  match s with
  | SRegex n _ _ _ =>
      hsub (fun x => match x with
                     | HRep body k _ =>
                         rep_many k && hsub (fun z => match z with HRep inner _ _ => has_wild inner || has_rep inner | _ => false end) body
                     | _ => false
                     end) (node_to_hir n)
  | _ => false
  end.
Definition K_ORACLE_NESTED_REP : N := 5.

(* strings of one rule on one input *)
Fixpoint strings_check (cond : option expr) (m : bytes) (ss : list sdecl) (nl : list N) (gl : list bool) (v : nat)
         (ys bs : list (list (N * N))) : sres :=
  match ss with
  | [] => sres_ok
  | s :: rest =>
      let y := nth_obs v ys in
      let b := nth_obs v bs in
      sres_and (strings_check cond m rest nl gl (S v) ys bs)
      (if fullword_ambiguous s m then
        let agree := list_eqb (pair_eqb N.eqb N.eqb) y b in
        mk_sres true true false true (negb agree) 0
      else if fixed_offset_string cond v then
        let full := spec_offsets_of s m in
        let sp := sublist_of y full
                  && forallb (fun ol => mem_N (snd ol) (spec_lens s m (fst ol))) y in
        let exact := string_agree s m y b in
        let relaxed := forallb (fun yo => existsb (fun bo => (fst yo =? fst bo)
                                  && (negb (uniq_len s m (fst yo)) || (snd yo =? snd bo))) b) y
                       && list_eqb N.eqb (map fst b) full in
        (* both recorded classes at once: boreal's list is judged against the full list, where it may
           miss starts in the start-position shape (and nothing else) *)
        let shape := negb exact && negb relaxed && sp
                     && start_position_shape s m (nth v nl 0) (full_list s m y) b in
        mk_sres sp (exact || relaxed || shape) (negb exact && relaxed) false false
                (if shape then K_START_POS else 0)
      else
        let exact := string_agree s m y b in
        let shape := negb exact && start_position_shape s m (nth v nl 0) y b in
        let altf := negb exact && negb shape && is_pattern s && nth v gl false && reports_non_member s m b in
        let wab := negb exact && negb shape && wide_ascii_boundary s in
        let oq := negb exact && nested_rep_quirk s && string_spec_ok s m b
                  && forallb (fun yo => existsb (fun bo => (fst yo =? fst bo)
                                           && (negb (uniq_len s m (fst yo)) || (snd yo =? snd bo))) b) y in
        if oq then sres_oq else
        mk_sres (string_spec_ok s m y) (exact || shape || altf || wab) false false false
                (if wab then K_WIDE_ASCII_WB else if altf then K_ALT_FIRST else if shape then K_START_POS else 0))
  end.

(* a rule that is not reported (private): its strings cannot be compared; an ambiguous one makes the
   specification's prediction of the rule's verdict unusable on this input *)
Definition hidden_check (m : bytes) (ss : list sdecl) : sres :=
  sres_and (mk_sres true true false (existsb (fun s => fullword_ambiguous s m) ss) false 0)
           (if existsb nested_rep_quirk ss then sres_oq else sres_ok).

(* ------------------------------------------------------------------ verdicts by the specification *)
Definition to_smatch (ol : N * N) : smatch := {| m_base := 0; m_off := fst ol; m_len := snd ol |}.

(* matches of the strings of one rule: libyara's when the rule was reported, else the specification's *)
Definition rule_matches (m : bytes) (r : crule) (o : obs) : list (list smatch) :=
  match o with
  | Some (_, per) => map (fun k => map to_smatch (nth_obs k per)) (seq 0 (length (c_strings r)))
  | None => map (fun s => map to_smatch (spec_matches s m)) (c_strings r)
  end.

Definition modelled (r : crule) : bool := match c_cond r with Some _ => true | None => false end.

Definition to_rule (r : crule) : rule :=
  {| r_ns := c_ns r; r_id := c_id r; r_global := c_global r; r_private := c_private r;
     r_nvars := length (c_strings r);
     r_cond := match c_cond r with Some e => e | None => EBool false end |}.

Definition scanner_of (rs : list crule) : scanner :=
  let ms := filter modelled rs in
  {| s_globals := map to_rule (filter c_global ms);
     s_rules := map to_rule (filter (fun r => negb (c_global r)) ms);
     s_nns := S (fold_right Nat.max 0%nat (map c_ns rs)) |}.

Definition inputs_of (rs : list crule) (m : bytes) (yobs : list obs) : inputs :=
  let ros := filter (fun ro : crule * obs => modelled (fst ro)) (combine rs yobs) in
  let per (g : bool) := flat_map (fun ro : crule * obs => rule_matches m (fst ro) (snd ro))
                                 (filter (fun ro : crule * obs => Bool.eqb (c_global (fst ro)) g) ros) in
  {| i_matches := per true ++ per false; i_ext := []; i_filesize := Some (nlen m); i_mem := Some m;
     i_ac := []; i_imports := [] |}.

(* libyara's verdicts are the ones Spec/RuleSetSpec.v assigns (private rules are not reported) *)
Definition verdicts_spec_ok (rs : list crule) (m : bytes) (yobs : list obs) : bool :=
  let rep := spec_reported (scanner_of rs) (inputs_of rs m yobs) true in
  forallb (fun ro : crule * obs =>
             let (r, o) := ro in
             match c_cond r, o with
             | None, _ => true
             | Some _, None => c_private r
             | Some _, Some (mt, _) =>
                 negb (c_private r)
                 && existsb (fun er => (er_id er =? c_id r) && Bool.eqb (er_matched er) mt) rep
             end) (combine rs yobs).

(* boreal's verdicts are libyara's: same rules reported, same flag; and the same matched rules under
   default scan parameters *)
Definition verdicts_agree (yobs bobs : list obs) (bdef : list bool) : bool :=
  forallb2 (fun (y b : obs) =>
              match y, b with
              | None, None => true
              | Some (my, _), Some (mb, _) => Bool.eqb my mb
              | _, _ => false
              end) yobs bobs
  && forallb2 (fun (y : obs) (d : bool) => match y with Some (my, _) => Bool.eqb my d | None => negb d end)
              yobs bdef.

Definition sres_bad : sres := mk_sres false false false false false 0.
Definition no_boreal (a : sres) : sres := sres_and (mk_sres (q_spec a) false false (q_amb a) false 0) (if q_oq a then sres_oq else sres_ok).

Fixpoint rules_strings (m : bytes) (rs : list crule) (yobs bobs : list obs) : sres :=
  match rs, yobs, bobs with
  | r :: rr, y :: yr, b :: br =>
      sres_and (rules_strings m rr yr br)
      match y, b with
      | Some (_, ys), Some (_, bs) => strings_check (c_cond r) m (c_strings r) (c_nlits r) (c_glue r) 0 ys bs
      | None, None => hidden_check m (c_strings r)
      | Some (_, ys), None => no_boreal (strings_check (c_cond r) m (c_strings r) (c_nlits r) (c_glue r) 0 ys [])
      | None, Some _ => no_boreal (hidden_check m (c_strings r))
      end
  | [], [], [] => sres_ok
  | _, _, _ => sres_bad
  end.

(* ------------------------------------------------------------------ classes of a rule file *)
Definition conds (rs : list crule) : list expr :=
  flat_map (fun r => match c_cond r with Some e => [e] | None => [] end) rs.

Definition K_OVERFLOW : N := 1.
Definition K_SELFREF : N := 2.       (* a rule that references itself: cannot be written in `expr` (no such index) *)
Definition K_LIMITS : N := 3.        (* boreal's defensive limits: never reached by the generated files *)
Definition K_CONTAINS_EMPTY : N := 4.
Definition K_FIXED_OFFSET : N := 10.
Definition K_FULLWORD_LEN : N := 12.
Definition K_GLOBAL_REFS : N := 13.
Definition K_LIST_UNDEF : N := 14.
Definition K_HIGH_BYTE_ORDER : N := 15.
Definition K_UNDEF_QUANT : N := 16.

(* class of the conditions of the file: the first that applies *)
Definition cond_class (rs : list crule) : N :=
  let cs := conds rs in
  if kf_global_refs_ordinary (scanner_of rs) then K_GLOBAL_REFS
  else if existsb may_overflow cs then K_OVERFLOW
  else if existsb contains_empty cs then K_CONTAINS_EMPTY
  else if existsb list_may_undef cs then K_LIST_UNDEF
  else if existsb quant_may_undef cs then K_UNDEF_QUANT
  else if existsb high_byte_order cs then K_HIGH_BYTE_ORDER
  else 0.

Definition is_documented (k : N) : bool := (1 <=? k) && (k <=? 5).

(* ------------------------------------------------------------------ the case *)
(* per input: the strings, then (spec verdicts, boreal verdicts).  On an input where an ambiguous
   fullword regex is present, the verdicts that may depend on it are not held against anyone: the
   specification's verdicts are not checked, boreal's are compared but a difference is the class's. *)
Definition one_input (rs : list crule) (m : bytes) (yobs bobs : list obs) (bdef : list bool)
  : sres * bool * bool :=
  let q := rules_strings m rs yobs bobs in
  (q, q_amb q || q_oq q || verdicts_spec_ok rs m yobs, verdicts_agree yobs bobs bdef).

Fixpoint zip_inputs (rs : list crule) (ins : list bytes) (ys bs : list (list obs)) (ds : list (list bool))
  : list (sres * bool * bool) :=
  match ins, ys, bs, ds with
  | m :: ir, y :: yr, b :: br, d :: dr => one_input rs m y b d :: zip_inputs rs ir yr br dr
  | _, _, _, _ => []
  end.

Definition C07_case (rs : list crule) (ins : list bytes) (ys bs : list (list obs)) (ds : list (list bool))
           (no_scan_error : bool) : bool * bool * N :=
  let rows := zip_inputs rs ins ys bs ds in
  let shape := (length rows =? length ins)%nat && no_scan_error in
  let s_str := forallb (fun r : sres * bool * bool => q_spec (fst (fst r))) rows in
  let b_str := forallb (fun r : sres * bool * bool => q_boreal (fst (fst r))) rows in
  let kfix := existsb (fun r : sres * bool * bool => q_fix (fst (fst r))) rows in
  let s_ver := forallb (fun r : sres * bool * bool => snd (fst r)) rows in
  (* boreal's verdicts: a difference on an input with an ambiguous fullword regex belongs to class 12,
     on an input where a start was dropped to class 11 *)
  let b_ver := forallb (fun r : sres * bool * bool => snd r || q_amb (fst (fst r)) || negb (q_sp (fst (fst r)) =? 0) || q_oq (fst (fst r))) rows in
  let kamb := existsb (fun r : sres * bool * bool => q_amb_used (fst (fst r)) || (q_amb (fst (fst r)) && negb (snd r))) rows in
  let ksp := fold_right N.max 0 (map (fun r : sres * bool * bool => q_sp (fst (fst r))) rows) in
  let kc := cond_class rs in
  (* whatever the class: boreal's verdicts under default scan parameters must be its own verdicts with
     compute_full_matches (a recorded deviation from libyara is the same deviation in both
     configurations; a difference between the two is never explained by a class) *)
  let self_ok := forallb2 (fun (bo : list obs) (d : list bool) =>
                   forallb2 (fun (b : obs) (dd : bool) =>
                               match b with Some (mb, _) => Bool.eqb mb dd | None => negb dd end) bo d) bs ds in
  (* a class of the conditions explains disagreements on verdicts only *)
  let waived := negb (kc =? 0) && negb (s_ver && b_ver) in
  let s := shape && s_str && (s_ver || waived) in
  let b := shape && b_str && (b_ver || waived) in
  if negb self_ok then (s, false, 0)
  else if waived then
    if is_documented kc then (s, b, kc) else (s, false, kc)
  else if b && kfix then (s, false, K_FIXED_OFFSET)
  else if b && negb (ksp =? 0) then (s, false, ksp)
  else if b && kamb then (s, false, K_FULLWORD_LEN)
  else (s, b, 0).

(* libyara compiled the file, boreal did not (rejected, or panicked): a violation unless the file is
   in a class that documents it *)
(* ---- finding 18 (C07-regex-span-panic, fixed in /repo by c526a27; kept for the record, no longer used by
   C07_rejected): boreal panicked while scanning (`invalid span a..b for haystack`, a > b, raised by
   the regex engine on the span boreal hands it) with a regex string that contains a word-boundary
   assertion: `/_\b_c11_A xa|\D/` on `__c11_A xa`.  Class: boreal panicked and some regex string of the
   file has `\b` or `\B`. *)
Definition K_SPAN_PANIC : N := 18.

Definition C07_rejected (rs : list crule) (panicked : bool) : bool * bool * N :=
  let kc := cond_class rs in
  if panicked && (kc =? K_GLOBAL_REFS) then (true, false, K_GLOBAL_REFS)
  else (true, false, 0).

(* the same file under the two compiler profiles of boreal (the profile is a user option): the case is
   as bad as the worse of the two; an unclassified disagreement wins over a classified one *)
Definition triple_ok (t : bool * bool * N) : bool := fst (fst t) && snd (fst t).
Definition C07_pair (a b : bool * bool * N) : bool * bool * N :=
  if triple_ok a then b
  else if triple_ok b then a
  else if snd a =? 0 then a
  else if snd b =? 0 then b
  else a.
