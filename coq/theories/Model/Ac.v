(* Model/Ac.v — contract of aho-corasick's `find_overlapping_iter` as boreal configures it
   (`ascii_case_insensitive(true)`, MatchKind::Standard; DFA and contiguous NFA are the same function).

   Patterns handed to the automaton by `AcScan::new` are lower-cased and pairwise distinct.  The
   overlapping search reports every occurrence of every pattern (haystack compared ignoring ASCII
   case), ordered by end offset and, for one end offset, by decreasing pattern length (the matches
   of a state come before those of its failure state, i.e. longer suffixes first).  Two distinct
   lower-cased patterns of the same length cannot both end at one position, so iterating over the
   *length* of the suffix gives the same sequence without ties.

   A hit is (pattern, start, end).  Definitions only. *)
From Boreal Require Import Base.Prelude Base.ListX Base.Bytes.

Definition ac_hit := (bytes * N * N)%type.

Definition ac_maxlen (pats : list bytes) : N := fold_right N.max 0 (map (fun p => nlen p) pats).

(* lengths maxlen, maxlen-1, ..., 1 *)
Definition lens_desc (maxlen : N) : list N := rev (iota 1 maxlen).

Definition ac_hits_at (pats : list bytes) (maxlen : N) (m : bytes) (e : N) : list ac_hit :=
  flat_map (fun L =>
      if L <=? e then
        let w := lower_bytes (slice (e - L) e m) in
        if memb bytes_eqb w pats then [(w, e - L, e)] else []
      else [])
    (lens_desc maxlen).

Definition ac_find_overlapping (pats : list bytes) (m : bytes) : list ac_hit :=
  flat_map (ac_hits_at pats (ac_maxlen pats) m) (iota 1 (nlen m)).
