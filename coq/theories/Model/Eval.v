(* Model/Eval.v — boreal/src/evaluator/{mod,variable,read_integer}.rs, arm by arm.
   `Evaluator::evaluate_expr` over the compiled `Expression` enum (everything except module
   values other than bounded identifiers and `entrypoint`; floats are IEEE-754 binary64 values computed
   with the standard library's executable specification Floats.SpecFloat (prec 53, emax 1024: the
   operations the hardware `f64` of the code implements, round-to-nearest-even); `matches` is the unary operator
   `UMatches`: the regex, lowered as in Model/Hir.v, has a match somewhere in the bytes — what
   `Regex::is_match` is specified to answer, Spec/Regex.v `is_match`),
   `ForSelectionEvaluator`, `VarMatches::{find, find_at, find_in, count_matches, count_matches_in,
   find_match_occurence}`, `evaluate_read_integer` on direct memory, `evaluate_rule`.
   Definitions only. *)
From Boreal Require Import Base.Prelude Base.Res.
From Boreal Require Spec.Regex Model.Hir.
From Coq Require Floats.SpecFloat.

(* ------------------------------------------------------------------ values *)
Inductive value := VInt (z : Z) | VBytes (b : list N) | VBool (b : bool)
| VFloat (f : SpecFloat.spec_float).   (* Value::Float(f64) *)

(* ------------------------------------------------------------------ binary64 *)
Definition f64 := SpecFloat.spec_float.
Definition f64_zero : f64 := SpecFloat.S754_zero false.
(* `n as f64`: the nearest binary64, ties to even *)
Definition f64_of_Z (n : Z) : f64 := SpecFloat.binary_normalize 53 1024 n 0 false.
Definition f64_add : f64 -> f64 -> f64 := SpecFloat.SFadd 53 1024.
Definition f64_sub : f64 -> f64 -> f64 := SpecFloat.SFsub 53 1024.
Definition f64_mul : f64 -> f64 -> f64 := SpecFloat.SFmul 53 1024.
Definition f64_div : f64 -> f64 -> f64 := SpecFloat.SFdiv 53 1024.
Definition f64_neg : f64 -> f64 := SpecFloat.SFopp.
Definition f64_abs : f64 -> f64 := SpecFloat.SFabs.
Definition f64_compare : f64 -> f64 -> option comparison := SpecFloat.SFcompare.
(* f64::EPSILON = 2^-52 *)
Definition f64_epsilon : f64 := SpecFloat.S754_finite false 4503599627370496 (-104).
(* `a != 0.0`: true for NaN *)
Definition f64_nonzero (a : f64) : bool :=
  match f64_compare a f64_zero with Some Eq => false | _ => true end.
(* `(a - b).abs() < f64::EPSILON`: false when the difference is NaN (inf - inf) *)
Definition f64_close (a b : f64) : bool :=
  match f64_compare (f64_abs (f64_sub a b)) f64_epsilon with Some Lt => true | _ => false end.

Definition is_nil {A} (l : list A) : bool := match l with [] => true | _ => false end.

(* Value::to_bool *)
Definition truthy (v : value) : bool :=
  match v with
  | VBool b => b
  | VBytes s => negb (is_nil s)
  | VInt n => negb (n =? 0)%Z
  | VFloat a => f64_nonzero a
  end.

Definition i64_min : Z := (-9223372036854775808)%Z.
Definition i64_max : Z := 9223372036854775807%Z.
Definition wrap64 (z : Z) : Z := ((z + 9223372036854775808) mod 18446744073709551616 - 9223372036854775808)%Z.

Definition unwrap_number (v : value) : res Z := match v with VInt z => Ok z | _ => Undef end.
Definition unwrap_bytes (v : value) : res (list N) := match v with VBytes b => Ok b | _ => Undef end.

(* ------------------------------------------------------------------ syntax *)
Inductive binop :=
| OAdd | OSub | OMul | ODiv | OMod | OXor | OBand | OBor | OShl | OShr
| OLt | OLe | OGt | OGe | OEq | ONeq
| OContains (ci : bool) | OStartsWith (ci : bool) | OEndsWith (ci : bool) | OIEquals.
Inductive unop := UNeg | UBnot | UNot
| UMatches (nocase dot_all : bool) (re : Hir.node).   (* Expression::Matches(expr, regex) *)
Inductive selk := KAny | KAll | KNone | KExpr (pct : bool).
Inductive ritype := I8 | U8 | I16 | U16 | I32 | U32 | I16BE | U16BE | I32BE | U32BE.

Inductive expr :=
| EInt (z : Z) | EBytes (b : list N) | EBool (b : bool)
| EDouble (f : SpecFloat.spec_float)     (* Expression::Double *)
| EFilesize
| EReadInt (ty : ritype) (addr : expr)
| ECount (v : option nat)
| ECountIn (v : option nat) (from to : expr)
| EOffset (v : option nat) (occ : expr)
| ELength (v : option nat) (occ : expr)
| EVar (v : option nat)
| EVarAt (v : option nat) (off : expr)
| EVarIn (v : option nat) (from to : expr)
| EUn (o : unop) (e : expr)
| EBin (o : binop) (l r : expr)
| EAnd (l : list expr)
| EOr (l : list expr)
| EDefined (e : expr)
| EFor (k : selk) (se : expr) (set : list nat) (body : expr)
| EForRange (k : selk) (se : expr) (from to : expr) (body : expr)
| EForList (k : selk) (se : expr) (elems : list expr) (body : expr)
| EForRules (k : selk) (se : expr) (already : nat) (elems : list nat)
| ERule (i : nat)
| EExt (i : nat)
| EBound (i : nat).

(* ------------------------------------------------------------------ environment *)
Record smatch := { m_base : N; m_off : N; m_len : N }.

Record env := {
  e_matches : option (list (list smatch)); (* None: evaluation before the string scan *)
  e_prev : list bool;                      (* previous_rules_results *)
  e_ext : list value;                      (* external symbol values *)
  e_filesize : option N;                   (* None for fragmented memory *)
  e_mem : option (list N)                  (* direct memory, for intXX/uintXX *)
}.

Definition mabs (m : smatch) : N := sat_add (m_off m) (m_base m).

(* ------------------------------------------------------------------ operators on values *)
Definition is_upper (b : N) : bool := (65 <=? b) && (b <=? 90).
Definition lower (b : N) : N := if is_upper b then b + 32 else b.
Definition lower_bytes (l : list N) : list N := map lower l.

Definition bytes_eqb (a b : list N) : bool := list_eqb N.eqb a b.

Fixpoint is_prefix (p l : list N) : bool :=
  match p, l with
  | [], _ => true
  | x :: p', y :: l' => (x =? y) && is_prefix p' l'
  | _ :: _, [] => false
  end.

(* memmem::find(a, b).is_some(): some suffix of a has b as a prefix *)
Fixpoint contains (a b : list N) : bool :=
  is_prefix b a || match a with [] => false | _ :: a' => contains a' b end.

Definition ends_with (a s : list N) : bool := is_prefix (rev s) (rev a).

(* lexicographic order on byte strings (Ord for Vec<u8>) *)
Fixpoint bytes_cmp (a b : list N) : comparison :=
  match a, b with
  | [], [] => Eq
  | [], _ :: _ => Lt
  | _ :: _, [] => Gt
  | x :: a', y :: b' => match N.compare x y with Eq => bytes_cmp a' b' | c => c end
  end.

Definition cmp_holds (o : binop) (c : comparison) : bool :=
  match o, c with
  | OLt, Lt => true | OLt, _ => false
  | OLe, Gt => false | OLe, _ => true
  | OGt, Gt => true | OGt, _ => false
  | OGe, Lt => false | OGe, _ => true
  | _, _ => false
  end.

Arguments f64_of_Z : simpl never.
Arguments f64_add : simpl never.
Arguments f64_sub : simpl never.
Arguments f64_mul : simpl never.
Arguments f64_div : simpl never.
Arguments f64_neg : simpl never.
Arguments f64_abs : simpl never.
Arguments f64_compare : simpl never.
Arguments f64_nonzero : simpl never.
Arguments f64_close : simpl never.

(* the mixed integer / float arms of arith_op_num_and_float!, apply_cmp_op!, Div and eval_eq_values:
   at least one operand is a float, the other one a float or an integer converted with `as f64` *)
Definition is_float (v : value) : bool := match v with VFloat _ => true | _ => false end.
Definition to_f64 (v : value) : option f64 :=
  match v with VInt n => Some (f64_of_Z n) | VFloat a => Some a | _ => None end.
Definition float_pair (a b : value) : option (f64 * f64) :=
  if is_float a || is_float b then
    match to_f64 a, to_f64 b with Some x, Some y => Some (x, y) | _, _ => None end
  else None.
Definition float_arith (f : f64 -> f64 -> f64) (a b : value) : res value :=
  match float_pair a b with Some (x, y) => Ok (VFloat (f x y)) | None => Undef end.

Definition eq_values (a b : value) : res bool :=
  match a, b with
  | VInt n, VInt m => Ok (n =? m)%Z
  | VBytes x, VBytes y => Ok (bytes_eqb x y)
  | VBool x, VBool y => Ok (Bool.eqb x y)
  | _, _ => match float_pair a b with Some (x, y) => Ok (f64_close x y) | None => Undef end
  end.

Definition str_op (ci : bool) (f : list N -> list N -> bool) (a b : value) : res value :=
  let* x := unwrap_bytes a in
  let* y := unwrap_bytes b in
  Ok (VBool (if ci then f (lower_bytes x) (lower_bytes y) else f x y)).

Definition num_op (f : Z -> Z -> res value) (a b : value) : res value :=
  let* x := unwrap_number a in
  let* y := unwrap_number b in
  f x y.

Definition eval_bin (o : binop) (a b : value) : res value :=
  match o with
  | OAdd => match a, b with VInt n, VInt m => Ok (VInt (wrap64 (n + m))) | _, _ => float_arith f64_add a b end
  | OSub => match a, b with VInt n, VInt m => Ok (VInt (wrap64 (n - m))) | _, _ => float_arith f64_sub a b end
  | OMul => match a, b with VInt n, VInt m => Ok (VInt (wrap64 (n * m))) | _, _ => float_arith f64_mul a b end
  | ODiv => match a, b with
            | VInt n, VInt m =>
                if (m =? 0)%Z then Undef
                else if (n =? i64_min)%Z && (m =? -1)%Z then Undef   (* checked_div *)
                else Ok (VInt (Z.quot n m))
            | _, _ => float_arith f64_div a b end
  | OMod => num_op (fun n m =>
                if (m =? 0)%Z then Undef
                else if (n =? i64_min)%Z && (m =? -1)%Z then Undef   (* checked_rem *)
                else Ok (VInt (Z.rem n m))) a b
  | OXor => num_op (fun n m => Ok (VInt (Z.lxor n m))) a b
  | OBand => num_op (fun n m => Ok (VInt (Z.land n m))) a b
  | OBor => num_op (fun n m => Ok (VInt (Z.lor n m))) a b
  | OShl => num_op (fun n m =>
                if (m <? 0)%Z then Undef else if (64 <=? m)%Z then Ok (VInt 0)
                else Ok (VInt (wrap64 (Z.shiftl n m)))) a b
  | OShr => num_op (fun n m =>
                if (m <? 0)%Z then Undef else if (64 <=? m)%Z then Ok (VInt 0)
                else Ok (VInt (Z.shiftr n m))) a b
  | OLt | OLe | OGt | OGe =>
      match a, b with
      | VInt n, VInt m => Ok (VBool (cmp_holds o (Z.compare n m)))
      | VBytes x, VBytes y => Ok (VBool (cmp_holds o (bytes_cmp x y)))
      | _, _ =>
          (* a comparison with NaN is false *)
          match float_pair a b with
          | Some (x, y) => Ok (VBool (match f64_compare x y with Some c => cmp_holds o c | None => false end))
          | None => Undef
          end
      end
  | OEq => let* r := eq_values a b in Ok (VBool r)
  | ONeq => let* r := eq_values a b in Ok (VBool (negb r))
  | OContains ci => str_op ci contains a b
  | OStartsWith ci => str_op ci (fun x y => is_prefix y x) a b
  | OEndsWith ci => str_op ci ends_with a b
  | OIEquals => str_op true bytes_eqb a b
  end.

Definition eval_un (o : unop) (a : value) : res value :=
  match o with
  | UNeg => match a with VInt n => Ok (VInt (wrap64 (- n))) | VFloat x => Ok (VFloat (f64_neg x)) | _ => Undef end
  | UBnot => let* n := unwrap_number a in Ok (VInt (Z.lnot n))
  | UNot => Ok (VBool (negb (truthy a)))
  | UMatches nc da re =>
      let* s := unwrap_bytes a in
      Ok (VBool (Regex.is_match {| Regex.nocase := nc; Regex.dot_all := da; Regex.wide := false |} s (Hir.node_to_hir re)))
  end.

(* ------------------------------------------------------------------ read_integer *)
Definition ri_len (ty : ritype) : N :=
  match ty with I8 | U8 => 1 | I16 | U16 | I16BE | U16BE => 2 | _ => 4 end.
Definition ri_signed (ty : ritype) : bool :=
  match ty with I8 | I16 | I32 | I16BE | I32BE => true | _ => false end.
Definition ri_be (ty : ritype) : bool :=
  match ty with I16BE | U16BE | I32BE | U32BE => true | _ => false end.

Fixpoint le_value (l : list N) : N :=
  match l with [] => 0 | b :: r => b + 256 * le_value r end.

Definition decode_int (ty : ritype) (bytes : list N) : Z :=
  let u := le_value (if ri_be ty then rev bytes else bytes) in
  let bits := 8 * ri_len ty in
  if ri_signed ty && (2 ^ (bits - 1) <=? u) then (Z.of_N u - Z.of_N (2 ^ bits))%Z else Z.of_N u.

Definition read_int (mem : option (list N)) (ty : ritype) (addr : Z) : res value :=
  if (addr <? 0)%Z then Undef
  else
    let a := Z.to_N addr in
    match mem with
    | None => Undef
    | Some m =>
        if nlen m <=? a then Undef
        else if nlen m <? a + ri_len ty then Undef
        else Ok (VInt (decode_int ty (firstn (N.to_nat (ri_len ty)) (skipn (N.to_nat a) m))))
    end.

(* ------------------------------------------------------------------ string-match queries *)
Definition get_var_index (sel : option nat) (v : option nat) : res nat :=
  match v with
  | Some i => Ok i
  | None => match sel with Some i => Ok i | None => Undef end
  end.

Definition with_var {A} (en : env) (sel : option nat) (v : option nat) (f : list smatch -> res A) : res A :=
  let* idx := get_var_index sel v in
  match e_matches en with
  | None => Needed
  | Some M => match nth_error M idx with Some l => f l | None => Panic end
  end.

Definition count_in (l : list smatch) (from to : N) : N :=
  nlen (filter (fun m => (from <=? mabs m) && (mabs m <=? to)) l).

(* l.get(n) for a possibly huge index, without building a unary number *)
Definition nth_z {A} (l : list A) (n : Z) : option A :=
  if (n <? 0)%Z || (Z.of_nat (length l) <=? n)%Z then None else nth_error l (Z.to_nat n).

Definition z_to_usize_or0 (z : Z) : N := if (z <? 0)%Z then 0 else Z.to_N z.

Definition to_i64 (n : N) : res value :=
  if (Z.of_N n <=? i64_max)%Z then Ok (VInt (Z.of_N n)) else Undef.

(* ------------------------------------------------------------------ for selections *)
Inductive fsel := FAll | FNone | FNum (n : N).
Inductive fsel_eval := FSE (s : fsel) | FSV (v : value).

(* ceil(v / 100 * nb) — computed in binary64 by the code; here exactly (see DESIGN: the
   generator only draws (v, nb) on which both agree) *)
Definition pct_quota (v : Z) (nb : N) : Z := (- ((- (v * Z.of_N nb)) / 100))%Z.

Definition eval_selection (k : selk) (r : res value) (nb : N) : res fsel_eval :=
  match k with
  | KAny => Ok (FSE (FNum 1))
  | KAll => Ok (FSE FAll)
  | KNone => Ok (FSE FNone)
  | KExpr pct =>
      match bind r unwrap_number with
      | Ok v =>
          if pct then
            let q := pct_quota v nb in
            if (q <=? 0)%Z then Ok (FSV (VBool true)) else Ok (FSE (FNum (Z.to_N q)))
          else if (v =? 0)%Z then Ok (FSE FNone)
          else if (v <=? 0)%Z then Ok (FSV (VBool true))
          else Ok (FSE (FNum (Z.to_N v)))
      | Undef => Ok (FSV (VBool false))
      | Needed => Needed
      | Panic => Panic
      end
  end.

(* ForSelectionEvaluator::add_result_and_check *)
Definition add_result (s : fsel) (matched : bool) : fsel * option bool :=
  match s with
  | FAll => (s, if matched then None else Some false)
  | FNone => (s, if matched then Some false else None)
  | FNum v =>
      if matched then
        let v' := v - 1 in (FNum v', if v' =? 0 then Some true else None)
      else (s, None)
  end.

(* ForSelectionEvaluator::end *)
Definition sel_end (s : fsel) (needed : N) : res value :=
  match s with
  | FAll | FNone => if 0 <? needed then Needed else Ok (VBool true)
  | FNum n => if n <=? needed then Needed else Ok (VBool false)
  end.

(* the accumulation loop shared by all `for` variants, over the body results in order *)
Fixpoint for_loop (s : fsel) (needed : N) (rs : list (res value)) : res value :=
  match rs with
  | [] => sel_end s needed
  | r :: rest =>
      let step (b : bool) :=
        let '(s', o) := add_result s b in
        match o with Some x => Ok (VBool x) | None => for_loop s' needed rest end in
      match r with
      | Ok v => step (truthy v)
      | Undef => step false
      | Needed => for_loop s (needed + 1) rest
      | Panic => Panic
      end
  end.

(* ForIterator::List: element evaluation is interleaved with the body.  The compiler only accepts
   integer or bytes elements (compile_for_iterator): a boolean element is the `_ => Undefined` arm; a
   float element, which the arm would treat alike, cannot be written and is not distinguished here. *)
Fixpoint list_loop (s : fsel) (needed : N) (items : list (res value * res value)) : res value :=
  match items with
  | [] => sel_end s needed
  | (re, rb) :: rest =>
      match re with
      | Ok (VBool _) => Undef
      | Ok _ =>
          let step (b : bool) :=
            let '(s', o) := add_result s b in
            match o with Some x => Ok (VBool x) | None => list_loop s' needed rest end in
          match rb with
          | Ok v => step (truthy v)
          | Undef => step false
          | Needed => list_loop s (needed + 1) rest
          | Panic => Panic
          end
      | Undef => if 0 <? needed then Needed else Undef
      | Needed => Needed
      | Panic => Panic
      end
  end.

Fixpoint and_loop (needed : bool) (rs : list (res value)) : res value :=
  match rs with
  | [] => if needed then Needed else Ok (VBool true)
  | r :: rest =>
      match r with
      | Ok v => if truthy v then and_loop needed rest else Ok (VBool false)
      | Undef => Ok (VBool false)
      | Needed => and_loop true rest
      | Panic => Panic
      end
  end.

Fixpoint or_loop (needed : bool) (rs : list (res value)) : res value :=
  match rs with
  | [] => if needed then Needed else Ok (VBool false)
  | r :: rest =>
      match r with
      | Ok v => if truthy v then Ok (VBool true) else or_loop needed rest
      | Undef => or_loop needed rest
      | Needed => or_loop true rest
      | Panic => Panic
      end
  end.

Definition undef_to_false (r : res value) : res value :=
  match r with Undef => Ok (VBool false) | _ => r end.

Definition zrange (from to : Z) : list Z :=
  map (fun i => (from + Z.of_nat i)%Z) (seq 0 (Z.to_nat (to - from + 1))).

(* ------------------------------------------------------------------ evaluate_expr *)
Fixpoint eval (en : env) (sel : option nat) (stack : list value) (e : expr) {struct e} : res value :=
  match e with
  | EInt z => Ok (VInt z)
  | EBytes b => Ok (VBytes b)
  | EBool b => Ok (VBool b)
  | EDouble f => Ok (VFloat f)
  | EFilesize =>
      match e_filesize en with
      | Some n => Ok (VInt (Z.min (Z.of_N n) i64_max))
      | None => Undef
      end
  | EReadInt ty addr =>
      let* a := bind (eval en sel stack addr) unwrap_number in
      read_int (e_mem en) ty a
  | ECount v => with_var en sel v (fun l => Ok (VInt (Z.of_N (nlen l))))
  | ECountIn v from to =>
      let* f := bind (eval en sel stack from) unwrap_number in
      let* t := bind (eval en sel stack to) unwrap_number in
      if (t <? 0)%Z then with_var en sel v (fun _ => Ok (VInt 0))
      else with_var en sel v (fun l => Ok (VInt (Z.of_N (count_in l (z_to_usize_or0 f) (Z.to_N t)))))
  | EOffset v occ =>
      let* n := bind (eval en sel stack occ) unwrap_number in
      if (n <=? 0)%Z then Undef
      else with_var en sel v (fun l =>
             match nth_z l (n - 1) with
             | Some m => if m_off m + m_base m <=? umax then to_i64 (m_off m + m_base m) else Undef
             | None => Undef
             end)
  | ELength v occ =>
      let* n := bind (eval en sel stack occ) unwrap_number in
      if (n <=? 0)%Z then Undef
      else with_var en sel v (fun l =>
             match nth_z l (n - 1) with
             | Some m => to_i64 (m_len m)
             | None => Undef
             end)
  | EVar v => with_var en sel v (fun l => Ok (VBool (negb (is_nil l))))
  | EVarAt v off =>
      let* o := bind (eval en sel stack off) unwrap_number in
      if (o <? 0)%Z then Ok (VBool false)
      else with_var en sel v (fun l => Ok (VBool (existsb (fun m => mabs m =? Z.to_N o) l)))
  | EVarIn v from to =>
      let* f := bind (eval en sel stack from) unwrap_number in
      let* t := bind (eval en sel stack to) unwrap_number in
      (* a negative lower bound is taken as 0 (`from.max(0)`), a negative upper bound gives false *)
      let f0 := Z.max f 0 in
      if (0 <=? t)%Z && (f0 <=? t)%Z then
        with_var en sel v (fun l =>
          Ok (VBool (existsb (fun m => (Z.to_N f0 <=? mabs m) && (mabs m <=? Z.to_N t)) l)))
      else Ok (VBool false)
  | EUn o a => let* x := eval en sel stack a in eval_un o x
  | EBin o l r =>
      let* x := eval en sel stack l in
      let* y := eval en sel stack r in
      eval_bin o x y
  | EAnd l => and_loop false (map (eval en sel stack) l)
  | EOr l => or_loop false (map (eval en sel stack) l)
  | EDefined a =>
      match eval en sel stack a with
      | Ok _ => Ok (VBool true)
      | Undef => Ok (VBool false)
      | Needed => Needed
      | Panic => Panic
      end
  | EFor k se set body =>
      let* s := eval_selection k (eval en sel stack se) (nlen set) in
      match s with
      | FSV v => Ok v
      | FSE fs => for_loop fs 0 (map (fun idx => eval en (Some idx) stack body) set)
      end
  | EForRange k se from to body =>
      let* s := eval_selection k (eval en sel stack se) 0 in
      match s with
      | FSV v => Ok v
      | FSE fs =>
          undef_to_false (
            let* f := bind (eval en sel stack from) unwrap_number in
            let* t := bind (eval en sel stack to) unwrap_number in
            if (t <? f)%Z then Undef
            else for_loop fs 0 (map (fun z => eval en sel (stack ++ [VInt z]) body) (zrange f t)))
      end
  | EForList k se elems body =>
      let* s := eval_selection k (eval en sel stack se) 0 in
      match s with
      | FSV v => Ok v
      | FSE fs =>
          undef_to_false (
            list_loop fs 0
              (map (fun el =>
                      let re := eval en sel stack el in
                      (re, match re with
                           | Ok v => eval en sel (stack ++ [v]) body
                           | _ => Undef
                           end)) elems))
      end
  | EForRules k se already elems =>
      let* s := eval_selection k (eval en sel stack se) (nlen elems + N.of_nat already) in
      match s with
      | FSV v => Ok v
      | FSE fs =>
          for_loop fs 0
            (repeat (Ok (VBool true)) already
             ++ map (fun i => match nth_error (e_prev en) i with
                              | Some b => Ok (VBool b)
                              | None => Panic
                              end) elems)
      end
  | ERule i => match nth_error (e_prev en) i with Some b => Ok (VBool b) | None => Panic end
  | EExt i => match nth_error (e_ext en) i with Some v => Ok v | None => Undef end
  | EBound i => match nth_error stack i with Some v => Ok v | None => Undef end
  end.

(* evaluate_rule: Ok b | Needed (Undecidable) | Panic *)
Definition eval_rule (en : env) (cond : expr) : res bool :=
  match eval en None [] cond with
  | Ok v => Ok (truthy v)
  | Undef => Ok false
  | Needed => Needed
  | Panic => Panic
  end.

(* ------------------------------------------------------------------ equality on results, for the correspondence *)
Definition value_eqb (a b : value) : bool :=
  match a, b with
  | VInt x, VInt y => (x =? y)%Z
  | VBytes x, VBytes y => bytes_eqb x y
  | VBool x, VBool y => Bool.eqb x y
  | _, _ => false
  end.
