(* Model/Hir.v — lowering to the HIR.
   * hex token AST (boreal-parser/src/hex_string.rs `Token`) -> HIR: `impl From<Token> for Hir`,
     `impl From<Vec<Token>> for Hir`, `masked_byte_to_hir` (boreal/src/regex/hir.rs)
   * regex AST (boreal-parser/src/regex.rs `Node`) -> HIR: `regex_ast_to_hir`, including the
     "a repetition over a non-ASCII character binds to its last UTF-8 byte" normalisation.
   * `class_to_bitmap` / `perl_class_to_bitmap` / the bitmap built by `RunExtractor` for masks:
     the (case-sensitive) member test used for literal expansion.
   Definitions only. *)
From Boreal Require Import Base.Prelude Spec.Regex.

(* ------------------------------------------------------------------ hex strings *)
Inductive hmask := MLeft | MRight | MAll.

Inductive token :=
| TByte (b : N)
| TNotByte (b : N)
| TMasked (b : N) (m : hmask)
| TNotMasked (b : N) (m : hmask)
| TJump (from : N) (to : option N)
| TAlts (alts : list (list token)).

Definition masked_byte_to_hir (b : N) (m : hmask) (negated : bool) : hir :=
  match m with
  | MLeft => HMask b 15 negated
  | MRight => HMask ((b * 16) mod 256) 240 negated
  | MAll => HDot
  end.

Fixpoint token_to_hir (t : token) : hir :=
  match t with
  | TByte b => HLit b
  | TNotByte b => HClass (ClsBracket [CLit b] true)
  | TMasked b m => masked_byte_to_hir b m false
  | TNotMasked b m => masked_byte_to_hir b m true
  | TJump from None => HRep HDot (AtLeast from) false
  | TJump from (Some to) => HRep HDot (Bounded from to) false
  | TAlts alts =>
      HGroup (HAlt ((fix go (l : list (list token)) : list hir :=
                       match l with
                       | [] => []
                       | ts :: r =>
                           HConcat ((fix go2 (ts : list token) : list hir :=
                                       match ts with [] => [] | t :: r2 => token_to_hir t :: go2 r2 end) ts)
                           :: go r
                       end) alts))
  end.

Definition hir_of_tokens (ts : list token) : hir := HConcat (map token_to_hir ts).

(* legality rules of the parser (`tokens`, `validate_jump`, `validate_jump_in_alternatives`,
   `not_token`): a jump is never first or last in a token list, is never empty or inverted, is bounded
   by 200 inside alternatives; `~??` does not exist; nibbles are < 16; `[1]` is parsed as `??`. *)
Definition is_jump (t : token) : bool := match t with TJump _ _ => true | _ => false end.

Definition jump_ok (in_alt : bool) (from : N) (to : option N) : bool :=
  match to with
  | None => negb in_alt
  | Some to => (from <=? to) && negb ((from =? 0) && (to =? 0)) && negb ((from =? 1) && (to =? 1))
               && (negb in_alt || (to <=? 200))
  end.

Fixpoint wf_token (in_alt : bool) (t : token) : bool :=
  match t with
  | TByte b | TNotByte b => b <? 256
  | TMasked b MAll => b =? 0
  | TMasked b _ => b <? 16
  | TNotMasked b MAll => false
  | TNotMasked b _ => b <? 16
  | TJump from to => jump_ok in_alt from to
  | TAlts alts =>
      nonempty alts &&
      (fix go (l : list (list token)) : bool :=
         match l with
         | [] => true
         | ts :: r =>
             nonempty ts
             && negb (match ts with t :: _ => is_jump t | [] => false end)
             && negb (match rev ts with t :: _ => is_jump t | [] => false end)
             && (fix go2 (ts : list token) : bool :=
                   match ts with [] => true | t :: r2 => wf_token true t && go2 r2 end) ts
             && go r
         end) alts
  end.

Definition wf_hex (ts : list token) : bool :=
  nonempty ts
  && negb (match ts with t :: _ => is_jump t | [] => false end)
  && negb (match rev ts with t :: _ => is_jump t | [] => false end)
  && forallb (wf_token false) ts.

(* ------------------------------------------------------------------ regex AST *)
(* `Node` differs from the HIR by `Char` (a non-ASCII character, given here by its UTF-8 bytes) and
   by carrying class definitions without bitmaps. *)
Inductive node :=
| NAlt (l : list node)
| NAssert (k : akind)
| NClass (c : cls)
| NConcat (l : list node)
| NDot
| NEmpty
| NLit (b : N)
| NChar (utf8 : list N)
| NGroup (n : node)
| NRep (n : node) (k : rkind) (greedy : bool).

Fixpoint node_to_hir (n : node) : hir :=
  match n with
  | NAlt l => HAlt ((fix go (l : list node) : list hir :=
                       match l with [] => [] | x :: r => node_to_hir x :: go r end) l)
  | NAssert k => HAssert k
  | NClass c => HClass c
  | NConcat l => HConcat ((fix go (l : list node) : list hir :=
                             match l with [] => [] | x :: r => node_to_hir x :: go r end) l)
  | NDot => HDot
  | NEmpty => HEmpty
  | NLit b => HLit b
  | NChar bs => HConcat (map HLit bs)
  | NGroup n' => HGroup (node_to_hir n')
  | NRep (NChar bs) k greedy =>
      (* the repetition applies to the last byte only *)
      HConcat (map HLit (removelast bs) ++ [HRep (HLit (last bs 0)) k greedy])
  | NRep n' k greedy => HRep (node_to_hir n') k greedy
  end.

(* ------------------------------------------------------------------ bitmaps *)
(* member test of the bitmap boreal attaches to a class (case-sensitive, whatever the modifiers) *)
Definition class_bitmap (c : cls) (b : N) : bool := cls_mem false c b.

(* bitmap built by RunExtractor::visit_pre for Hir::Mask *)
Definition mask_bitmap (value mask : N) (negated : bool) (b : N) : bool :=
  xorb negated
       (if mask =? 15 then existsb (fun c => (c * 16) + value =? b) (iota 0 16)
        else existsb (fun c => N.lor c value =? b) (iota 0 16)).

(* ------------------------------------------------------------------ boolean equality (case checks) *)
Definition akind_eqb (a b : akind) : bool :=
  match a, b with
  | StartLine, StartLine | EndLine, EndLine | WordBoundary, WordBoundary | NonWordBoundary, NonWordBoundary => true
  | _, _ => false
  end.
Definition pkind_eqb (a b : pkind) : bool :=
  match a, b with PWord, PWord | PSpace, PSpace | PDigit, PDigit => true | _, _ => false end.
Definition citem_eqb (a b : citem) : bool :=
  match a, b with
  | CPerl k n, CPerl k' n' => pkind_eqb k k' && Bool.eqb n n'
  | CLit x, CLit y => x =? y
  | CRange x y, CRange x' y' => (x =? x') && (y =? y')
  | _, _ => false
  end.
Definition cls_eqb (a b : cls) : bool :=
  match a, b with
  | ClsPerl k n, ClsPerl k' n' => pkind_eqb k k' && Bool.eqb n n'
  | ClsBracket l n, ClsBracket l' n' => list_eqb citem_eqb l l' && Bool.eqb n n'
  | _, _ => false
  end.
Definition rkind_eqb (a b : rkind) : bool :=
  match a, b with
  | ZeroOrOne, ZeroOrOne | ZeroOrMore, ZeroOrMore | OneOrMore, OneOrMore => true
  | Exactly n, Exactly n' | AtLeast n, AtLeast n' => n =? n'
  | Bounded n m, Bounded n' m' => (n =? n') && (m =? m')
  | _, _ => false
  end.

Fixpoint hir_eqb (a b : hir) {struct a} : bool :=
  match a, b with
  | HAlt l, HAlt l' =>
      (fix go (l l' : list hir) : bool :=
         match l, l' with
         | [], [] => true
         | x :: r, y :: r' => hir_eqb x y && go r r'
         | _, _ => false
         end) l l'
  | HConcat l, HConcat l' =>
      (fix go (l l' : list hir) : bool :=
         match l, l' with
         | [], [] => true
         | x :: r, y :: r' => hir_eqb x y && go r r'
         | _, _ => false
         end) l l'
  | HAssert k, HAssert k' => akind_eqb k k'
  | HClass c, HClass c' => cls_eqb c c'
  | HMask v m n, HMask v' m' n' => (v =? v') && (m =? m') && Bool.eqb n n'
  | HDot, HDot | HEmpty, HEmpty => true
  | HLit x, HLit y => x =? y
  | HGroup x, HGroup y => hir_eqb x y
  | HRep x k g, HRep y k' g' => hir_eqb x y && rkind_eqb k k' && Bool.eqb g g'
  | _, _ => false
  end.
