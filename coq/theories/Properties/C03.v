(* Properties/C03.v — pinned statements only.  Regex strings and `matches`: same language as the regex.
   The theorems about the Aho-Corasick path are those of C02 (they hold for any HIR, any `nocase` /
   `dot_all`, the plain reading: ascii, no fullword); here they are stated for the three matcher
   kinds a regex can get, plus the raw path. *)
From Boreal Require Import Base.Prelude Spec.Regex Model.Hir Model.Widen Model.Validator Model.Raw Model.HirScan
  Model.Decomp Model.HexCase
  Proofs.HexScanProofs Proofs.ValidatorProofs Proofs.DecompProofs Proofs.HexProofs Proofs.RawProofs Proofs.WidenProofs
  Proofs.SpanProofs Proofs.HexWitnesses Proofs.HexOnePerOffset.
From Coq Require Import Sorted.

(* Ordered, one match per offset, for every regex string that goes through the Aho-Corasick pass. *)
Theorem C03_ac_scan_ascending :
  forall use_sp d mem max_nb,
    StronglySorted (fun a b => fst a < fst b) (ac_scan use_sp d mem max_nb).
Proof. exact ac_scan_ascending. Qed.

(* ... said directly, for regex strings too (same pass): the reported offsets are pairwise distinct, and
   two reported matches at the same offset are the same match *)
Theorem C03_offsets_distinct :
  forall use_sp d mem max_nb, NoDup (map fst (ac_scan use_sp d mem max_nb)).
Proof. exact ac_scan_offsets_distinct. Qed.

Theorem C03_one_per_offset :
  forall use_sp d mem max_nb x y,
    In x (ac_scan use_sp d mem max_nb) -> In y (ac_scan use_sp d mem max_nb) -> fst x = fst y -> x = y.
Proof. exact ac_scan_one_per_offset. Qed.

(* greedy_sound: when the reverse part has a greedy repetition the end of every match is computed by
   the whole regex from the candidate start: every reported match is a member, with NO assumption on
   the decomposition. *)
Theorem C03_greedy_sound :
  forall use_sp d mem max_nb,
    plain (s_mods d) -> atoms_ok d -> s_kind d = KGreedy -> (exists q, s_pre d = Some q) ->
    Forall (fun y => In (snd y) (Lens (flags_of (s_mods d)) mem (s_hir d) (fst y))) (ac_scan use_sp d mem max_nb).
Proof.
  exact (fun use_sp d mem max_nb Hp Ha Hk Hq =>
           atomized_sound use_sp d mem max_nb Hp Ha (or_intror (or_intror (conj Hk Hq))) (or_introl Hk)).
Qed.

(* sound for any decomposition with the glue property, all three kinds *)
Theorem C03_atomized_sound :
  forall use_sp d mem max_nb,
    plain (s_mods d) -> atoms_ok d -> kind_ok d ->
    (s_kind d = KGreedy \/ DecompGlue (s_mods d) mem (s_hir d) (s_lits d) (s_pre d) (s_post d)) ->
    Forall (fun y => In (snd y) (Lens (flags_of (s_mods d)) mem (s_hir d) (fst y))) (ac_scan use_sp d mem max_nb).
Proof. exact atomized_sound. Qed.

(* complete (greedy_complete included), modulo start_position *)
Theorem C03_atomized_complete :
  forall d mem max_nb a b,
    plain (s_mods d) -> atoms_ok d -> kind_ok d ->
    DecompSplit (s_mods d) mem (s_hir d) (s_lits d) (s_pre d) (s_post d) ->
    nlen mem <= umax -> nlen mem < max_nb ->
    kf_start_position d mem max_nb = false ->
    In b (ends (flags_of (s_mods d)) mem (s_hir d) a) ->
    In a (map fst (model_scan d mem max_nb)).
Proof. exact atomized_complete. Qed.

(* Raw path: starts are exactly the offsets with a member, ascending, each with its leftmost-first length *)
Theorem C03_raw_scan_exact :
  forall md h mem max_nb,
    plain md -> ends (flags_of md) mem h (nlen mem) = [] -> nlen mem < max_nb ->
    raw_scan md h mem max_nb
    = map (fun s => (s, first_end (flags_of md) mem h s - s))
          (filter (fun s => nonempty (ends (flags_of md) mem h s)) (iota 0 (nlen mem))).
Proof. exact raw_scan_exact. Qed.

(* length-choice clause where it is a theorem: Greedy kind (inputs within the window) and raw path report the
   leftmost-first length; raw spans are positive and inside the input *)
Theorem C03_greedy_length_leftmost_first :
  forall use_sp d mem max_nb,
    plain (s_mods d) -> atoms_ok d -> s_kind d = KGreedy -> (exists q, s_pre d = Some q) ->
    nlen mem <= MAX_SPLIT_MATCH_LENGTH ->
    Forall (fun y => hd_error (Lens (flags_of (s_mods d)) mem (s_hir d) (fst y)) = Some (snd y))
           (ac_scan use_sp d mem max_nb).
Proof. exact greedy_length_leftmost_first. Qed.

Theorem C03_raw_spans_and_choice :
  forall md h mem max_nb,
    plain md -> non_nullable md mem h -> nlen mem < max_nb ->
    Forall (fun y => 0 < snd y /\ fst y + snd y <= nlen mem
                     /\ hd_error (Lens (flags_of md) mem h (fst y)) = Some (snd y))
           (raw_scan md h mem max_nb).
Proof. exact raw_spans_and_choice. Qed.

(* widen_correct: matching the widened HIR on the raw bytes = matching the HIR under the wide reading
   of the reference semantics, for every HIR without \b / \B, every input, every offset: same ends
   in the same priority order *)
Theorem C03_widen_correct :
  forall fl, wide fl = false -> forall mem h, has_word_boundary h = false ->
  forall i, ends fl mem (widen_hir h) i
            = ends {| nocase := nocase fl; dot_all := dot_all fl; wide := true |} mem h i.
Proof. exact widen_correct. Qed.

(* hence the validators of a wide string search the original HIR under the wide reading *)
Theorem C03_wide_validator_fwd :
  forall md h mt mem s lim, is_wide_mt mt = true -> has_word_boundary h = false ->
    dfa_fwd md h mt mem s lim = lf_end (wide_flags_of md) mem h s lim.
Proof. exact wide_dfa_fwd. Qed.

Theorem C03_wide_validator_rev :
  forall md h mt mem lo e, is_wide_mt mt = true -> has_word_boundary h = false -> lo <= e ->
    dfa_rev md h mt mem lo e = rev_min_start (wide_flags_of md) mem h lo e.
Proof. exact wide_dfa_rev. Qed.

(* known findings are real *)
Theorem C03_start_position_refuted :
  In 0 (starts_spec (flags_of md_re) m_95 h_95r)
  /\ ~ In 0 (map fst (model_scan d_95r m_95 1000))
  /\ kf_start_position d_95r m_95 1000 = true.
Proof. exact start_position_regex_refuted. Qed.

Theorem C03_fullword_single_length_refuted :
  members_at md_fw h_fw m_fw 1 = ([2], [])
  /\ model_scan d_fw m_fw 1000 = []
  /\ kf_fullword_other_length md_fw h_fw m_fw = true.
Proof. exact fullword_single_length_refuted. Qed.

Theorem C03_nocase_negated_class_pinned_refuted :
  ends (flags_of md_nc) [97;98;99] h_nc 0 = []
  /\ model_scan (d_nc None) [97;98;99] 1000 = [(0, 1); (1, 1); (2, 1)]
  /\ model_scan (d_nc (Some h_nc)) [97;98;99] 1000 = [(2, 1)].
Proof. exact nocase_negated_class_pinned_refuted. Qed.

Theorem C03_wide_rev_context_refuted :
  members_at md_wrc h_wrc m_wrc 4 = ([], [2])
  /\ model_scan d_wrc m_wrc 1000 = [(2, 4)]
  /\ kf_wide_rev_context d_wrc m_wrc = true.
Proof. exact wide_rev_context_refuted. Qed.

Theorem C03_length_by_arrival_refuted :
  Lens (flags_of md_hex) w_len h_len 0 = [8; 6; 4]
  /\ model_scan d_len w_len 1000 = [(0, 6)]
  /\ len_choice_ok [8; 6; 4] 6 = false
  /\ kf_len_arrival d_len (Lens (flags_of md_hex) w_len h_len) w_len = true.
Proof. exact length_by_arrival_refuted. Qed.

Theorem C03_empty_class_pinned_refuted :
  starts_spec (flags_of md_re) [97;98] h_ec = [] /\ model_scan d_ec [97;98] 1000 = [(0, 2)].
Proof. exact empty_class_pinned_refuted. Qed.

(* non-vacuity *)
Example C03_widen_example :
  has_word_boundary h_raw = false
  /\ ends (flags_of md_re) [97;0;98;0;98;0;99;0] (widen_hir h_raw) 0 = [8]
  /\ ends (wide_flags_of md_re) [97;0;98;0;98;0;99;0] h_raw 0 = [8].
Proof. vm_compute. repeat split. Qed.

Example C03_raw_example :
  plain md_re /\ ends (flags_of md_re) [120;97;98;98;99;97;98;99] h_raw 8 = []
  /\ raw_scan md_re h_raw [120;97;98;98;99;97;98;99] 1000 = [(1, 4); (5, 3)].
Proof. exact raw_example_hyps. Qed.

Example C03_greedy_example :
  plain md_re /\ atoms_ok d_gr /\ kind_ok d_gr
  /\ model_scan d_gr [120;49;97;98;50;97;98;120;97;98] 1000 = [(0, 10)].
Proof. exact greedy_example_hyps. Qed.

Print Assumptions C03_ac_scan_ascending.
Print Assumptions C03_greedy_sound.
Print Assumptions C03_atomized_sound.
Print Assumptions C03_atomized_complete.
Print Assumptions C03_raw_scan_exact.
Print Assumptions C03_greedy_length_leftmost_first.
Print Assumptions C03_raw_spans_and_choice.
Print Assumptions C03_widen_correct.
Print Assumptions C03_wide_validator_fwd.
Print Assumptions C03_wide_validator_rev.
Print Assumptions C03_start_position_refuted.
Print Assumptions C03_fullword_single_length_refuted.
Print Assumptions C03_nocase_negated_class_pinned_refuted.
Print Assumptions C03_empty_class_pinned_refuted.
Print Assumptions C03_length_by_arrival_refuted.
Print Assumptions C03_wide_rev_context_refuted.
Print Assumptions C03_offsets_distinct.
Print Assumptions C03_one_per_offset.
