(* Properties/C03.v — pinned statements only. *)
From Boreal Require Import Base.Prelude Spec.Regex Model.Widen Model.Validator Model.Raw Model.HirScan
  Proofs.HexScanProofs.
From Coq Require Import Sorted.

(* Ordered, one match per offset, for every regex string that goes through the Aho-Corasick pass. *)
Theorem C03_ac_scan_ascending :
  forall use_sp d mem max_nb,
    StronglySorted (fun a b => fst a < fst b) (ac_scan use_sp d mem max_nb).
Proof. exact ac_scan_ascending. Qed.

Print Assumptions C03_ac_scan_ascending.
