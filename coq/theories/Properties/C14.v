(* Properties/C14.v — pinned statements only. *)
From Boreal Require Import Base.Prelude Base.ListX Base.Bytes Model.Literals Model.AcScan Model.Limits
  Spec.TextSpec Model.TextCase Proofs.LimitsProofs Proofs.TextMain Proofs.LimitsRecord Proofs.LimitsPrefix Proofs.LimitsData.

(* limit: for every rule set, every region layout, every matcher kind (atom path and raw path), no
   string collects more than string_max_nb_matches matches *)
Theorem C14_limit_fragmented :
  forall prm vars regions,
    Forall (fun vm => nlen vm <= p_max_nb_matches prm) (scan_fragmented prm vars regions).
Proof. exact limit_fragmented. Qed.

Theorem C14_limit_direct :
  forall prm vars mem, Forall (fun vm => nlen vm <= p_max_nb_matches prm) (scan_direct prm vars mem).
Proof. exact limit_direct. Qed.

(* the pinned raw loop exceeded the limit over several regions (DESIGN 9.11, fixed) *)
Theorem C14_raw_limit_pinned_refuted :
  nlen (fold_left (fun vm rg => scan_single_variable_pinned prm_lim2 rg always_matcher vm) three_regions []) = 3
  /\ nlen (fold_left (fun vm rg => scan_single_variable prm_lim2 rg always_matcher vm) three_regions []) = 2.
Proof. exact raw_limit_pinned_refuted. Qed.

(* records: every reported match was built by StringMatch::new on one fetched region: base = region
   start, data = first min(length, match_max_length) bytes at its offset *)
Theorem C14_record_built :
  forall prm var regions x, In x (scan_var_fragmented prm var regions) ->
    exists r, In r regions /\ f_fail r = false
              /\ built_on prm {| rg_start := f_start r; rg_mem := f_mem r |} x.
Proof. exact scan_var_fragmented_built. Qed.

Theorem C14_record_fields :
  forall prm rg x, built_on prm rg x ->
    sm_base x = rg_start rg
    /\ sm_data x = ntake (N.min (sm_len x) (p_match_max_length prm)) (ndrop (sm_off x) (rg_mem rg)).
Proof. exact built_on_fields. Qed.

(* the data a record carries is never longer than match_max_length nor than the match itself: every
   matcher kind (no contract on the matcher needed), every region layout, every string of the set *)
Theorem C14_record_data_bounded :
  forall prm var regions x, In x (scan_var_fragmented prm var regions) ->
    nlen (sm_data x) <= p_match_max_length prm /\ nlen (sm_data x) <= sm_len x.
Proof. exact record_data_bounded. Qed.

Theorem C14_record_data_bounded_all :
  forall prm vars regions,
    Forall (Forall (fun x => nlen (sm_data x) <= p_match_max_length prm /\ nlen (sm_data x) <= sm_len x))
           (scan_fragmented prm vars regions).
Proof. exact record_data_bounded_all. Qed.

(* the record statement in full — positive length, inside the fetched region whose base the match
   carries, data = the first min(length, match_max_length) bytes found there.
   `_partial`: proved for EVERY matcher under the span contract `matcher_spans_ok` (process_ac_match on a
   confirmed in-region candidate and find_next_match_at return spans s < e <= |mem|); the contract is
   proved below for text strings.  Missing: the contract for the Atomized validators and the raw
   regex matcher (their models live in Model/Validator.v / Model/Raw.v with their own scan driver,
   Proofs/ValidatorProofs.v `process_bound`; they are not instances of Model/AcScan.v's `matcher`
   record yet). *)
Theorem C14_record_partial :
  forall prm var regions x, matcher_spans_ok var ->
    In x (scan_var_fragmented prm var regions) ->
    exists r, In r regions /\ f_fail r = false /\ sm_base x = f_start r
      /\ 0 < sm_len x /\ sm_off x + sm_len x <= nlen (f_mem r)
      /\ sm_data x = slice (sm_off x) (sm_off x + N.min (sm_len x) (p_match_max_length prm)) (f_mem r).
Proof. exact record_faithful_spans. Qed.

(* text strings (MatcherKind::Literals), every well-formed declaration, direct and fragmented: no hypothesis left *)
Theorem C14_record_text :
  forall prm d regions x, wf_decl d = true ->
    In x (scan_var_fragmented prm (text_matcher d) regions) ->
    exists r, In r regions /\ f_fail r = false /\ sm_base x = f_start r
      /\ 0 < sm_len x /\ sm_off x + sm_len x <= nlen (f_mem r)
      /\ sm_data x = slice (sm_off x) (sm_off x + N.min (sm_len x) (p_match_max_length prm)) (f_mem r).
Proof. exact record_faithful_text. Qed.

Theorem C14_text_spans_ok : forall d, wf_decl d = true -> matcher_spans_ok (text_matcher d).
Proof. exact text_spans_ok. Qed.

(* open finding C14-nullable-regex-zero-length: the contract is needed — a raw matcher returning the
   empty span (a regex that can match the empty string) is recorded with zero-length matches *)
Theorem C14_raw_zero_length_refuted :
  map (fun x => (sm_off x, sm_len x))
      (scan_var_direct {| p_match_max_length := 512; p_max_nb_matches := 1000 |} empty_span_matcher [97; 97; 98])
  = [(0, 0); (1, 0); (2, 0)]
  /\ ~ matcher_spans_ok empty_span_matcher.
Proof. exact raw_zero_length_refuted. Qed.

(* the contract is satisfiable: a concrete xor wide declaration meets it *)
Definition ex_span_d : tdecl :=
  {| t_text := [97;98;99]; t_ascii := false; t_wide := true; t_nocase := false; t_fullword := true;
     t_xor := Some (1, 200); t_b64 := None |}.
Example C14_spans_example : matcher_spans_ok (text_matcher ex_span_d).
Proof. exact (text_spans_ok ex_span_d eq_refl). Qed.

(* prefix, raw path: over any sequence of regions the limited list is the first `lim` matches of the
   unlimited one (`big` = any bound the unlimited run does not reach) *)
Theorem C14_prefix_raw :
  forall prm big (rgs : list (mregion * matcher)) vm,
    p_max_nb_matches prm <= big ->
    nlen (fold_left (fun vm rv => scan_single_variable (prm_unl prm big) (fst rv) (snd rv) vm) rgs vm) < big ->
    fold_left (fun vm rv => scan_single_variable prm (fst rv) (snd rv) vm) rgs (ntake (p_max_nb_matches prm) vm)
    = ntake (p_max_nb_matches prm)
            (fold_left (fun vm rv => scan_single_variable (prm_unl prm big) (fst rv) (snd rv) vm) rgs vm).
Proof. exact raw_regions_prefix. Qed.

(* prefix, atom path: for every matcher whose process_ac_match does not read start_position
   (MatcherKind::Literals), over any regions with pairwise distinct starts, the limited list is the
   first `lim` matches of the unlimited one — as records, not only as offsets *)
Theorem C14_prefix_ac_general :
  forall prm big var regions, sp_indep var -> p_max_nb_matches prm <= big ->
    nlen (scan_var_fragmented (prm_unl prm big) var regions) < big ->
    NoDup (map f_start regions) ->
    scan_var_fragmented prm var regions
    = ntake (p_max_nb_matches prm) (scan_var_fragmented (prm_unl prm big) var regions).
Proof. exact prefix_ac_fragmented. Qed.

Theorem C14_prefix_ac :
  forall prm big d regions, p_max_nb_matches prm <= big ->
    nlen (scan_var_fragmented (prm_unl prm big) (text_matcher d) regions) < big ->
    NoDup (map f_start regions) ->
    scan_var_fragmented prm (text_matcher d) regions
    = ntake (p_max_nb_matches prm) (scan_var_fragmented (prm_unl prm big) (text_matcher d) regions).
Proof. exact prefix_ac_text. Qed.

(* the hypotheses are satisfiable (overlapping matches over two regions, limit 3 inside the second) *)
Example C14_prefix_example :
  let d := {| t_text := [97;97]; t_ascii := true; t_wide := false; t_nocase := false; t_fullword := false;
              t_xor := None; t_b64 := None |} in
  let regions := [ {| f_start := 0; f_mem := [97;97;97]; f_fail := false; f_described := 3 |};
                   {| f_start := 50; f_mem := [97;97;97;97]; f_fail := false; f_described := 4 |} ] in
  (nlen (scan_var_fragmented (prm_unl prm_lim2 100) (text_matcher d) regions) <? 100) = true
  /\ map (fun x => (sm_base x, sm_off x)) (scan_var_fragmented (prm_unl prm_lim2 100) (text_matcher d) regions)
     = [(0,0); (0,1); (50,0); (50,1); (50,2)]
  /\ map (fun x => (sm_base x, sm_off x))
         (scan_var_fragmented {| p_match_max_length := 512; p_max_nb_matches := 3 |} (text_matcher d) regions)
     = [(0,0); (0,1); (50,0)].
Proof. vm_compute. repeat split. Qed.

Example C14_limit_example :
  map (fun vm => nlen vm) (scan_direct prm_lim2 [text_matcher
     {| t_text := [97]; t_ascii := true; t_wide := false; t_nocase := false; t_fullword := false;
        t_xor := None; t_b64 := None |}] [97;97;97;97;97]) = [2].
Proof. vm_compute. reflexivity. Qed.

Print Assumptions C14_limit_fragmented.
Print Assumptions C14_limit_direct.
Print Assumptions C14_raw_limit_pinned_refuted.
Print Assumptions C14_record_built.
Print Assumptions C14_record_fields.
Print Assumptions C14_record_partial.
Print Assumptions C14_record_text.
Print Assumptions C14_text_spans_ok.
Print Assumptions C14_raw_zero_length_refuted.
Print Assumptions C14_prefix_raw.
Print Assumptions C14_prefix_ac_general.
Print Assumptions C14_prefix_ac.
Print Assumptions C14_record_data_bounded.
Print Assumptions C14_record_data_bounded_all.
