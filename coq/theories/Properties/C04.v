(* Properties/C04.v — pinned statements only. *)
From Boreal Require Import Base.Prelude Base.Res Model.Eval Spec.CondSem Proofs.SemProofs Proofs.AccumOrder.
From Coq Require Import Permutation.

(* With the string matches of the scan available, the evaluator (early exits, accumulators,
   clamps, occurrence indexes, bound identifiers) computes exactly the declarative three-valued
   semantics, for every well-formed condition, selected string and identifier stack. *)
Theorem C04_eval_eq_sem :
  forall (M : list (list smatch)) prev ext fsz mem e sel stack,
    wf_expr ext (length M) (length prev) e = true -> sel_ok' M sel ->
    eval (envM M prev ext fsz mem) sel stack e = to_res (sem (qM M prev ext fsz mem) sel stack e).
Proof. exact eval_eq_sem. Qed.

(* a rule matches iff its condition is defined and true; an undefined condition does not match *)
Theorem C04_rule_verdict :
  forall (M : list (list smatch)) prev ext fsz mem cond,
    wf_expr ext (length M) (length prev) cond = true ->
    eval_rule (envM M prev ext fsz mem) cond = Ok (sem_rule (qM M prev ext fsz mem) cond).
Proof. exact rule_verdict_sem. Qed.

(* evaluation of a well-formed condition neither panics nor asks for matches it already has *)
Theorem C04_eval_total :
  forall (M : list (list smatch)) prev ext fsz mem e sel stack,
    wf_expr ext (length M) (length prev) e = true -> sel_ok' M sel ->
    eval (envM M prev ext fsz mem) sel stack e <> Panic /\ eval (envM M prev ext fsz mem) sel stack e <> Needed.
Proof. exact eval_never_panics. Qed.

(* the accumulators against counting, for every list of defined-or-undefined operand values *)
Theorem C04_and_is_forall : forall os, and_loop false (map to_res os) = Ok (VBool (forallb holds os)).
Proof. exact and_loop_sem. Qed.
Theorem C04_or_is_exists : forall os, or_loop false (map to_res os) = Ok (VBool (existsb holds os)).
Proof. exact or_loop_sem. Qed.
Theorem C04_at_least_is_count : forall os n, 1 <= n ->
  for_loop (FNum n) 0 (map to_res os) = Ok (VBool (n <=? count_true (map holds os))).
Proof. exact for_loop_num_sem. Qed.
Theorem C04_all_is_count : forall os,
  for_loop FAll 0 (map to_res os) = Ok (VBool (count_true (map holds os) =? nlen (map holds os))).
Proof. exact for_loop_all_sem. Qed.
Theorem C04_none_is_count : forall os,
  for_loop FNone 0 (map to_res os) = Ok (VBool (count_true (map holds os) =? 0)).
Proof. exact for_loop_none_sem. Qed.

(* ... hence the early exits never make the answer depend on where the deciding operand stands: any
   reordering of the (defined or undefined) operand values gives the same answer *)
Theorem C04_and_order : forall os os', Permutation os os' ->
  and_loop false (map to_res os) = and_loop false (map to_res os').
Proof. exact and_loop_order. Qed.
Theorem C04_or_order : forall os os', Permutation os os' ->
  or_loop false (map to_res os) = or_loop false (map to_res os').
Proof. exact or_loop_order. Qed.
Theorem C04_at_least_order : forall os os' n, 1 <= n -> Permutation os os' ->
  for_loop (FNum n) 0 (map to_res os) = for_loop (FNum n) 0 (map to_res os').
Proof. exact for_loop_num_order. Qed.
Theorem C04_all_order : forall os os', Permutation os os' ->
  for_loop FAll 0 (map to_res os) = for_loop FAll 0 (map to_res os').
Proof. exact for_loop_all_order. Qed.
Theorem C04_none_order : forall os os', Permutation os os' ->
  for_loop FNone 0 (map to_res os) = for_loop FNone 0 (map to_res os').
Proof. exact for_loop_none_order. Qed.

(* non-vacuity: a quantified condition over two strings with an undefined operand *)
Example C04_example :
  let M := [[{| m_base := 0; m_off := 0; m_len := 2 |}]; []] in
  let e := EAnd [EFor (KExpr false) (EInt 1) [0%nat; 1%nat] (EVar None);
                 EUn UNot (EBin OEq (EReadInt U8 (EInt 1000)) (EInt 0))] in
  wf_expr [] 2 0 e = true
  /\ eval (envM M [] [] (Some 3) (Some [97; 98; 99])) None [] e = Ok (VBool false)
  /\ sem (qM M [] [] (Some 3) (Some [97; 98; 99])) None [] e = Some (VBool false).
Proof. vm_compute. repeat split. Qed.

(* binary64 arithmetic: 0.1 + 0.2 is not 0.3 but is within f64::EPSILON of it; an integer is converted
   before a mixed comparison (2^53 + 1 rounds to 2^53); a comparison with NaN (0.0 / 0) is false and
   NaN is a true truth value; and a regex operand *)
Example C04_float_example :
  let f01 := SpecFloat.S754_finite false 7205759403792794 (-56) in
  let f02 := SpecFloat.S754_finite false 7205759403792794 (-55) in
  let f03 := SpecFloat.S754_finite false 5404319552844595 (-54) in
  let two53 := SpecFloat.S754_finite false 4503599627370496 1 in
  let nan := EBin ODiv (EDouble (SpecFloat.S754_zero false)) (EInt 0) in
  let ev e := eval (envM [] [] [] (Some 0) (Some [])) None [] e in
  ev (EBin OEq (EBin OAdd (EDouble f01) (EDouble f02)) (EDouble f03)) = Ok (VBool true)
  /\ ev (EBin OLt (EDouble f03) (EBin OAdd (EDouble f01) (EDouble f02))) = Ok (VBool true)
  /\ ev (EBin OGt (EInt 9007199254740993) (EDouble two53)) = Ok (VBool false)
  /\ ev (EBin OLe nan nan) = Ok (VBool false)
  /\ ev (EAnd [nan; EBool true]) = Ok (VBool true)
  /\ ev (EUn (UMatches true false (Hir.NConcat [Hir.NLit 97; Hir.NRep Hir.NDot Regex.OneOrMore true; Hir.NLit 99]))
            (EBytes [120; 65; 98; 98; 67])) = Ok (VBool true).
Proof. vm_compute. repeat split. Qed.

Print Assumptions C04_eval_eq_sem.
Print Assumptions C04_rule_verdict.
Print Assumptions C04_eval_total.
Print Assumptions C04_and_is_forall.
Print Assumptions C04_or_is_exists.
Print Assumptions C04_at_least_is_count.
Print Assumptions C04_all_is_count.
Print Assumptions C04_none_is_count.
Print Assumptions C04_and_order.
Print Assumptions C04_or_order.
Print Assumptions C04_at_least_order.
Print Assumptions C04_all_order.
Print Assumptions C04_none_order.
