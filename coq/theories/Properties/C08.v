(* Properties/C08.v — pinned statements only.  What is proved is the stack-depth argument of C08; the rest of
   the property (no panic inside combinators, spans, diagnostics, running time) is exploration, see notes/C08.md. *)
From Boreal Require Import Base.Prelude Base.ConstsParser Model.CallGraphCheck Model.CallGraph
     Proofs.CallGraphProofs Proofs.CallGraphFlow Proofs.CallGraphInst Proofs.CallGraphAst.

(* The verified checker, for every graph: if the call graph without its guarded functions is acyclic (rank
   certificate) then every call chain that respects the guards (at most limit+1 active functions per counter
   class) has at most depth_bound functions. *)
Theorem C08_checker_sound :
  forall g, guards_cut_all_cycles g = true ->
  forall l0 l1 l2 l3 chain, is_path g chain = true -> respects g l0 l1 l2 l3 chain ->
    (length chain <= depth_bound g l0 l1 l2 l3)%nat.
Proof. exact depth_bounded. Qed.

(* The call graph extracted from /repo on this run passes the checker ... *)
Theorem C08_guards_cut_all_cycles : guards_cut_all_cycles CallGraph.graph = true.
Proof. exact graph_checked. Qed.

(* ... hence the depth of parser + compiler recursion is bounded for every input text and every parameter
   setting (le, ls: parser limits; lc: max_condition_depth; li: MAX_INCLUDE_DEPTH). *)
Theorem C08_depth_bounded :
  forall le ls lc li chain,
    is_path CallGraph.graph chain = true -> respects CallGraph.graph le ls lc li chain ->
    (length chain <= depth_bound CallGraph.graph le ls lc li)%nat.
Proof. exact graph_depth_bounded. Qed.

(* The same bound without a per-class hypothesis on the chain: all that is said of a chain is that guards act as
   guards — a guarded function that finds `counter >= limit` calls nothing — the counter on entry being the number
   of guarded functions of the class below on the stack (which is what the next three theorems establish function
   by function). *)
Theorem C08_depth_bounded_exec :
  forall le ls lc li chain,
    is_path CallGraph.graph chain = true -> guards_pass CallGraph.graph (lim4 le ls lc li) [] chain ->
    (length chain <= depth_bound CallGraph.graph le ls lc li)%nat.
Proof. exact graph_depth_bounded_exec. Qed.

(* C08_counter_balanced, no longer an assumption: for every counter-guarded function of this tree
   (boolean_expression, primary_expression, hex tokens, regex alternative, compile_expression), on every path of
   its control-flow graph as extracted on this run, for every value c of the counter on entry, an Ok exit hands
   back a carrier whose counter is c ... *)
Theorem C08_counter_balanced :
  forall p, In p (cg_progs CallGraph.graph) ->
  forall c k e n v, reach p c k e -> nth_error (gp_nodes p) k = Some n -> gn_instr n = IRetOk v ->
    elook e v = Some c.
Proof. exact graph_counter_balanced. Qed.

(* ... the counter of a carrier never goes below c ... *)
Theorem C08_counter_never_below :
  forall p, In p (cg_progs CallGraph.graph) ->
  forall c k e n v d, reach p c k e -> nth_error (gp_nodes p) k = Some n -> elook (gn_cert n) v = Some d ->
    exists m, elook e v = Some m /\ (c <= m)%nat.
Proof. exact graph_counter_never_below. Qed.

(* ... every call site hands its callees at least c + call_delta, and the call sites where call_delta = 0 (counter
   not yet incremented, or already restored) are edges of the function's UNGUARDED copy in the graph the depth
   theorem is about (so a restore placed before a later recursive call is a guard-free cycle). *)
Theorem C08_call_sites :
  forall p, In p (cg_progs CallGraph.graph) ->
  forall c k e n cs srcs s d, reach p c k e -> nth_error (gp_nodes p) k = Some n -> gn_instr n = ICall cs srcs ->
    In s srcs -> elook (gn_cert n) s = Some d ->
    exists m, elook e s = Some m /\ (c + call_delta (gn_cert n) srcs <= m)%nat.
Proof. exact graph_call_counter. Qed.

Theorem C08_uncovered_calls_are_unguarded :
  forall p n cs srcs callee, In p (cg_progs CallGraph.graph) -> In n (gp_nodes p) -> gn_instr n = ICall cs srcs ->
    In callee cs ->
    if Nat.leb 1 (call_delta (gn_cert n) srcs) then is_edge CallGraph.graph (gp_fn p) callee = true
    else exists f', gp_copy p = Some f' /\ guarded CallGraph.graph f' = false /\ is_edge CallGraph.graph f' callee = true.
Proof. exact graph_uncovered_in_copy. Qed.

(* the soundness lemma of the `balanced` part of the checker, for any function graph *)
Theorem C08_balanced_sound :
  forall p, check_prog p = true ->
  forall c k e, reach p c k e -> exists n, nth_error (gp_nodes p) k = Some n /\ agrees c (gn_cert n) e.
Proof. exact cert_sound. Qed.

Theorem C08_guard_classes : map snd (cg_guards CallGraph.graph) = [0; 0; 1; 1; 2; 3].
Proof. exact graph_guard_classes. Qed.

(* Known finding C08-ast-drop-recursion (open): the guards bound the recursion of the *parser*, not the depth of the
   tree it returns — no function of the nesting (guard depth) bounds the height of the tree, because operator
   chains are folded by loops.  The drop glue of the tree recurses on that height. *)
Theorem C08_ast_depth_unguarded_refuted :
  ~ (exists f : nat -> nat, forall e, (height e <= f (nesting e))%nat).
Proof. exact depth_bound_by_limit_refuted. Qed.

(* non-vacuity: an actual recursive chain of the graph (boolean_expression ... primary_expression) is a path,
   and it respects the default limits *)
Example C08_example_chain :
  (let chain := match cg_guards CallGraph.graph with
                | (u, _) :: _ => [u; hd 0 (succs CallGraph.graph u)]
                | [] => []
                end in
   Nat.leb 2 (length chain) && is_path CallGraph.graph chain
   && Nat.eqb (guard_count CallGraph.graph chain) 1) = true.
Proof. vm_compute. reflexivity. Qed.

(* non-vacuity of the balance theorems: five functions have a flow, each has an Ok exit and a call site that
   runs with the increment in force, and the checker rejects a function that restores too early *)
Example C08_example_flows :
  (Nat.eqb (length (cg_progs CallGraph.graph)) 5
   && forallb (fun p => existsb (fun n => match gn_instr n with IRetOk _ => true | _ => false end) (gp_nodes p)
                        && existsb (fun n => match gn_instr n with
                                             | ICall _ srcs => Nat.leb 1 (call_delta (gn_cert n) srcs)
                                             | _ => false end) (gp_nodes p))
              (cg_progs CallGraph.graph)) = true.
Proof. vm_compute. reflexivity. Qed.

(* f: inc; call f; dec; ret_ok — accepted.  Same with the `dec` before the call: the flow is still balanced but
   the call is made with the counter restored, there is no unguarded copy to hold it: rejected. *)
Example C08_example_balance_checker :
  (guards_cut_all_cycles
     {| cg_adj := [(0, [0])]; cg_guards := [(0, 0)];
        cg_progs := [ {| gp_fn := 0; gp_copy := None; gp_params := [0%nat];
                         gp_nodes := [ {| gn_instr := IInc 0; gn_succs := [1%nat]; gn_cert := [(0, 0)]%nat |};
                                       {| gn_instr := ICall [0] [0%nat]; gn_succs := [2%nat]; gn_cert := [(0, 1)]%nat |};
                                       {| gn_instr := IDec 0; gn_succs := [3%nat]; gn_cert := [(0, 1)]%nat |};
                                       {| gn_instr := IRetOk 0; gn_succs := []; gn_cert := [(0, 0)]%nat |} ] |} ] |}
   && negb (guards_cut_all_cycles
     {| cg_adj := [(0, [0])]; cg_guards := [(0, 0)];
        cg_progs := [ {| gp_fn := 0; gp_copy := None; gp_params := [0%nat];
                         gp_nodes := [ {| gn_instr := IInc 0; gn_succs := [1%nat]; gn_cert := [(0, 0)]%nat |};
                                       {| gn_instr := IDec 0; gn_succs := [2%nat]; gn_cert := [(0, 1)]%nat |};
                                       {| gn_instr := ICall [0] [0%nat]; gn_succs := [3%nat]; gn_cert := [(0, 0)]%nat |};
                                       {| gn_instr := IRetOk 0; gn_succs := []; gn_cert := [(0, 0)]%nat |} ] |} ] |})
   (* an Ok exit that forgets the decrement is not balanced *)
   && negb (check_prog {| gp_fn := 0; gp_copy := None; gp_params := [0%nat];
                          gp_nodes := [ {| gn_instr := IInc 0; gn_succs := [1%nat]; gn_cert := [(0, 0)]%nat |};
                                        {| gn_instr := IRetOk 0; gn_succs := []; gn_cert := [(0, 1)]%nat |} ] |})) = true.
Proof. vm_compute. reflexivity. Qed.

(* the bound with the default limits of this tree (50 / 30 / 40 / 16) *)
Example C08_default_bound : Nat.leb default_bound 4000 = true.
Proof. vm_compute. reflexivity. Qed.

Print Assumptions C08_checker_sound.
Print Assumptions C08_guards_cut_all_cycles.
Print Assumptions C08_depth_bounded.
Print Assumptions C08_guard_classes.
Print Assumptions C08_depth_bounded_exec.
Print Assumptions C08_counter_balanced.
Print Assumptions C08_counter_never_below.
Print Assumptions C08_call_sites.
Print Assumptions C08_uncovered_calls_are_unguarded.
Print Assumptions C08_balanced_sound.
Print Assumptions C08_ast_depth_unguarded_refuted.
