(* Properties/C08.v — pinned statements only.  What is proved is the stack-depth argument of C08; the rest of
   the property (no panic inside combinators, spans, diagnostics, running time) is exploration, see notes/C08.md. *)
From Boreal Require Import Base.Prelude Base.ConstsParser Model.CallGraphCheck Model.CallGraph
     Proofs.CallGraphProofs Proofs.CallGraphInst Proofs.CallGraphAst.

(* The verified checker, for every graph: if the call graph without its guarded functions is acyclic (rank
   certificate) then every call chain that respects the guards (at most limit+1 active functions per counter
   class) has at most depth_bound functions. *)
Theorem C08_checker_sound :
  forall g, guards_cut_all_cycles g = true ->
  forall l0 l1 l2 l3 chain, is_path g chain = true -> respects g l0 l1 l2 l3 chain ->
    (length chain <= depth_bound g l0 l1 l2 l3)%nat.
Proof. exact depth_bounded. Qed.

(* The call graph extracted from /repo on this run passes the checker ... *)
Theorem C08_guards_cut_all_cycles : guards_cut_all_cycles CallGraph.graph = true.
Proof. exact graph_checked. Qed.

(* ... hence the depth of parser + compiler recursion is bounded for every input text and every parameter
   setting (le, ls: parser limits; lc: max_condition_depth; li: MAX_INCLUDE_DEPTH). *)
Theorem C08_depth_bounded :
  forall le ls lc li chain,
    is_path CallGraph.graph chain = true -> respects CallGraph.graph le ls lc li chain ->
    (length chain <= depth_bound CallGraph.graph le ls lc li)%nat.
Proof. exact graph_depth_bounded. Qed.

Theorem C08_guard_classes : map snd (cg_guards CallGraph.graph) = [0; 0; 1; 1; 2; 3].
Proof. exact graph_guard_classes. Qed.

(* Known finding C08-ast-drop-recursion (open): the guards bound the recursion of the *parser*, not the depth of the
   tree it returns — no function of the nesting (guard depth) bounds the height of the tree, because operator
   chains are folded by loops.  The drop glue of the tree recurses on that height. *)
Theorem C08_ast_depth_unguarded_refuted :
  ~ (exists f : nat -> nat, forall e, (height e <= f (nesting e))%nat).
Proof. exact depth_bound_by_limit_refuted. Qed.

(* non-vacuity: an actual recursive chain of the graph (boolean_expression ... primary_expression) is a path,
   and it respects the default limits *)
Example C08_example_chain :
  (let chain := match cg_guards CallGraph.graph with
                | (u, _) :: _ => [u; hd 0 (succs CallGraph.graph u)]
                | [] => []
                end in
   Nat.leb 2 (length chain) && is_path CallGraph.graph chain
   && Nat.eqb (guard_count CallGraph.graph chain) 1) = true.
Proof. vm_compute. reflexivity. Qed.

(* the bound with the default limits of this tree (50 / 30 / 40 / 16) *)
Example C08_default_bound : Nat.leb default_bound 4000 = true.
Proof. vm_compute. reflexivity. Qed.

Print Assumptions C08_checker_sound.
Print Assumptions C08_guards_cut_all_cycles.
Print Assumptions C08_depth_bounded.
Print Assumptions C08_guard_classes.
Print Assumptions C08_ast_depth_unguarded_refuted.
