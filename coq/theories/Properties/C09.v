(* Properties/C09.v — pinned statements only.  Panic-freedom of the kernels this property owns: the evaluation of
   compiled module operations (array subscripts with negative / huge indexes, dictionary lookups, calls) and the
   entry-point / RVA translation arithmetic over attacker-controlled header integers.  (Evaluator, Memory, AcScan and
   validator kernels are proved under C04 / C11 / C01 / C02; hash/math argument clipping under C16.  The file-format
   parsers are explored, not modelled.) *)
From Coq Require Import String.
From Boreal Require Import Base.Prelude Base.Res Model.ModuleTypes Model.ModArgs
     Proofs.ModuleTypesProofs Proofs.ModArgsProofs.

(* evaluator/module.rs evaluate_ops: for any published value, operations and index / argument values *)
Theorem C09_ops_no_panic :
  forall ops v exprs, model_evaluate_ops v ops exprs <> Panic.
Proof. exact evaluate_ops_no_panic. Qed.

Theorem C09_module_expr_no_panic :
  forall ops v exprs, model_module_expr v ops exprs <> Panic.
Proof. exact module_expr_no_panic. Qed.

(* evaluator/entrypoint.rs: `va - nearest_section_va` never underflows, whatever the section table holds *)
Theorem C09_entrypoint_no_panic :
  forall h memory, model_pe_entry_point h memory <> Panic.
Proof. exact pe_entry_point_no_panic. Qed.

Theorem C09_pe_rva_to_file_offset_no_panic :
  forall secs va, model_pe_rva_to_file_offset secs va <> Panic.
Proof. exact pe_rva_to_file_offset_no_panic. Qed.

(* module/elf.rs entry_point + entrypoint.rs parse_elf: `entrypoint - addr` is guarded by the range test *)
Theorem C09_elf_entry_no_panic :
  forall h memory, model_elf_entry h memory <> Panic.
Proof. exact elf_entry_no_panic. Qed.

(* module/pe/utils.rs: offset re-alignment, `section_size - offset`, pe.rva_to_offset(x) for every i64 argument *)
Theorem C09_rva_to_offset_no_panic :
  forall mem_len h arg, model_rva_to_offset mem_len h arg <> Panic.
Proof. exact rva_to_offset_no_panic. Qed.

Theorem C09_rva_to_offset_in_bounds :
  forall mem_len secs realign va v, va_to_file_offset mem_len secs realign va = Ok (Some v) -> v < mem_len.
Proof. exact va_to_file_offset_in_bounds. Qed.

Theorem C09_max_section_file_offset_no_panic :
  forall secs mx, forallb section_u32 secs = true -> max_section_file_offset secs mx <> Panic.
Proof. exact max_section_file_offset_no_panic. Qed.

(* module/pe/version_info.rs entry walks: with the repaired loop (`Some(length) if length > 0`) the walk over
   attacker-declared lengths ends within end - offset + 1 iterations; the loop of the pinned tree does not (finding
   C09-version-info-zero-length, repaired in /repo), and the repair changes nothing when all lengths are positive *)
Theorem C09_version_info_walk_terminates :
  forall read fuel offset end_, (N.to_nat (end_ - offset) < fuel)%nat -> walk_fixed read fuel offset end_ <> None.
Proof. exact walk_fixed_terminates. Qed.

Theorem C09_version_info_walk_pinned_refuted :
  forall fuel, walk_pinned (fun _ => Some 0) fuel 0 1 = None.
Proof. exact walk_pinned_refuted. Qed.

Theorem C09_version_info_walk_fix_conservative :
  forall read fuel offset end_,
    (forall o len, read o = Some len -> 0 < len) ->
    walk_fixed read fuel offset end_ = walk_pinned read fuel offset end_.
Proof. exact walk_fixed_eq_pinned. Qed.

(* module/dotnet.rs TablesData::finalize: with the repaired bound the method ranges never index past the method
   table, for any TypeDef.MethodList values; the pinned loop did (finding C09-dotnet-method-range, repaired in /repo) *)
Theorem C09_dotnet_method_ranges_no_panic :
  forall classes_rev last len, finalize_methods true classes_rev last len <> Panic.
Proof. exact finalize_methods_fixed_no_panic. Qed.

Theorem C09_dotnet_method_ranges_pinned_refuted :
  finalize_methods false [Some 1000; Some 5] 29 29 = Panic.
Proof. exact finalize_methods_pinned_refuted. Qed.

Theorem C09_dotnet_method_ranges_fix_conservative :
  forall classes_rev last len,
    last <= len -> Forall (fun o => match o with Some idx => idx <= len | None => True end) classes_rev ->
    finalize_methods true classes_rev last len = finalize_methods false classes_rev last len.
Proof. exact finalize_methods_fix_conservative. Qed.

(* module/macho.rs: after the repair parsing a fat file never nests deeper than two frames, whatever the arch
   offsets are; the pinned code recursed without bound on a fat file that contains itself (finding
   C09-macho-fat-recursion: stack overflow, process abort; repaired in /repo) *)
Theorem C09_macho_fat_recursion_bounded :
  forall files pos fuel, macho_parse true files (S (S fuel)) false pos = Some tt.
Proof. exact macho_parse_fixed_bounded. Qed.

Theorem C09_macho_fat_recursion_pinned_refuted :
  forall fuel, macho_parse false (fun _ => MFat [0]) fuel false 0 = None
               /\ macho_parse false (fun _ => MFat [0]) fuel true 0 = None.
Proof. exact fat_depth_pinned_refuted. Qed.

(* non-vacuity: a section table on which the unchecked subtraction is actually exercised, and the hypothesis of the
   last theorem is satisfiable *)
Example C09_entrypoint_example :
  let secs := [{| s_va := 4096; s_vsize := 100; s_raw := 1024; s_rawsize := 512 |};
               {| s_va := 4294967295; s_vsize := 4294967295; s_raw := 4294967295; s_rawsize := 4294967295 |}] in
  model_pe_rva_to_file_offset secs 4100 = Ok (Some 1028)
  /\ model_pe_rva_to_file_offset secs 4294967295 = Ok (Some 4294967295)
  /\ forallb section_u32 secs = true.
Proof. vm_compute. repeat split. Qed.

Example C09_ops_example :
  model_evaluate_ops (VArray [VInteger 1; VInteger 2]) [OpSubscript] [PInteger (-1)] = Undef
  /\ model_evaluate_ops (VArray [VInteger 1; VInteger 2]) [OpSubscript] [PInteger 9223372036854775807] = Undef
  /\ model_evaluate_ops (VArray [VInteger 1; VInteger 2]) [OpSubscript] [PInteger 1] = Ok (VInteger 2).
Proof. vm_compute. repeat split. Qed.

Print Assumptions C09_ops_no_panic.
Print Assumptions C09_module_expr_no_panic.
Print Assumptions C09_entrypoint_no_panic.
Print Assumptions C09_pe_rva_to_file_offset_no_panic.
Print Assumptions C09_elf_entry_no_panic.
Print Assumptions C09_rva_to_offset_no_panic.
Print Assumptions C09_rva_to_offset_in_bounds.
Print Assumptions C09_max_section_file_offset_no_panic.
Print Assumptions C09_version_info_walk_terminates.
Print Assumptions C09_version_info_walk_pinned_refuted.
Print Assumptions C09_version_info_walk_fix_conservative.
Print Assumptions C09_dotnet_method_ranges_no_panic.
Print Assumptions C09_dotnet_method_ranges_pinned_refuted.
Print Assumptions C09_dotnet_method_ranges_fix_conservative.
Print Assumptions C09_macho_fat_recursion_bounded.
Print Assumptions C09_macho_fat_recursion_pinned_refuted.
