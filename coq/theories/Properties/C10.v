(* Properties/C10.v — pinned statements only. *)
From Boreal Require Import Base.Prelude Model.Wire Model.WireSchemas Model.WireCase Proofs.WireProofs Proofs.WireInst.
From Coq Require Import String.

(* Layer 1 — the codec, for every schema and value (no bound on size or nesting): what `encode` writes
   under a well-formed schema table, `decode` reads back, leaving the rest of the stream untouched. *)
Theorem C10_codec_roundtrip :
  forall e v s bs rest, wf_envb e = true -> wf_schemab s = true -> encode e v s = Some bs ->
    decode e (vdepth v) s (bs ++ rest) = Some (v, rest).
Proof. exact codec_roundtrip. Qed.

Theorem C10_codec_roundtrip_fuel :
  forall e, wf_envb e = true ->
  forall v s bs rest fuel, wf_schemab s = true -> encode e v s = Some bs -> (vdepth v <= fuel)%nat ->
    decode e fuel s (bs ++ rest) = Some (v, rest).
Proof. exact codec_roundtrip_fuel. Qed.

(* converse: the only byte string that decodes to v (leaving rest) is the encoding of v followed by rest *)
Theorem C10_codec_canonical :
  forall e, cwf_envb e = true ->
  forall fuel s bs v rest, cwf_schemab s = true -> byte_list bs -> decode e fuel s bs = Some (v, rest) ->
    exists a, encode e v s = Some a /\ bs = a ++ rest.
Proof. exact decode_encode. Qed.

(* Layer 2 — the tables translated from the source on this run: what every `serialize` writes (with the
   field each item is taken from) is what the matching `deserialize…` reads (with the field it ends up in). *)
Theorem C10_schemas_agree :
  forallb (fun t => opt_eqb schema_eqb (lookup t write_env) (lookup t read_env)) all_wire_types = true.
Proof. exact schemas_agree. Qed.

Theorem C10_schemas_wf : wf_envb write_env = true /\ closed_envb write_env = true.
Proof. exact (conj write_env_wf write_env_closed). Qed.

(* no declared field is silently dropped: `serialize` skips exactly the fields `deserialize` recomputes, and
   those are the reviewed list (automata, pools, function pointers, user data) *)
Theorem C10_unwritten_fields_are_the_rebuilt_ones :
  fields_table_eqb unwritten_fields rebuilt_fields && fields_table_eqb rebuilt_fields expected_rebuilt = true.
Proof. exact unwritten_fields_are_the_rebuilt_ones. Qed.

(* hence every wire type of boreal round-trips: written under the write tables, read under the read tables *)
Theorem C10_wire_roundtrip :
  forall t v bs rest fuel, encode write_env v (SRef t) = Some bs -> (vdepth v <= fuel)%nat ->
    decode read_env fuel (SRef t) (bs ++ rest) = Some (v, rest).
Proof. exact wire_roundtrip. Qed.

(* and so does a whole file: header written by to_bytes, checked by from_bytes_unchecked, trailing bytes ignored *)
Theorem C10_file_roundtrip :
  forall v file trailing fuel, to_bytes_model v = Some file -> (vdepth v <= fuel)%nat ->
    from_bytes_model fuel (file ++ trailing) = Some (v, trailing).
Proof. exact scanner_file_roundtrip. Qed.

(* saving a loaded scanner reproduces the file it was loaded from (byte identity), up to the ignored tail *)
Theorem C10_file_canonical :
  forall fuel file v rest, byte_list file -> from_bytes_model fuel file = Some (v, rest) ->
    exists body, to_bytes_model v = Some body /\ file = body ++ rest.
Proof. exact scanner_file_canonical. Qed.

(* Layer 3 — objects that are rebuilt instead of stored get the constructor arguments they were built with *)
Theorem C10_rebuild_params_agree : list_eqb site_eqb build_sites rebuild_sites = true.
Proof. exact rebuild_params_agree. Qed.

Theorem C10_rebuild_sites_equal : build_sites = rebuild_sites.
Proof. exact rebuild_sites_equal. Qed.

Theorem C10_dfa_overwritten_modifiers_unused :
  forallb (fun f => negb (existsb (String.eqb f) dfa_modifiers_read))
          (dfa_modifiers_overwritten_at_build ++ dfa_modifiers_overwritten_at_rebuild) = true.
Proof. exact dfa_overwritten_modifiers_unused. Qed.

(* the lazy DFAs of a validator, identified with what build_dfa is given (expressions, nocase, dot_all, direction),
   are the same whether the direction literals are taken from the construction code or from the reload code *)
Theorem C10_reload_same_automata :
  forall m v, validator_automata rebuild_sites m v = validator_automata build_sites m v.
Proof. exact reload_same_automata. Qed.

Theorem C10_reload_pinned_refuted :
  validator_automata pinned_rebuild_sites greedy_witness_modifiers greedy_witness
  <> validator_automata build_sites greedy_witness_modifiers greedy_witness.
Proof. exact reload_pinned_refuted. Qed.

(* module table used on reload: a module given with add_module is the one a saved import of its name resolves
   to, also when a built-in module has that name; names the user did not give resolve to the built-in *)
Theorem C10_user_module_overrides :
  forall builtins user n impl, mod_lookup n (deserialize_params builtins (user ++ [(n, impl)])) = Some impl.
Proof. exact user_module_overrides. Qed.

Theorem C10_builtin_module_kept :
  forall builtins user n, mod_lookup n (rev user) = None -> In n builtins ->
    mod_lookup n (deserialize_params builtins user) = Some 0.
Proof. exact builtin_module_kept. Qed.

(* finding 9.9 (fixed in /repo): with the pinned literal the agreement fails *)
Theorem C10_rebuild_params_pinned_refuted : list_eqb site_eqb build_sites pinned_rebuild_sites = false.
Proof. exact rebuild_params_pinned_refuted. Qed.

(* open finding C10-nan-external-not-saveable: a float external symbol is saveable exactly when it is not a NaN
   (kf class 1 = the value is a NaN); witness: f64::NAN *)
Theorem C10_float_symbol_saveable_iff_not_nan :
  forall bits, bits < two64 ->
    encode write_env (float_symbol bits) (SRef "ExternalValue"%string)
    = if is_nan bits then None else Some (float_tag :: le 8 bits).
Proof. exact float_symbol_saveable_iff_not_nan. Qed.

Theorem C10_nan_external_refuted :
  encode write_env (float_symbol quiet_nan_bits) (SRef "ExternalValue"%string) = None.
Proof. exact nan_external_refuted. Qed.

(* non-vacuity: a nested value of the translated Expression schema is encodable, so the hypotheses of
   C10_wire_roundtrip are satisfiable; the bytes are what boreal writes for `1 + filesize` *)
Example C10_expression_example :
  encode write_env
    (VCtor "Add"%string (VRec [("0"%string, VCtor "Integer"%string (VRec [("0"%string, VN 1)]));
                               ("1"%string, VCtor "Filesize"%string (VRec []))]))
    (SRef "Expression"%string) = Some [10; 3; 1; 0; 0; 0; 0; 0; 0; 0; 0].
Proof. vm_compute. reflexivity. Qed.

Print Assumptions C10_codec_roundtrip.
Print Assumptions C10_codec_roundtrip_fuel.
Print Assumptions C10_codec_canonical.
Print Assumptions C10_schemas_agree.
Print Assumptions C10_schemas_wf.
Print Assumptions C10_unwritten_fields_are_the_rebuilt_ones.
Print Assumptions C10_wire_roundtrip.
Print Assumptions C10_file_roundtrip.
Print Assumptions C10_file_canonical.
Print Assumptions C10_rebuild_params_agree.
Print Assumptions C10_rebuild_sites_equal.
Print Assumptions C10_dfa_overwritten_modifiers_unused.
Print Assumptions C10_reload_same_automata.
Print Assumptions C10_reload_pinned_refuted.
Print Assumptions C10_user_module_overrides.
Print Assumptions C10_builtin_module_kept.
Print Assumptions C10_rebuild_params_pinned_refuted.
Print Assumptions C10_float_symbol_saveable_iff_not_nan.
Print Assumptions C10_nan_external_refuted.
