(* Properties/C16.v — pinned statements only. *)
From Coq Require Import QArith.
From Boreal Require Import Base.Prelude Spec.MathSpec Spec.Digest Spec.Strtol Spec.RangeSpec Spec.PeriodicSpec
  Model.ModFuncs Model.HashMod Model.MathMod Model.StringMod Model.ModFuncsCase
  Proofs.ModFuncsProofs Proofs.ModFuncsFrag Proofs.ModFuncsToInt Proofs.ModFuncsMath Proofs.ModFuncsCrc Proofs.ModFuncsMath2 Proofs.ModFuncsAll Proofs.ModFuncsPeriodic.

(* ---- arguments: with i64 arguments the checked additions of get_args / offset_length_to_start_end never fail *)
Theorem C16_args_no_overflow : forall o n,
  (0 <= o <= i64max)%Z -> (0 <= n <= i64max)%Z ->
  start_end o n = Some (Z.to_N o, Z.to_N o + Z.to_N n).
Proof. exact start_end_total. Qed.

(* ---- hash.X(offset, size) over a byte slice, for every streaming digest d *)
Theorem C16_hash_range : forall d mem o n,
  (o <= i64max)%Z -> (n <= i64max)%Z ->
  hash_call d (Direct mem) [AInt o; AInt n] =
    if (o <? 0)%Z || (n <? 0)%Z || (Z.of_N (nlen mem) <=? o)%Z then RUndef
    else from_bytes d (firstn (N.to_nat (N.min (Z.to_N n) (nlen mem))) (skipn (Z.to_nat o) mem)).
Proof. exact hash_range. Qed.

Theorem C16_hash_literal_same : forall d mem m' o n bytes,
  (o <= i64max)%Z -> (n <= i64max)%Z ->
  clip_direct mem o n = Some bytes ->
  hash_call d (Direct mem) [AInt o; AInt n] = hash_call d m' [AStr bytes].
Proof. exact hash_literal_same. Qed.

(* ---- Memory::on_range *)
Theorem C16_on_range_no_panic : forall S (cb : S -> list N -> S) m start end_ s,
  on_range cb m start end_ s <> OrPanic.
Proof. exact on_range_no_panic. Qed.

Theorem C16_on_range_pinned_refuted :
  exists m start end_, on_range_pinned (fun (s : list N) d => s ++ d) m start end_ [] = OrPanic.
Proof. exact on_range_pinned_refuted. Qed.

(* a streaming callback sees, in one or several slices, exactly the bytes RangeSpec describes *)
Theorem C16_on_range_fragmented : forall S (cb : S -> list N -> S),
  (forall s a b, cb (cb s a) b = cb s (a ++ b)) -> (forall s, cb s [] = s) ->
  forall rs start end_ s, regions_ok rs -> start <= end_ ->
    on_range cb (Frag true rs) start end_ s = lift S cb s (spec_frag rs start (end_ - start)).
Proof. exact on_range_frag. Qed.

(* over adjacent, completely fetched regions those bytes are the clipped range of the concatenated data *)
Theorem C16_fragmented_adjacent : forall rs base start n, adjacent base rs -> base <= start ->
  spec_frag rs start n =
    if nlen (flat rs) <=? start - base then None
    else Some (takeN n (skipn (N.to_nat (start - base)) (flat rs))).
Proof. exact spec_frag_adjacent. Qed.

(* the digests the model runs with are streaming *)
Theorem C16_digests_streaming :
  (forall f, streaming (bytes_digest f)) /\ streaming checksum_d /\ streaming crc_d.
Proof. exact (conj bytes_digest_streaming (conj checksum_streaming crc_streaming)). Qed.

(* ---- cache: memoised = unmemoised for every call sequence *)
Theorem C16_cache_consistent : forall d m calls, run_cached d m [] calls = map (hash_call d m) calls.
Proof. exact cache_consistent. Qed.

(* ---- checksum32 *)
Theorem C16_checksum32 : forall l, from_bytes checksum_d l = RInt (Z.of_N (checksum32_ref l)).
Proof. exact checksum32_correct. Qed.

(* ---- CRC-32: byte-wise table-driven update (crc32fast's contract) = bit-wise reference *)
Theorem C16_crc32 : forall l, Forall (fun b => b < 256) l ->
  from_bytes crc_d l = RInt (Z.of_N (crc32_ref l)).
Proof. exact crc32_correct. Qed.

(* ---- hash over fragmented memory, for every streaming digest *)
Theorem C16_hash_fragmented : forall d rs o e,
  streaming d -> (forall st, d_update d st [] = st) -> regions_ok rs -> o <= e ->
  from_mem d (Frag true rs) o e =
    match spec_frag rs o (e - o) with Some t => from_bytes d t | None => RUndef end.
Proof. exact hash_fragmented. Qed.

(* ---- string.to_int = strtoll with full consumption, for every byte string and every base argument *)
Theorem C16_to_int : forall s b,
  to_int_call [AStr s] = of_opt_z (strtoll_full s 0) /\ to_int_call [AStr s; AInt b] = of_opt_z (strtoll_full s b).
Proof. exact (fun s b => conj (to_int_spec1 s) (to_int_spec2 s b)). Qed.

Theorem C16_to_int_pinned_refuted :
  to_int_pinned [AStr [48;120;49;48]; AInt 16] <> of_opt_z (strtoll_full [48;120;49;48] 16)
  /\ to_int_pinned [AStr [11;49;50]] <> of_opt_z (strtoll_full [11;49;50] 0).
Proof. exact to_int_pinned_refuted. Qed.

(* ---- streaming: any slicing of the bytes gives the digest state of the whole *)
Theorem C16_stream : forall slices,
  fold_left (md_update mean_d) slices (md_init mean_d) = md_update mean_d (md_init mean_d) (concat slices)
  /\ fold_left (md_update scc_d) slices (md_init scc_d) = md_update scc_d (md_init scc_d) (concat slices)
  /\ fold_left (md_update mc_d) slices (md_init mc_d) = md_update mc_d (md_init mc_d) (concat slices).
Proof. exact stream_all. Qed.

Theorem C16_stream_distribution : forall st a b, dist_update (dist_update st a) b = dist_update st (a ++ b).
Proof. exact dist_streaming. Qed.

Theorem C16_stream_mc_pinned_refuted : exists slices,
  md_finalize mc_pinned_d (fold_left (md_update mc_pinned_d) slices (md_init mc_pinned_d))
  <> md_finalize mc_pinned_d (md_update mc_pinned_d (md_init mc_pinned_d) (concat slices)).
Proof. exact stream_mc_pinned_refuted. Qed.

(* ---- integer cores *)
Theorem C16_math_histogram : forall s, Forall (fun b => b < 256) s ->
  counters (distribution_from_bytes s) = histogram s /\ nb_values (distribution_from_bytes s) = nlen s
  /\ compute_entropy (distribution_from_bytes s) = RFloat (entropy_spec s).
Proof. exact (fun s H => conj (counters_histogram s H) (conj (nb_values_bytes s) (entropy_bytes s H))). Qed.

Theorem C16_math_count_percentage : forall mem b, Forall (fun x => x < 256) mem ->
  count_call (Direct mem) [AInt b] = spec_call (Direct mem) MCount [AInt b]
  /\ percentage_call (Direct mem) [AInt b] = spec_call (Direct mem) MPercentage [AInt b].
Proof. exact (fun mem b H => conj (count_whole mem b H) (percentage_whole mem b H)). Qed.

(* mode: the smallest byte value of maximal count (the tie-breaking of `.rev().max_by_key()` is in the model) *)
Theorem C16_math_mode : forall mem, Forall (fun x => x < 256) mem ->
  mode_call (Direct mem) [] = RInt (mode_spec mem)
  /\ exists i, mode_spec mem = Z.of_N i /\ i < 256
       /\ (forall b, b < 256 -> count_of b mem <= count_of i mem)
       /\ (forall b, b < i -> count_of b mem < count_of i mem).
Proof. exact mode_whole. Qed.

(* serial correlation: streamed sums = cyclic lag-1 formula (exact integers, exact rational quotient) *)
Theorem C16_math_serial_correlation : forall s, compute_from_bytes scc_d s = RFloat (scc_spec s).
Proof. exact scc_bytes. Qed.

(* deviation: sum over the non-empty histogram buckets = sum over the byte sequence (exact rationals) *)
Theorem C16_math_deviation : forall s mu, Forall (fun b => b < 256) s ->
  compute_deviation (distribution_from_bytes s) mu = of_opt_f (deviation_spec s mu).
Proof. exact deviation_bytes. Qed.

(* every math call over (offset, size) of a byte slice = its specification on the clipped bytes; model_call is the
   function the correspondence evaluates *)
Theorem C16_math_ranges : forall mem o n c,
  Forall (fun x => x < 256) mem -> 255 * nlen mem <= umax -> (o <= i64max)%Z -> (n <= i64max)%Z ->
  (forall f, In f [MEntropy; MMean; MSerial; MMonte; MMode] ->
     snd (model_call (Direct mem) c f [AInt o; AInt n]) = spec_call (Direct mem) f [AInt o; AInt n])
  /\ (forall mu, snd (model_call (Direct mem) c MDeviation [AInt o; AInt n; AFlt mu])
                 = spec_call (Direct mem) MDeviation [AInt o; AInt n; AFlt mu])
  /\ (forall b f, In f [MCount; MPercentage] ->
        snd (model_call (Direct mem) c f [AInt b; AInt o; AInt n]) = spec_call (Direct mem) f [AInt b; AInt o; AInt n]).
Proof. exact math_ranges. Qed.

(* the same over fragmented memory (any region list without address overflow, bytes < 256): the value over the bytes
   RangeSpec describes; with a non-refetching scan mode both sides are undefined *)
Theorem C16_math_fragmented : forall refetch rs o n c,
  regions_ok rs -> Forall (fun x => x < 256) (flat rs) -> 255 * nlen (flat rs) <= umax ->
  (o <= i64max)%Z -> (n <= i64max)%Z ->
  let m := Frag refetch rs in
  (forall f, In f [MEntropy; MMean; MSerial; MMonte; MMode] ->
     snd (model_call m c f [AInt o; AInt n]) = spec_call m f [AInt o; AInt n])
  /\ (forall mu, snd (model_call m c MDeviation [AInt o; AInt n; AFlt mu]) = spec_call m MDeviation [AInt o; AInt n; AFlt mu])
  /\ (forall b f, In f [MCount; MPercentage] ->
        snd (model_call m c f [AInt b; AInt o; AInt n]) = spec_call m f [AInt b; AInt o; AInt n]).
Proof. exact math_fragmented. Qed.

(* on_range for a callback whose streaming law holds on an invariant set of states (MonteCarloPi: pending < 6) *)
Theorem C16_on_range_fragmented_inv : forall S (cb : S -> list N -> S) (inv : S -> Prop),
  (forall s a b, inv s -> cb (cb s a) b = cb s (a ++ b)) -> (forall s a, inv s -> inv (cb s a)) ->
  (forall s, inv s -> cb s [] = s) ->
  forall rs start end_ s, inv s -> regions_ok rs -> start <= end_ ->
    on_range cb (Frag true rs) start end_ s = lift S cb s (spec_frag rs start (end_ - start)).
Proof. exact on_range_frag_inv. Qed.

Theorem C16_math_literals : forall m s c, Forall (fun x => x < 256) s -> sum_list s <= umax -> nlen s <= umax ->
  (forall f, In f [MEntropy; MMean; MSerial; MMonte] ->
     snd (model_call m c f [AStr s]) = spec_call m f [AStr s])
  /\ (forall mu, snd (model_call m c MDeviation [AStr s; AFlt mu]) = spec_call m MDeviation [AStr s; AFlt mu]).
Proof. exact math_literals. Qed.

(* checksum32 / crc32: any slicing = the reference of the whole; and over (offset, size) of a byte slice *)
Theorem C16_checksum_crc_slices : forall slices,
  d_finalize checksum_d (fold_left (d_update checksum_d) slices (d_init checksum_d))
    = RInt (Z.of_N (checksum32_ref (concat slices)))
  /\ (Forall (fun b => b < 256) (concat slices) ->
      d_finalize crc_d (fold_left (d_update crc_d) slices (d_init crc_d)) = RInt (Z.of_N (crc32_ref (concat slices)))).
Proof. exact checksum_crc_slices. Qed.

Theorem C16_hash_int_ranges : forall mem o n c, Forall (fun x => x < 256) mem -> (o <= i64max)%Z -> (n <= i64max)%Z ->
  snd (model_call (Direct mem) c HCrc32 [AInt o; AInt n]) = spec_call (Direct mem) HCrc32 [AInt o; AInt n]
  /\ snd (model_call (Direct mem) c HChecksum32 [AInt o; AInt n]) = spec_call (Direct mem) HChecksum32 [AInt o; AInt n].
Proof. exact hash_int_ranges. Qed.

Theorem C16_math_mean : forall s, sum_list s <= umax -> nlen s <= umax ->
  compute_from_bytes mean_d s = of_opt_f (mean_spec s).
Proof. exact mean_bytes. Qed.

Theorem C16_math_monte_carlo : forall s, compute_from_bytes mc_d s = of_opt_f (monte_spec s).
Proof. exact monte_bytes. Qed.

Theorem C16_math_min_max : forall a b,
  (-9223372036854775808 <= a <= 9223372036854775807)%Z -> (-9223372036854775808 <= b <= 9223372036854775807)%Z ->
  min_call [AInt a; AInt b] = RInt (min_spec a b) /\ max_call [AInt a; AInt b] = RInt (max_spec a b).
Proof. exact min_max_spec. Qed.

Theorem C16_math_small : forall m,
  (forall v, abs_call [AInt v] = spec_call m MAbs [AInt v])
  /\ (forall b, to_number_call [ABool b] = spec_call m MToNumber [ABool b])
  /\ (forall s, length_call [AStr s] = spec_call m SLength [AStr s]).
Proof. exact small_ints_spec. Qed.

Theorem C16_math_to_string : forall m v,
  (-9223372036854775808 <= v <= 9223372036854775807)%Z ->
  to_string_call [AInt v] = spec_call m MToString [AInt v]
  /\ forall b, to_string_call [AInt v; AInt b] = spec_call m MToString [AInt v; AInt b].
Proof. exact to_string_spec_eq. Qed.

(* ---- the whole model = the whole specification: for every well-formed scan (bytes < 256, sizes below 2^64/255,
   regions without address overflow, direct or fragmented, any scan mode) and every list of well-typed probes with i64
   arguments, with the hash cache threaded through the probes.  f64 rounding is outside: real-valued results are the
   exact rational / the integer data (hit counts, histogram) on both sides. *)
Theorem C16_model_eq_spec : forall m ps, mem_ok m ->
  Forall (fun p => wf_probe (fst p) (snd p)) ps -> model_run m no_caches ps = spec_run m ps.
Proof. exact model_eq_spec. Qed.

(* ---- huge periodic inputs (k copies of a short pattern): the closed forms the correspondence uses for inputs of
   tens of MiB are the list specifications of `rep p q`, for every pattern and every q *)
Theorem C16_periodic_closed_forms : forall p q,
  mean_spec (rep p q) = p_mean p (N.of_nat q)
  /\ (forall b, count_spec b (rep p q) = p_count_opt p (N.of_nat q) b)
  /\ (forall b, percentage_spec b (rep p q) = p_percentage p (N.of_nat q) b)
  /\ entropy_spec (rep p q) = p_entropy p (N.of_nat q)
  /\ checksum32_ref (rep p q) = p_checksum32 p (N.of_nat q)
  /\ (forall mu, Forall (fun x => x < 256) p -> deviation_spec (rep p q) mu = p_deviation p (N.of_nat q) mu).
Proof. exact periodic_closed_forms. Qed.

Theorem C16_periodic_ranges : forall p k o n, p <> [] ->
  match periods (nlen p) (N.of_nat k) o n with
  | Some None => clip_direct (rep p k) o n = None
  | Some (Some q) => clip_direct (rep p k) o n = Some (rep p (N.to_nat q))
  | None => True
  end.
Proof. exact periods_clip. Qed.

Theorem C16_periodic_mode : forall p q, mode_spec (rep p q) = p_mode p (N.of_nat q).
Proof. exact rep_mode. Qed.

(* serial correlation and monte-carlo closed forms: finite check, all q < 14 over the listed patterns *)
Theorem C16_periodic_bounded_check :
  forallb (fun p => forallb (fun q =>
      fval_eqb (scc_spec (rep p q)) (p_scc p (N.of_nat q))
      && ofval_eqb (monte_spec (rep p q)) (p_monte p (N.of_nat q))) (seq 0 14)) check_patterns = true.
Proof. exact periodic_bounded_check. Qed.

(* ---- non-vacuity *)
Example C16_range_example :
  hash_call checksum_d (Direct [1;2;3;4;5]) [AInt 3; AInt 100] = RInt 9.
Proof. vm_compute. reflexivity. Qed.

Example C16_adjacent_example :
  adjacent 10 [{| rg_start := 10; rg_len := 2; rg_data := [1;2]; rg_fail := false |};
               {| rg_start := 12; rg_len := 3; rg_data := [3;4;5]; rg_fail := false |}]
  /\ on_range (fun (s : list N) d => s ++ d)
       (Frag true [{| rg_start := 10; rg_len := 2; rg_data := [1;2]; rg_fail := false |};
                   {| rg_start := 12; rg_len := 3; rg_data := [3;4;5]; rg_fail := false |}]) 11 14 [] = OrOk [2;3;4].
Proof. vm_compute. repeat split. Qed.

Example C16_cache_example :
  run_cached md5_d (Direct [97;98;99]) [] [[AInt 0; AInt 3]; [AInt 0; AInt 2]; [AInt 0; AInt 3]]
  = map (hash_call md5_d (Direct [97;98;99])) [[AInt 0; AInt 3]; [AInt 0; AInt 2]; [AInt 0; AInt 3]].
Proof. vm_compute. reflexivity. Qed.

Example C16_to_int_example :
  to_int_call [AStr [32;11;45;48;120;49;48]] = RInt (-16) /\ to_int_call [AStr [48;120;49;48]; AInt 16] = RInt 16.
Proof. vm_compute. split; reflexivity. Qed.

Example C16_stream_example :   (* 24 bytes cut 5 + 19: the witness of 9.13, now equal *)
  md_finalize mc_d (fold_left (md_update mc_d)
     [[0;0;0;0;0]; [0;255;255;255;255;255;255;0;0;0;0;0;0;255;255;255;255;255;255]] (md_init mc_d))
  = Some (FMonte 2 4).
Proof. vm_compute. reflexivity. Qed.

Example C16_mode_example :   (* 7 and 9 both occur twice: the smaller wins; all counts zero: 0 *)
  mode_call (Direct [9;7;9;7;200]) [] = RInt 7 /\ mode_spec [9;7;9;7;200] = 7%Z /\ mode_call (Direct []) [] = RInt 0.
Proof. vm_compute. repeat split. Qed.

Example C16_scc_example : compute_from_bytes scc_d [1;2;3;4] = RFloat (FQ (-1 # 5)).
Proof. vm_compute. reflexivity. Qed.

Example C16_deviation_example :
  compute_deviation (distribution_from_bytes [1;2;3;10]) (4 # 1) = RFloat (FQ (3 # 1)).
Proof. vm_compute. reflexivity. Qed.

Example C16_math_fragmented_example :   (* hypotheses satisfiable; monte-carlo over 12 bytes cut 5 + 7 *)
  let rs := [{| rg_start := 100; rg_len := 5; rg_data := [0;0;0;0;0]; rg_fail := false |};
             {| rg_start := 105; rg_len := 7; rg_data := [0;255;255;255;255;255;255]; rg_fail := false |}] in
  snd (model_call (Frag true rs) no_caches MMonte [AInt 100; AInt 12]) = RFloat (FMonte 1 2)
  /\ spec_call (Frag true rs) MMonte [AInt 100; AInt 12] = RFloat (FMonte 1 2)
  /\ snd (model_call (Frag true rs) no_caches MMode [AInt 103; AInt 9]) = RInt 255.
Proof. vm_compute. repeat split. Qed.

Example C16_model_eq_spec_example :   (* the hypotheses of C16_model_eq_spec hold of a concrete fragmented scan *)
  mem_ok ex_mem /\ Forall (fun p => wf_probe (fst p) (snd p)) ex_probes.
Proof. exact ex_wf. Qed.

Example C16_model_eq_spec_values :
  model_run ex_mem no_caches [(HCrc32, [AInt 16; AInt 100]); (MMode, [AInt 16; AInt 7]); (MCount, [AInt 97])]
  = [RInt 824863398; RInt 97; RUndef].
Proof. vm_compute. reflexivity. Qed.

Example C16_periodic_example :   (* 17 MiB of 0xFF: the sum exceeds 2^32, the mean is exactly 255 *)
  p_mean [255] 17825792 = Some (FQ (255 # 1)) /\ p_checksum32 [255] 17825792 = 250609664
  /\ periods 1 17825792 0 9223372036854775807 = Some (Some 17825792).
Proof. vm_compute. repeat split. Qed.

Example C16_crc_table_example :   (* entries 1, 128, 255 of the standard CRC-32 table *)
  nth 1 crc_table 0 = 1996959894 /\ nth 128 crc_table 0 = 3988292384 /\ nth 255 crc_table 0 = 755167117.
Proof. vm_compute. repeat split. Qed.

Print Assumptions C16_args_no_overflow.
Print Assumptions C16_hash_range.
Print Assumptions C16_hash_literal_same.
Print Assumptions C16_on_range_no_panic.
Print Assumptions C16_on_range_pinned_refuted.
Print Assumptions C16_on_range_fragmented.
Print Assumptions C16_fragmented_adjacent.
Print Assumptions C16_digests_streaming.
Print Assumptions C16_cache_consistent.
Print Assumptions C16_checksum32.
Print Assumptions C16_to_int.
Print Assumptions C16_to_int_pinned_refuted.
Print Assumptions C16_stream.
Print Assumptions C16_stream_distribution.
Print Assumptions C16_stream_mc_pinned_refuted.
Print Assumptions C16_math_histogram.
Print Assumptions C16_math_count_percentage.
Print Assumptions C16_math_mean.
Print Assumptions C16_math_monte_carlo.
Print Assumptions C16_math_min_max.
Print Assumptions C16_math_small.
Print Assumptions C16_math_to_string.
Print Assumptions C16_crc32.
Print Assumptions C16_hash_fragmented.
Print Assumptions C16_math_mode.
Print Assumptions C16_math_serial_correlation.
Print Assumptions C16_math_deviation.
Print Assumptions C16_math_ranges.
Print Assumptions C16_math_literals.
Print Assumptions C16_checksum_crc_slices.
Print Assumptions C16_hash_int_ranges.
Print Assumptions C16_math_fragmented.
Print Assumptions C16_on_range_fragmented_inv.
Print Assumptions C16_model_eq_spec.
Print Assumptions C16_periodic_closed_forms.
Print Assumptions C16_periodic_ranges.
Print Assumptions C16_periodic_mode.
Print Assumptions C16_periodic_bounded_check.
