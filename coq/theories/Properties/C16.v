(* Properties/C16.v — pinned statements only. *)
From Coq Require Import QArith.
From Boreal Require Import Base.Prelude Spec.MathSpec Spec.Digest Spec.Strtol Spec.RangeSpec
  Model.ModFuncs Model.HashMod Model.MathMod Model.StringMod Model.ModFuncsCase Proofs.ModFuncsProofs.

Theorem C16_args_no_overflow : forall o n,
  (0 <= o <= 9223372036854775807)%Z -> (0 <= n <= 9223372036854775807)%Z ->
  start_end o n = Some (Z.to_N o, Z.to_N o + Z.to_N n).
Proof. exact start_end_total. Qed.

Print Assumptions C16_args_no_overflow.
