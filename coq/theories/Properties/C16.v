(* Properties/C16.v — pinned statements only. *)
From Coq Require Import QArith.
From Boreal Require Import Base.Prelude Spec.MathSpec Spec.Digest Spec.Strtol Spec.RangeSpec
  Model.ModFuncs Model.HashMod Model.MathMod Model.StringMod Model.ModFuncsCase
  Proofs.ModFuncsProofs Proofs.ModFuncsFrag.

(* ---- arguments: with i64 arguments the checked additions of get_args / offset_length_to_start_end never fail *)
Theorem C16_args_no_overflow : forall o n,
  (0 <= o <= i64max)%Z -> (0 <= n <= i64max)%Z ->
  start_end o n = Some (Z.to_N o, Z.to_N o + Z.to_N n).
Proof. exact start_end_total. Qed.

(* ---- hash.X(offset, size) over a byte slice, for every streaming digest d *)
Theorem C16_hash_range : forall d mem o n,
  (o <= i64max)%Z -> (n <= i64max)%Z ->
  hash_call d (Direct mem) [AInt o; AInt n] =
    if (o <? 0)%Z || (n <? 0)%Z || (Z.of_N (nlen mem) <=? o)%Z then RUndef
    else from_bytes d (firstn (N.to_nat (N.min (Z.to_N n) (nlen mem))) (skipn (Z.to_nat o) mem)).
Proof. exact hash_range. Qed.

Theorem C16_hash_literal_same : forall d mem m' o n bytes,
  (o <= i64max)%Z -> (n <= i64max)%Z ->
  clip_direct mem o n = Some bytes ->
  hash_call d (Direct mem) [AInt o; AInt n] = hash_call d m' [AStr bytes].
Proof. exact hash_literal_same. Qed.

(* ---- Memory::on_range *)
Theorem C16_on_range_no_panic : forall S (cb : S -> list N -> S) m start end_ s,
  on_range cb m start end_ s <> OrPanic.
Proof. exact on_range_no_panic. Qed.

Theorem C16_on_range_pinned_refuted :
  exists m start end_, on_range_pinned (fun (s : list N) d => s ++ d) m start end_ [] = OrPanic.
Proof. exact on_range_pinned_refuted. Qed.

(* a streaming callback sees, in one or several slices, exactly the bytes RangeSpec describes *)
Theorem C16_on_range_fragmented : forall S (cb : S -> list N -> S),
  (forall s a b, cb (cb s a) b = cb s (a ++ b)) -> (forall s, cb s [] = s) ->
  forall rs start end_ s, regions_ok rs -> start <= end_ ->
    on_range cb (Frag true rs) start end_ s = lift S cb s (spec_frag rs start (end_ - start)).
Proof. exact on_range_frag. Qed.

(* over adjacent, completely fetched regions those bytes are the clipped range of the concatenated data *)
Theorem C16_fragmented_adjacent : forall rs base start n, adjacent base rs -> base <= start ->
  spec_frag rs start n =
    if nlen (flat rs) <=? start - base then None
    else Some (takeN n (skipn (N.to_nat (start - base)) (flat rs))).
Proof. exact spec_frag_adjacent. Qed.

(* the digests the model runs with are streaming *)
Theorem C16_digests_streaming :
  (forall f, streaming (bytes_digest f)) /\ streaming checksum_d /\ streaming crc_d.
Proof. exact (conj bytes_digest_streaming (conj checksum_streaming crc_streaming)). Qed.

(* ---- cache: memoised = unmemoised for every call sequence *)
Theorem C16_cache_consistent : forall d m calls, run_cached d m [] calls = map (hash_call d m) calls.
Proof. exact cache_consistent. Qed.

(* ---- checksum32 *)
Theorem C16_checksum32 : forall l, from_bytes checksum_d l = RInt (Z.of_N (checksum32_ref l)).
Proof. exact checksum32_correct. Qed.

(* ---- non-vacuity *)
Example C16_range_example :
  hash_call checksum_d (Direct [1;2;3;4;5]) [AInt 3; AInt 100] = RInt 9.
Proof. vm_compute. reflexivity. Qed.

Example C16_adjacent_example :
  adjacent 10 [{| rg_start := 10; rg_len := 2; rg_data := [1;2]; rg_fail := false |};
               {| rg_start := 12; rg_len := 3; rg_data := [3;4;5]; rg_fail := false |}]
  /\ on_range (fun (s : list N) d => s ++ d)
       (Frag true [{| rg_start := 10; rg_len := 2; rg_data := [1;2]; rg_fail := false |};
                   {| rg_start := 12; rg_len := 3; rg_data := [3;4;5]; rg_fail := false |}]) 11 14 [] = OrOk [2;3;4].
Proof. vm_compute. repeat split. Qed.

Example C16_cache_example :
  run_cached md5_d (Direct [97;98;99]) [] [[AInt 0; AInt 3]; [AInt 0; AInt 2]; [AInt 0; AInt 3]]
  = map (hash_call md5_d (Direct [97;98;99])) [[AInt 0; AInt 3]; [AInt 0; AInt 2]; [AInt 0; AInt 3]].
Proof. vm_compute. reflexivity. Qed.

Print Assumptions C16_args_no_overflow.
Print Assumptions C16_hash_range.
Print Assumptions C16_hash_literal_same.
Print Assumptions C16_on_range_no_panic.
Print Assumptions C16_on_range_pinned_refuted.
Print Assumptions C16_on_range_fragmented.
Print Assumptions C16_fragmented_adjacent.
Print Assumptions C16_digests_streaming.
Print Assumptions C16_cache_consistent.
Print Assumptions C16_checksum32.
