(* Properties/C06.v — pinned statements only. *)
From Boreal Require Import Base.Prelude Base.Res Model.Eval Spec.CondSem Model.EvalCost Model.Scanner Spec.RuleSetSpec
     Proofs.LoopProofs Proofs.NoScanProofs Proofs.ScannerProofs Proofs.NoScanScannerProofs Proofs.ScanConfigProofs.

(* The evaluation pass done before the string scan (no matches available) is sound: for every
   well-formed condition, whatever it answers other than "matches needed" is what the evaluation with
   the matches M answers, for every M; and the latter never panics. *)
Theorem C06_no_scan_sound :
  forall (M : list (list smatch)) prev ext fsz mem e sel stack,
    wf_expr ext (length M) (length prev) e = true -> sel_ok M sel -> stack_ok stack ->
    let r0 := eval (en0 prev ext fsz mem) sel stack e in
    let rM := eval (enM M prev ext fsz mem) sel stack e in
    (r0 = Needed \/ r0 = rM) /\ rM <> Panic.
Proof. exact (fun M prev ext fsz mem e => no_scan_sound M prev ext fsz mem e). Qed.

Theorem C06_no_scan_rule_verdict :
  forall (M : list (list smatch)) prev ext fsz mem cond b,
    wf_expr ext (length M) (length prev) cond = true ->
    eval_rule (en0 prev ext fsz mem) cond = Ok b ->
    eval_rule (enM M prev ext fsz mem) cond = Ok b.
Proof. exact no_scan_rule_verdict. Qed.

(* At the level of the whole scan (list API): whether or not the scan may skip string scanning, whether
   or not full matches are requested, the rules returned are those of the declarative rule-set semantics;
   hence the matched rules are the same under any two configurations (include_not_matched only adds
   rules flagged not matched). *)
Theorem C06_scan_any_config_is_spec :
  forall c inp sc,
    c_cb c = false ->
    wf_scanner inp sc = true -> ns_bound (s_nns sc) (s_globals sc) -> ns_bound (s_nns sc) (s_rules sc) ->
    o_err (run_scan c Never inp sc) = None
    /\ o_rules (run_scan c Never inp sc) = spec_reported sc inp (c_nm c).
Proof. exact run_scan_list_spec_any. Qed.

Theorem C06_scan_options_same_matches :
  forall c1 c2 inp sc,
    c_cb c1 = false -> c_cb c2 = false ->
    wf_scanner inp sc = true -> ns_bound (s_nns sc) (s_globals sc) -> ns_bound (s_nns sc) (s_rules sc) ->
    filter er_matched (o_rules (run_scan c1 Never inp sc)) = filter er_matched (o_rules (run_scan c2 Never inp sc)).
Proof. exact scan_options_same_matches. Qed.

(* configurations that agree on include_not_matched return the very same list, and no error *)
Theorem C06_scan_options_same_output :
  forall c1 c2 inp sc,
    c_cb c1 = false -> c_cb c2 = false -> c_nm c1 = c_nm c2 ->
    wf_scanner inp sc = true -> ns_bound (s_nns sc) (s_globals sc) -> ns_bound (s_nns sc) (s_rules sc) ->
    o_rules (run_scan c1 Never inp sc) = o_rules (run_scan c2 Never inp sc)
    /\ o_err (run_scan c1 Never inp sc) = None /\ o_err (run_scan c2 Never inp sc) = None.
Proof. exact scan_options_same_output. Qed.

(* the connectives and quantifier accumulators are monotone in the refinement order *)
Theorem C06_and_monotone :
  forall rs0 rsM, Forall2 rel rs0 rsM ->
    refines (and_loop false rs0) (and_loop false rsM) /\ and_loop false rsM <> Panic.
Proof. exact (fun rs0 rsM H => and_loop_refines rs0 rsM H false false (fun x => x)). Qed.

Theorem C06_or_monotone :
  forall rs0 rsM, Forall2 rel rs0 rsM ->
    refines (or_loop false rs0) (or_loop false rsM) /\ or_loop false rsM <> Panic.
Proof. exact (fun rs0 rsM H => or_loop_refines rs0 rsM H false false (fun x => x)). Qed.

Theorem C06_for_monotone :
  forall fs rs0 rsM, Forall2 rel rs0 rsM -> (forall n, fs = FNum n -> 1 <= n) ->
    refines (for_loop fs 0 rs0) (for_loop fs 0 rsM) /\ for_loop fs 0 rsM <> Panic.
Proof. exact for_loop_refines. Qed.

Theorem C06_for_list_monotone :
  forall fs l0 lM, Forall2 irel l0 lM -> (forall n, fs = FNum n -> 1 <= n) ->
    refines (list_loop fs 0 l0) (list_loop fs 0 lM) /\ list_loop fs 0 lM <> Panic.
Proof. exact list_loop_refines. Qed.

(* the pinned tree (before fix 571ee8b) answered Undef for an undefined list element even when earlier
   bodies were undecided: the refinement fails on `for any i in (0, uint8(1000)) : ($a at i)` *)
Theorem C06_pinned_list_iterator_refuted :
  exists l0 lM, Forall2 irel l0 lM /\
    ~ refines (list_loop_pinned (FNum 1) 0 l0) (list_loop_pinned (FNum 1) 0 lM).
Proof. exact list_loop_pinned_refuted. Qed.

(* non-vacuity: a condition with undecided and decided operands *)
Example C06_example :
  let e := EOr [EVar (Some 0%nat); EBin OEq (EInt 1) (EInt 1)] in
  wf_expr [] 1 0 e = true
  /\ eval (en0 [] [] (Some 3) (Some [97; 98; 99])) None [] e = Ok (VBool true)
  /\ eval (enM [[]] [] [] (Some 3) (Some [97; 98; 99])) None [] e = Ok (VBool true).
Proof. vm_compute. repeat split. Qed.

Print Assumptions C06_no_scan_sound.
Print Assumptions C06_no_scan_rule_verdict.
Print Assumptions C06_scan_any_config_is_spec.
Print Assumptions C06_scan_options_same_matches.
Print Assumptions C06_and_monotone.
Print Assumptions C06_or_monotone.
Print Assumptions C06_for_monotone.
Print Assumptions C06_for_list_monotone.
Print Assumptions C06_pinned_list_iterator_refuted.
Print Assumptions C06_scan_options_same_output.
