(* Properties/C06.v — pinned statements only. *)
From Boreal Require Import Base.Prelude Base.Res Model.Eval Spec.CondSem Proofs.EvalProofs.

Theorem C06_placeholder_undefined_rule_does_not_match :
  forall en c, eval en None [] c = Undef -> eval_rule en c = Ok false.
Proof. exact eval_rule_undef. Qed.

Print Assumptions C06_placeholder_undefined_rule_does_not_match.
