(* Properties/C13.v — pinned statements only.
   Scans are pure: clones are isolated over every history, symbol updates are typed and visible to later scans
   of that clone only, the hash cache of a scan is transparent and dies with the scan, and every interleaving
   of concurrent scans gives each job its sequential result (under the named hypothesis on the cache pools). *)
From Coq Require Import String.
From Boreal Require Import Base.Prelude Model.ScannerState Model.ModFuncs Model.HashMod Model.HashCache
  Model.Interleave Model.ScannerStateCase
  Proofs.ScannerStateProofs Proofs.InterleaveProofs Proofs.ScannerStateCache.
Open Scope nat_scope.

(* ---- isolation: `scan` is any function of the scanner's four fields and the input *)

(* whatever happens in the family, the state of clone c is the fold of the operations addressed to c *)
Theorem C13_own_operations_only :
  forall (compiled params udata input result : Type) (scan : scanner compiled params udata -> input -> result)
         (h : list (op params udata input)) (f : list (scanner compiled params udata)) c s,
    nth_error f c = Some s ->
    nth_error (run scan f h) c = Some (fold_left apply_l (own_ops c h) s).
Proof. exact run_own. Qed.

(* a clone made at any point of any history starts from the state of its source at that point and then follows
   its own operations only *)
Theorem C13_clone_isolated :
  forall (compiled params udata input result : Type) (scan : scanner compiled params udata -> input -> result)
         (f : list (scanner compiled params udata)) (h1 : list (op params udata input)) from h2 sf,
    nth_error (run scan f h1) from = Some sf ->
    let n := length (run scan f h1) in
    nth_error (run scan f (h1 ++ OClone from :: h2)) n = Some (fold_left apply_l (own_ops n h2) sf).
Proof. exact clone_isolated. Qed.

(* closed form over whole histories from one compiled scanner: the family is, clone by clone, the fold of the
   clone's lineage (its own operations and those of its ancestors before each fork) *)
Theorem C13_family_is_lineage_fold :
  forall (compiled params udata input result : Type) (scan : scanner compiled params udata -> input -> result)
         (s0 : scanner compiled params udata) (h : list (op params udata input)),
    run scan [s0] h = spec_fam s0 h.
Proof. exact run_is_spec. Qed.

(* hence every scan result: the k-th operation being a scan of clone c, its result is `scan` applied to that fold *)
Theorem C13_scan_result_own_operations :
  forall (compiled params udata input result : Type) (scan : scanner compiled params udata -> input -> result)
         (f : list (scanner compiled params udata)) (h1 : list (op params udata input)) c inp h2 s,
    nth_error f c = Some s ->
    nth_error (outputs scan f (h1 ++ OScan c inp :: h2)) (length h1)
    = Some (OutScan (scan (fold_left apply_l (own_ops c h1) s) inp)).
Proof. exact scan_result_own. Qed.

(* repeatability: a scan writes nothing, and the same input scanned again by the same clone gives the same result
   whatever the rest of the family did and whatever was scanned in between *)
Theorem C13_scan_writes_nothing :
  forall (compiled params udata input result : Type) (scan : scanner compiled params udata -> input -> result)
         (f : list (scanner compiled params udata)) c (inp : input),
    fst (step scan f (OScan (params := params) (udata := udata) c inp)) = f.
Proof. exact scan_no_effect. Qed.

Theorem C13_scan_repeatable :
  forall (compiled params udata input result : Type) (scan : scanner compiled params udata -> input -> result)
         (f : list (scanner compiled params udata)) c s inp (h h3 : list (op params udata input)),
    nth_error f c = Some s -> own_ops c h = [] ->
    nth_error (outputs scan f (OScan c inp :: h ++ OScan c inp :: h3)) 0
    = nth_error (outputs scan f (OScan c inp :: h ++ OScan c inp :: h3)) (S (length h)).
Proof. exact scan_repeatable. Qed.

(* an operation on c changes no other member of the family *)
Theorem C13_other_clones_unchanged :
  forall (compiled params udata input result : Type) (scan : scanner compiled params udata -> input -> result)
         (f : list (scanner compiled params udata)) c (l : lop params udata) c',
    c' <> c -> nth_error (fst (step scan f (OLocal (input := input) c l))) c' = nth_error f c'.
Proof. exact step_other_unchanged. Qed.

(* the shared part is never written and the family stays well formed *)
Theorem C13_inner_constant :
  forall (compiled params udata input result : Type) (scan : scanner compiled params udata -> input -> result)
         (s0 : scanner compiled params udata) (h : list (op params udata input)) c s,
    wf_scanner s0 -> nth_error (run scan [s0] h) c = Some s -> sc_inner s = sc_inner s0 /\ wf_scanner s.
Proof. exact run_inner_wf. Qed.

(* ---- what Compiler::define_symbol and Scanner::new establish: distinct names, every name mapped to its slot *)
Theorem C13_compiler_symbols_distinct :
  forall syms name v, NoDup (map fst syms) -> NoDup (map fst (fst (compiler_define syms name v))).
Proof. exact compiler_define_nodup. Qed.

Theorem C13_scanner_new_wf :
  forall (compiled params udata : Type) (c : compiled) (p0 : params) syms,
    wf_scanner (scanner_new (udata := udata) c p0 syms).
Proof. exact (@scanner_new_wf). Qed.

Theorem C13_scanner_new_slots :
  forall (compiled params udata : Type) (c : compiled) (p0 : params) syms k name v,
    NoDup (map fst syms) -> nth_error syms k = Some (name, v) ->
    let s := scanner_new (udata := udata) c p0 syms in
    sym_lookup name (i_symmap (sc_inner s)) = Some k /\ nth_error (sc_syms s) k = Some v.
Proof. exact (@scanner_new_slots). Qed.

(* ---- the other two mutators touch their own field only (module data: their own module only) *)
Theorem C13_set_module_data_one_module :
  forall (compiled params udata : Type) (s : scanner compiled params udata) k d,
    let s' := set_module_data s k d in
    md_get k (sc_mdata s') = Some d
    /\ (forall k', k' <> k -> md_get k' (sc_mdata s') = md_get k' (sc_mdata s))
    /\ sc_params s' = sc_params s /\ sc_syms s' = sc_syms s /\ sc_inner s' = sc_inner s.
Proof. exact (@set_module_data_effect). Qed.

Theorem C13_set_scan_params_only_params :
  forall (compiled params udata : Type) (s : scanner compiled params udata) p,
    let s' := set_scan_params s p in
    sc_params s' = p /\ sc_mdata s' = sc_mdata s /\ sc_syms s' = sc_syms s /\ sc_inner s' = sc_inner s.
Proof. exact (@set_scan_params_effect). Qed.

(* ---- define_symbol is typed *)
Theorem C13_define_symbol_typed :
  forall (compiled params udata : Type) (s : scanner compiled params udata) name v,
    wf_scanner s ->
    (snd (define_symbol s name v) = DOk <->
     exists idx old, sym_lookup name (i_symmap (sc_inner s)) = Some idx
                     /\ nth_error (sc_syms s) idx = Some old /\ same_type old v = true).
Proof. exact (@define_symbol_ok_iff). Qed.

Theorem C13_define_symbol_unknown :
  forall (compiled params udata : Type) (s : scanner compiled params udata) name v,
    snd (define_symbol s name v) = DUnknownName <-> sym_lookup name (i_symmap (sc_inner s)) = None.
Proof. exact (@define_symbol_unknown_iff). Qed.

Theorem C13_define_symbol_invalid_type :
  forall (compiled params udata : Type) (s : scanner compiled params udata) name v,
    snd (define_symbol s name v) = DInvalidType <->
    exists idx old, sym_lookup name (i_symmap (sc_inner s)) = Some idx
                    /\ nth_error (sc_syms s) idx = Some old /\ same_type old v = false.
Proof. exact (@define_symbol_invalid_iff). Qed.

(* on success exactly that slot changes; on failure nothing does *)
Theorem C13_define_symbol_one_slot :
  forall (compiled params udata : Type) (s s' : scanner compiled params udata) name v,
    wf_scanner s -> define_symbol s name v = (s', DOk) ->
    exists idx, sym_lookup name (i_symmap (sc_inner s)) = Some idx
      /\ idx < length (sc_syms s)
      /\ sc_syms s' = set_slot (sc_syms s) idx v
      /\ nth_error (sc_syms s') idx = Some v
      /\ (forall j, j <> idx -> nth_error (sc_syms s') j = nth_error (sc_syms s) j)
      /\ length (sc_syms s') = length (sc_syms s)
      /\ sc_params s' = sc_params s /\ sc_mdata s' = sc_mdata s /\ sc_inner s' = sc_inner s.
Proof. exact (@define_symbol_ok_effect). Qed.

Theorem C13_define_symbol_error_noop :
  forall (compiled params udata : Type) (s : scanner compiled params udata) name v,
    snd (define_symbol s name v) <> DOk -> fst (define_symbol s name v) = s.
Proof. exact (@define_symbol_err_noop). Qed.

(* ---- visibility *)
Theorem C13_symbol_visible_later :
  forall (compiled params udata input result : Type) (scan : scanner compiled params udata -> input -> result)
         (f : list (scanner compiled params udata)) c s name v s' (h2 : list (op params udata input)) inp h3,
    wf_scanner s -> nth_error f c = Some s -> define_symbol s name v = (s', DOk) ->
    no_redefine compiled params udata s' (match slot_of compiled params udata s name with Some i => i | None => 0 end)
                (own_ops c h2) ->
    exists idx st, slot_of compiled params udata s name = Some idx
      /\ nth_error (outputs scan f (OLocal c (LDefine name v) :: h2 ++ OScan c inp :: h3)) (S (length h2))
         = Some (OutScan (scan st inp))
      /\ nth_error (sc_syms st) idx = Some v
      /\ st = fold_left apply_l (own_ops c h2) s'.
Proof. exact symbol_visible_later. Qed.

Theorem C13_symbol_not_visible_elsewhere :
  forall (compiled params udata input result : Type) (scan : scanner compiled params udata -> input -> result)
         (f : list (scanner compiled params udata)) c name v c' s1 (h2 : list (op params udata input)),
    c' <> c -> nth_error f c' = Some s1 ->
    nth_error (run scan f (OLocal c (LDefine name v) :: h2)) c' = nth_error (run scan f h2) c'.
Proof. exact symbol_not_visible_elsewhere. Qed.

Theorem C13_symbol_inherited_by_later_clone :
  forall (compiled params udata input result : Type) (scan : scanner compiled params udata -> input -> result)
         (f : list (scanner compiled params udata)) c s name v s',
    nth_error f c = Some s -> define_symbol s name v = (s', DOk) ->
    let f1 := run scan f [OLocal (input := input) c (LDefine name v); OClone c] in
    nth_error f1 (length f) = Some s'.
Proof. exact symbol_inherited. Qed.

(* ---- hash cache *)
Theorem C13_cache_transparent :
  forall (dg : halg -> digest) m calls, scan_hashes dg m calls = map (call_plain dg m) calls.
Proof. exact cache_transparent. Qed.

Theorem C13_cache_per_scan :
  forall (dg : halg -> digest) jobs,
    scans_hashes dg jobs = map (fun j => map (call_plain dg (fst j)) (snd j)) jobs.
Proof. exact scans_transparent. Qed.

(* were the cache to outlive the scan (static / stored in the scanner), keyed by (offset, end): refuted *)
Theorem C13_cache_shared_between_scans_refuted :
  scans_shared_cache std_dg hcache_empty leak_jobs <> scans_hashes std_dg leak_jobs.
Proof. exact shared_cache_refuted. Qed.

(* ---- interleaving *)
(* `pool_content_irrelevant` (Model/Interleave.v) is the contract of regex-automata's caches (DfaValidator.pool, the pools inside meta::Regex):
   scratch space whose content never changes what a search returns.  It is a premise of each statement. *)
Theorem C13_interleaving :
  forall (inner job pstate pool result : Type) (init : inner -> job -> pstate)
         (step : inner -> pool -> pstate -> pool * (pstate + result)),
    pool_content_irrelevant step ->
    forall (i : inner) (jobs : list job) (p0 p1 : pool) (sched : list nat) t j,
      nth_error jobs t = Some j ->
      nth_error (sy_threads (exec step i (start init i p0 jobs) sched)) t
      = Some (alone step i (count_occ Nat.eq_dec sched t) p1 (Running (init i j))).
Proof. exact interleaving. Qed.

Theorem C13_interleaving_result :
  forall (inner job pstate pool result : Type) (init : inner -> job -> pstate)
         (step : inner -> pool -> pstate -> pool * (pstate + result)),
    pool_content_irrelevant step ->
    forall (i : inner) (jobs : list job) (p0 : pool) (sched : list nat) t j r,
      nth_error jobs t = Some j ->
      nth_error (sy_threads (exec step i (start init i p0 jobs) sched)) t = Some (Done r) ->
      exists n p, alone step i n p (Running (init i j)) = Done r.
Proof. exact interleaving_result. Qed.

Theorem C13_schedule_independent :
  forall (inner job pstate pool result : Type) (init : inner -> job -> pstate)
         (step : inner -> pool -> pstate -> pool * (pstate + result)),
    pool_content_irrelevant step ->
    forall (i : inner) (jobs : list job) (p0 p0' : pool) (sched sched' : list nat) t r r',
      nth_error (sy_threads (exec step i (start init i p0 jobs) sched)) t = Some (Done r) ->
      nth_error (sy_threads (exec step i (start init i p0' jobs) sched')) t = Some (Done r') ->
      r = r'.
Proof. exact schedule_independent. Qed.

Theorem C13_interleaving_complete :
  forall (inner job pstate pool result : Type) (init : inner -> job -> pstate)
         (step : inner -> pool -> pstate -> pool * (pstate + result)),
    pool_content_irrelevant step ->
    forall (i : inner) (jobs : list job) (p0 : pool) (sched : list nat) t j r n p,
      nth_error jobs t = Some j -> alone step i n p (Running (init i j)) = Done r ->
      n <= count_occ Nat.eq_dec sched t ->
      nth_error (sy_threads (exec step i (start init i p0 jobs) sched)) t = Some (Done r).
Proof. exact interleaving_complete. Qed.

(* the sequential oracle is the schedule "job 0 to its end, then job 1, ..." *)
Theorem C13_sequential_oracle_is_a_schedule :
  forall (inner job pstate pool result : Type) (init : inner -> job -> pstate)
         (step : inner -> pool -> pstate -> pool * (pstate + result)),
    pool_content_irrelevant step ->
    forall (i : inner) (jobs : list job) (p0 : pool) (fuels : list nat) t j r p,
      nth_error jobs t = Some j -> alone step i (nth t fuels 0) p (Running (init i j)) = Done r ->
      nth_error (sy_threads (exec step i (start init i p0 jobs) (seq_schedule 0 fuels))) t = Some (Done r).
Proof. exact sequential_schedule. Qed.

(* workers with queues of jobs (one scan after the other on the same thread) *)
Theorem C13_worker_queues :
  forall (inner job pstate pool result : Type) (init : inner -> job -> pstate)
         (step : inner -> pool -> pstate -> pool * (pstate + result)),
    pool_content_irrelevant step ->
    forall (i : inner) (queues : list (list job)) (p0 : pool) (sched : list nat) t js rs,
      nth_error queues t = Some js ->
      nth_error (sy_threads (exec (qstep init step) i (start (@qinit inner job pstate result) i p0 queues) sched)) t
        = Some (Done rs) ->
      Forall2 (fun j r => exists n p, alone step i n p (Running (init i j)) = Done r) js rs.
Proof. exact worker_queues. Qed.

(* instance: interleaved scans with private hash caches and a shared, written, irrelevant pool *)
Theorem C13_interleaving_hash :
  forall (dg : halg -> digest) (jobs : list hjob) (p0 : nat) (sched : list nat) t j rs,
    nth_error jobs t = Some j ->
    nth_error (sy_threads (exec (hstep dg) tt (start hinit tt p0 jobs) sched)) t = Some (Done rs) ->
    rs = map (call_plain dg (fst j)) (snd j).
Proof. exact interleaving_hash. Qed.

(* the hypothesis does the work: with the hash cache in the shared pool it is false, and so is the conclusion *)
Theorem C13_shared_pool_cache_refuted :
  exists sched1 sched2,
    nth_error (sy_threads (exec (sstep std_dg) tt (start sinit tt hcache_empty leak_jobs) sched1)) 1
    <> nth_error (sy_threads (exec (sstep std_dg) tt (start sinit tt hcache_empty leak_jobs) sched2)) 1
    /\ (forall t, In t [0; 1] ->
          exists r1 r2,
            nth_error (sy_threads (exec (sstep std_dg) tt (start sinit tt hcache_empty leak_jobs) sched1)) t
              = Some (Done r1)
            /\ nth_error (sy_threads (exec (sstep std_dg) tt (start sinit tt hcache_empty leak_jobs) sched2)) t
              = Some (Done r2)).
Proof. exact shared_pool_cache_refuted. Qed.

(* ---- non-vacuity *)
(* hypotheses of the isolation / typing theorems hold of a concrete family; three clones end up different *)
Example C13_history_example :
  map (fun s => (sc_syms s, sc_params s, sc_mdata s)) (run (probe_model 8%N) [ex_scanner] ex_history)
  = [([EInt 5; EBytes [97%N; 98%N]; EBool false], [0; 512; 1000; 0; 0; 1073741824; 0; 1; 0; 0]%N, [(1%N, 3%N)]);
     ([EInt (-7); EBytes [97%N; 98%N]; EBool false], [0; 512; 1000; 0; 0; 1073741824; 0; 1; 0; 0]%N, []);
     ([EInt (-7); EBytes [97%N; 98%N]; EBool false], [1; 3; 1; 1; 0; 1073741824; 0; 1; 0; 0]%N, [])].
Proof. vm_compute. reflexivity. Qed.

Example C13_history_outputs_example :
  map (@cout_of) (outputs (probe_model 8%N) [ex_scanner] ex_history)
  = [CCloned 1; CDef DOk; CCloned 2; CUnit; CUnit; CDef DInvalidType;
     CScan (probe_model 8%N (fold_left apply_l (own_ops 1 [OLocal (input := N) 1 (LDefine "i0" (EInt (-7)))]) ex_scanner) 2%N);
     CDef DUnknownName].
Proof. vm_compute. reflexivity. Qed.

Example C13_new_example :
  scanner_new tt [0; 512; 1000; 0; 0; 1073741824; 0; 1; 0; 0]%N
    (fst (compiler_define (fst (compiler_define (fst (compiler_define (fst (compiler_define [] "i0" (EInt 5)))
       "s0" (EBytes [97%N; 98%N]))) "i0" (EBool true))) "b0" (EBool false)))
  = ex_scanner.
Proof. vm_compute. reflexivity. Qed.

Example C13_wf_example :
  forallb (fun e => Nat.ltb (snd e) (length (sc_syms ex_scanner))) (i_symmap (sc_inner ex_scanner)) = true.
Proof. vm_compute. reflexivity. Qed.

(* the cache is really hit (third call) and the results are the reference's *)
Example C13_cache_example :
  scan_hashes std_dg (Direct [97; 98; 99]%N) [(HMd5, [AInt 0; AInt 3]); (HSha1, [AInt 0; AInt 3]); (HMd5, [AInt 0; AInt 3])]
  = map (call_plain std_dg (Direct [97; 98; 99]%N))
        [(HMd5, [AInt 0; AInt 3]); (HSha1, [AInt 0; AInt 3]); (HMd5, [AInt 0; AInt 3])].
Proof. vm_compute. reflexivity. Qed.

(* the premise of the interleaving theorems is satisfiable by a system whose steps do write the pool *)
Theorem C13_pool_hypothesis_satisfiable : forall dg, pool_content_irrelevant (hstep dg).
Proof. exact hstep_pool_irrelevant. Qed.

Example C13_pool_written_example :
  fst (hstep std_dg tt 7%nat (Direct [1%N], hcache_empty, [], [])) = 8%nat.
Proof. vm_compute. reflexivity. Qed.

Example C13_interleaving_example :
  sy_threads (exec (hstep std_dg) tt (start hinit tt 0 leak_jobs) [1; 0; 1; 0; 0; 1])
  = sy_threads (exec (hstep std_dg) tt (start hinit tt 5 leak_jobs) [0; 0; 1; 1; 1; 0]).
Proof. vm_compute. reflexivity. Qed.

Print Assumptions C13_own_operations_only.
Print Assumptions C13_clone_isolated.
Print Assumptions C13_family_is_lineage_fold.
Print Assumptions C13_scan_result_own_operations.
Print Assumptions C13_scan_writes_nothing.
Print Assumptions C13_scan_repeatable.
Print Assumptions C13_other_clones_unchanged.
Print Assumptions C13_inner_constant.
Print Assumptions C13_compiler_symbols_distinct.
Print Assumptions C13_scanner_new_wf.
Print Assumptions C13_scanner_new_slots.
Print Assumptions C13_set_module_data_one_module.
Print Assumptions C13_set_scan_params_only_params.
Print Assumptions C13_define_symbol_typed.
Print Assumptions C13_define_symbol_unknown.
Print Assumptions C13_define_symbol_invalid_type.
Print Assumptions C13_define_symbol_one_slot.
Print Assumptions C13_define_symbol_error_noop.
Print Assumptions C13_symbol_visible_later.
Print Assumptions C13_symbol_not_visible_elsewhere.
Print Assumptions C13_symbol_inherited_by_later_clone.
Print Assumptions C13_cache_transparent.
Print Assumptions C13_cache_per_scan.
Print Assumptions C13_cache_shared_between_scans_refuted.
Print Assumptions C13_interleaving.
Print Assumptions C13_interleaving_result.
Print Assumptions C13_schedule_independent.
Print Assumptions C13_interleaving_complete.
Print Assumptions C13_sequential_oracle_is_a_schedule.
Print Assumptions C13_worker_queues.
Print Assumptions C13_interleaving_hash.
Print Assumptions C13_pool_hypothesis_satisfiable.
Print Assumptions C13_shared_pool_cache_refuted.
