(* Properties/C11.v — pinned statements only. *)
From Boreal Require Import Base.Prelude Base.ListX Base.Bytes Model.Literals Model.AcScan Model.Memory
  Spec.FragSpec Model.FragCase Proofs.AcScanDecomp Proofs.LimitsProofs Proofs.FragProofs Proofs.FragMemory Proofs.FragSearch Proofs.FragFailed.

(* the union: for every matcher kind and every limit, the matches of a string after a fragmented scan
   are the concatenation, in region order, of scans of each fetched region started from an empty list
   (with the part of string_max_nb_matches that is left); region starts pairwise distinct, which
   disjoint non-empty regions satisfy.  Together with C12_per_variable_fragmented this is the
   statement for whole rule sets. *)
Theorem C11_union :
  forall prm var regions, NoDup (map f_start regions) ->
    scan_var_fragmented prm var regions = union_from prm var regions 0.
Proof. exact fragmented_union. Qed.

(* one region: what earlier regions saved is kept untouched (region-scoped dedup and
   start_position), and the region is scanned as if it were alone *)
Theorem C11_region_scoped :
  forall prm var rg dn, other_base (rg_start rg) dn -> nlen dn <= p_max_nb_matches prm ->
    scan_var_region prm var rg dn = dn ++ scan_var_region (shift prm (nlen dn)) var rg [].
Proof. exact scan_var_region_prefix. Qed.

(* no match spans two regions: every match was built on the bytes of one fetched region *)
Theorem C11_no_spanning :
  forall prm var regions x, In x (scan_var_fragmented prm var regions) ->
    exists r, In r regions /\ f_fail r = false
              /\ built_on prm {| rg_start := f_start r; rg_mem := f_mem r |} x.
Proof. exact scan_var_fragmented_built. Qed.

Theorem C11_failed_region :
  forall prm vars pre r post, f_fail r = true ->
    scan_fragmented prm vars (pre ++ r :: post) = scan_fragmented prm vars (pre ++ post).
Proof. exact failed_region_skipped. Qed.

(* ... any number of them, anywhere in the layout: the scan is the scan of the fetched regions alone;
   and a layout whose fetches all fail reports nothing *)
Theorem C11_failed_regions_absent :
  forall prm vars regions,
    scan_fragmented prm vars regions = scan_fragmented prm vars (filter fetched regions).
Proof. exact failed_regions_absent. Qed.

Theorem C11_failed_regions_absent_var :
  forall prm var regions,
    scan_var_fragmented prm var regions = scan_var_fragmented prm var (filter fetched regions).
Proof. exact failed_regions_absent_var. Qed.

Theorem C11_all_failed_nothing :
  forall prm vars regions,
    forallb f_fail regions = true -> scan_fragmented prm vars regions = empty_matches vars.
Proof. exact all_failed_nothing. Qed.

Theorem C11_single_zero :
  forall prm vars mem dl,
    scan_fragmented prm vars [{| f_start := 0; f_mem := mem; f_fail := false; f_described := dl |}]
    = scan_direct prm vars mem.
Proof. exact single_region_zero. Qed.

Theorem C11_filesize : forall regions, filesize_fragmented regions = None.
Proof. exact filesize_undefined. Qed.

Theorem C11_no_refetch :
  forall regions a n s e, read_uint false regions a n = None /\ on_range false regions s e = None.
Proof. exact no_refetch_undefined. Qed.

(* an integer read that succeeds reads inside one fetched region covering the whole span *)
Theorem C11_read_integer_sound :
  forall regions start end_ bs, get_contiguous_loop regions start end_ = Some bs ->
    exists r, In r regions /\ f_fail r = false /\ f_start r <= start
              /\ end_ - f_start r <= nlen (f_mem r)
              /\ bs = slice (start - f_start r) (end_ - f_start r) (f_mem r).
Proof. exact get_contiguous_sound. Qed.

(* integer reads, completeness: on a layout delivered in ascending address order a read succeeds
   exactly when one fetched region covers the whole span (Spec/FragSpec.v spec_read), same bytes *)
Theorem C11_read_integer :
  forall regions a n, ascending_regions 0 regions = true -> a + n <= umax ->
    read_uint true regions a n = option_map le_value (spec_read true regions a n).
Proof. exact read_uint_complete. Qed.

Theorem C11_get_contiguous :
  forall regions q a n, ascending_regions q regions = true ->
    get_contiguous_loop regions a (a + n) = spec_read true regions a n.
Proof. exact get_contiguous_complete. Qed.

(* ranges, completeness.  `adjacent q run`: the regions of run follow one another from address q, each
   fetched in full (fetched length = described length > 0); `below s pre`: the regions before the run
   end at or below s.  [s, e) inside the run: exactly its bytes. *)
Theorem C11_on_range_covered :
  forall pre r1 rest post q s e,
    below s pre -> adjacent q (r1 :: rest) ->
    q <= s < q + nlen (f_mem r1) -> s <= e -> e <= q + nlen (flat (r1 :: rest)) ->
    q + nlen (flat (r1 :: rest)) <= umax ->
    on_range true (pre ++ (r1 :: rest) ++ post) s e = Some (slice (s - q) (e - q) (flat (r1 :: rest))).
Proof. exact on_range_covered. Qed.

(* the range runs past the last region: the bytes up to its end *)
Theorem C11_on_range_past_last :
  forall pre r1 rest q s e,
    below s pre -> adjacent q (r1 :: rest) ->
    q <= s < q + nlen (f_mem r1) -> q + nlen (flat (r1 :: rest)) < e ->
    q + nlen (flat (r1 :: rest)) <= umax ->
    on_range true (pre ++ (r1 :: rest)) s e
    = Some (slice (s - q) (nlen (flat (r1 :: rest))) (flat (r1 :: rest))).
Proof. exact on_range_past_last. Qed.

(* a gap before a further region, or a further adjacent region whose fetch fails: undefined *)
Theorem C11_on_range_gap_or_failed :
  forall pre r1 rest p post q s e,
    below s pre -> adjacent q (r1 :: rest) ->
    q <= s < q + nlen (f_mem r1) -> q + nlen (flat (r1 :: rest)) < e ->
    q + nlen (flat (r1 :: rest)) <= umax ->
    f_start p <> q + nlen (flat (r1 :: rest))
    \/ (f_start p = q + nlen (flat (r1 :: rest)) /\ 0 < f_described p /\ f_fail p = true) ->
    on_range true (pre ++ (r1 :: rest) ++ p :: post) s e = None.
Proof. exact on_range_gap_or_failed. Qed.

(* the hypotheses are satisfiable: regions [0,5) [5,7) adjacent, then a gap, [100,104) *)
Definition ex_regions : list fregion :=
  [ {| f_start := 0; f_mem := [97;98;99;100;101]; f_fail := false; f_described := 5 |};
    {| f_start := 5; f_mem := [1;2]; f_fail := false; f_described := 2 |};
    {| f_start := 100; f_mem := [97;98;3;4]; f_fail := false; f_described := 4 |} ].
Example C11_read_example :
  ascending_regions 0 ex_regions = true
  /\ read_uint true ex_regions 101 1 = Some 98      (* inside one region *)
  /\ read_uint true ex_regions 4 2 = None.          (* straddles two adjacent regions *)
Proof. vm_compute. repeat split. Qed.
Example C11_run_hypotheses :       (* the first two regions form a run in the sense of C11_on_range_covered *)
  adjacent 0 (firstn 2 ex_regions) /\ nlen (flat (firstn 2 ex_regions)) = 7.
Proof. vm_compute. repeat split. Qed.
Example C11_on_range_example :
  on_range true ex_regions 2 7 = Some [99;100;101;1;2]     (* across the adjacent pair *)
  /\ on_range true ex_regions 2 8 = None                   (* a gap before the third region *)
  /\ on_range true ex_regions 102 200 = Some [3;4]         (* past the last region *)
  /\ spec_range true ex_regions 2 7 = Some [99;100;101;1;2]
  /\ spec_range true ex_regions 2 8 = None
  /\ spec_range true ex_regions 102 200 = Some [3;4].
Proof. vm_compute. repeat split. Qed.

(* Still checked by the correspondence run only (kept as definitions): equality of `on_range` with the
   address-walk specification `spec_range` on every ascending layout (short fetches, described length
   different from the fetched one, empty regions). *)
Definition C11_on_range_statement : Prop :=
  forall regions s e, ascending_regions 0 regions = true ->
    on_range true regions s e = spec_range true regions s e.

(* `$a at X` / `$a in (lo..hi)`: on a match vector whose absolute addresses are strictly ascending (what
   ascending region delivery and the sorted insert give) and fit usize, the binary search of
   VarMatches::find_at is membership and the insertion point used by find_in is the lower bound, so
   both are the declarative readings of Spec/FragSpec.v.  (C11_region_order_refuted below: without
   ascending addresses they are not.) *)
Theorem C11_find_at :
  forall t x, Sorted.asc (map abs_off t) -> no_overflow t -> find_at t x = spec_at t x.
Proof. exact find_at_spec. Qed.

Theorem C11_find_in :
  forall t lo hi, Sorted.asc (map abs_off t) -> no_overflow t -> find_in t lo hi = spec_in t lo hi.
Proof. exact find_in_spec. Qed.

Theorem C11_binary_search_found :
  forall keys target, Sorted.asc keys -> keys <> [] ->
    (fst (binary_search keys target) = true <-> In target keys).
Proof. exact binary_search_found. Qed.

Definition ex_sorted_t : list smatch :=
  [ {| sm_base := 0; sm_off := 0; sm_len := 2; sm_data := [97;98]; sm_key := 0 |};
    {| sm_base := 0; sm_off := 7; sm_len := 2; sm_data := [97;98]; sm_key := 0 |};
    {| sm_base := 100; sm_off := 0; sm_len := 2; sm_data := [97;98]; sm_key := 0 |};
    {| sm_base := 200; sm_off := 3; sm_len := 2; sm_data := [97;98]; sm_key := 0 |} ].
Example C11_find_example :       (* hypotheses of C11_find_at / C11_find_in met by a concrete vector *)
  Sorted.ascb (map abs_off ex_sorted_t) = true
  /\ forallb (fun m => sm_off m + sm_base m <=? umax) ex_sorted_t = true
  /\ find_at ex_sorted_t 100 = true /\ find_at ex_sorted_t 101 = false
  /\ find_in ex_sorted_t 8 150 = true /\ find_in ex_sorted_t 8 99 = false.
Proof. vm_compute. repeat split. Qed.

(* DESIGN 9.12 (open finding C11-region-order): regions delivered in descending address order break
   `$a at X`: the match vector is ordered by arrival and the lookup is a binary search *)
Definition w912_t : list smatch :=
  [ {| sm_base := 200; sm_off := 0; sm_len := 2; sm_data := [97;98]; sm_key := 0 |};
    {| sm_base := 100; sm_off := 0; sm_len := 2; sm_data := [97;98]; sm_key := 0 |};
    {| sm_base := 0; sm_off := 0; sm_len := 2; sm_data := [97;98]; sm_key := 0 |} ].
Theorem C11_region_order_refuted :
  find_at w912_t 200 = false /\ spec_at w912_t 200 = true.
Proof. vm_compute. split; reflexivity. Qed.

Example C11_union_example :
  let prm := {| p_match_max_length := 4; p_max_nb_matches := 3 |} in
  let v := text_matcher {| t_text := [97;98]; t_ascii := true; t_wide := false; t_nocase := false;
                           t_fullword := false; t_xor := None; t_b64 := None |} in
  let regions := [ {| f_start := 10; f_mem := [97;98;97;98]; f_fail := false; f_described := 4 |};
                   {| f_start := 14; f_mem := [97;98]; f_fail := true; f_described := 2 |};
                   {| f_start := 16; f_mem := [97;98;120;97;98]; f_fail := false; f_described := 5 |} ] in
  map (fun x => (sm_base x, sm_off x)) (scan_var_fragmented prm v regions) = [(10, 0); (10, 2); (16, 0)].
Proof. vm_compute. reflexivity. Qed.

Print Assumptions C11_union.
Print Assumptions C11_region_scoped.
Print Assumptions C11_no_spanning.
Print Assumptions C11_failed_region.
Print Assumptions C11_single_zero.
Print Assumptions C11_filesize.
Print Assumptions C11_no_refetch.
Print Assumptions C11_read_integer_sound.
Print Assumptions C11_read_integer.
Print Assumptions C11_get_contiguous.
Print Assumptions C11_on_range_covered.
Print Assumptions C11_on_range_past_last.
Print Assumptions C11_on_range_gap_or_failed.
Print Assumptions C11_find_at.
Print Assumptions C11_find_in.
Print Assumptions C11_binary_search_found.
Print Assumptions C11_region_order_refuted.
Print Assumptions C11_failed_regions_absent.
Print Assumptions C11_failed_regions_absent_var.
Print Assumptions C11_all_failed_nothing.
