(* Properties/C19.v — pinned statements only. *)
From Boreal Require Import Base.Prelude Model.Process Spec.ProcessSpec Proofs.ProcessProofs.

Theorem C19_chunks_tile :
  forall prm r cs fuel,
    chunk prm = Some cs -> 0 < page prm ->
    0 < r_len r -> r_start r + r_len r <= umax ->
    r_len r <= N.of_nat fuel * round_page cs (page prm) ->
    Tiles (r_start r) (r_len r) (walk (S fuel) prm (pinit [r])).
Proof. exact chunks_tile. Qed.

Theorem C19_no_chunk_whole_region :
  forall prm r fuel, chunk prm = None -> r_start r + r_len r <= umax ->
    walk (S (S fuel)) prm (pinit [r]) = [(r_start r, r_len r)].
Proof. exact no_chunk_whole_region. Qed.

Theorem C19_chunk_len_bound :
  forall prm c cs, chunk prm = Some cs -> snd (describe prm c) <= round_page cs (page prm).
Proof. exact chunk_len_bound. Qed.

Theorem C19_short_chunk_is_last :
  forall prm c cs, chunk prm = Some cs -> r_len (c_reg c) <= umax ->
    snd (describe prm c) < round_page cs (page prm) -> advance prm c = None.
Proof. exact short_chunk_is_last. Qed.

Theorem C19_next_region :
  forall prm l c r rest, advance prm c = None ->
    next_position prm {| pending := r :: rest; current := Some c; listing := l |}
    = {| pending := rest; current := Some {| c_reg := r; c_off := 0 |}; listing := l |}.
Proof. exact next_region. Qed.

Theorem C19_fetch_cap :
  forall prm c, fetch_len prm c = N.min (snd (describe prm c)) (round_page (max_fetch prm) (page prm)).
Proof. exact fetch_cap. Qed.

Theorem C19_reset :
  forall m prm l ops ops',
    prun m prm (model_reset (pstate_after m prm (pinit l) ops)) ops' = prun m prm (pinit l) ops'.
Proof. exact reset_is_fresh. Qed.

Theorem C19_pagemap :
  forall b, b < 16 -> page_from_mem b = spec_page_from_mem b.
Proof. exact pagemap_table. Qed.

(* what may be lost: an occurrence [a, a+n) inside a tiled mapping starts in exactly one chunk, and either
   lies wholly inside that chunk (then only the fetch cap can hide it) or straddles the chunk's end *)
Theorem C19_occurrence_in_one_chunk :
  forall start len l a n,
    Tiles start len l -> 0 < n -> start <= a -> a + n <= start + len ->
    exists c, In c l /\ in_chunk a c
              /\ (forall c', In c' l -> in_chunk a c' -> c' = c)
              /\ (a + n <= fst c + snd c \/ (a < fst c + snd c < a + n)).
Proof. exact occurrence_in_one_chunk. Qed.

(* non-vacuity: a concrete region meets the hypotheses of C19_chunks_tile *)
Example C19_tile_example :
  Tiles 65536 12288 (walk 4 {| chunk := Some 5000; max_fetch := 100; page := 4096 |}
     (pinit [{| r_start := 65536; r_len := 12288; r_backed := false; r_foff := 0; r_file := [] |}])).
Proof. vm_compute. reflexivity. Qed.

Print Assumptions C19_chunks_tile.
Print Assumptions C19_no_chunk_whole_region.
Print Assumptions C19_chunk_len_bound.
Print Assumptions C19_short_chunk_is_last.
Print Assumptions C19_next_region.
Print Assumptions C19_fetch_cap.
Print Assumptions C19_reset.
Print Assumptions C19_pagemap.
Print Assumptions C19_occurrence_in_one_chunk.
