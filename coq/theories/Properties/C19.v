(* Properties/C19.v — pinned statements only. *)
From Boreal Require Import Base.Prelude Model.Process Spec.ProcessSpec Proofs.ProcessProofs Proofs.FetchProofs Proofs.ProcessCover.

Theorem C19_chunks_tile :
  forall prm r cs fuel,
    chunk prm = Some cs -> 0 < page prm ->
    0 < r_len r -> r_start r + r_len r <= umax ->
    r_len r <= N.of_nat fuel * round_page cs (page prm) ->
    Tiles (r_start r) (r_len r) (walk (S fuel) prm (pinit [r])).
Proof. exact chunks_tile. Qed.

Theorem C19_no_chunk_whole_region :
  forall prm r fuel, chunk prm = None -> r_start r + r_len r <= umax ->
    walk (S (S fuel)) prm (pinit [r]) = [(r_start r, r_len r)].
Proof. exact no_chunk_whole_region. Qed.

Theorem C19_chunk_len_bound :
  forall prm c cs, chunk prm = Some cs -> snd (describe prm c) <= round_page cs (page prm).
Proof. exact chunk_len_bound. Qed.

Theorem C19_short_chunk_is_last :
  forall prm c cs, chunk prm = Some cs -> r_len (c_reg c) <= umax ->
    snd (describe prm c) < round_page cs (page prm) -> advance prm c = None.
Proof. exact short_chunk_is_last. Qed.

Theorem C19_next_region :
  forall prm l c r rest, advance prm c = None ->
    next_position prm {| pending := r :: rest; current := Some c; listing := l |}
    = {| pending := rest; current := Some {| c_reg := r; c_off := 0 |}; listing := l |}.
Proof. exact next_region. Qed.

Theorem C19_fetch_cap :
  forall prm c, fetch_len prm c = N.min (snd (describe prm c)) (round_page (max_fetch prm) (page prm)).
Proof. exact fetch_cap. Qed.

Theorem C19_reset :
  forall m prm l ops ops',
    prun m prm (model_reset (pstate_after m prm (pinit l) ops)) ops' = prun m prm (pinit l) ops'.
Proof. exact reset_is_fresh. Qed.

Theorem C19_pagemap :
  forall b, b < 16 -> page_from_mem b = spec_page_from_mem b.
Proof. exact pagemap_table. Qed.

(* what may be lost: an occurrence [a, a+n) inside a tiled mapping starts in exactly one chunk, and either
   lies wholly inside that chunk (then only the fetch cap can hide it) or straddles the chunk's end *)
Theorem C19_occurrence_in_one_chunk :
  forall start len l a n,
    Tiles start len l -> 0 < n -> start <= a -> a + n <= start + len ->
    exists c, In c l /\ in_chunk a c
              /\ (forall c', In c' l -> in_chunk a c' -> c' = c)
              /\ (a + n <= fst c + snd c \/ (a < fst c + snd c < a + n)).
Proof. exact occurrence_in_one_chunk. Qed.

(* what a tiling covers: exactly the addresses of the mapping, no more and no fewer; the chunk lengths add
   up to the mapping's length; and two different chunk sizes see the same addresses *)
Theorem C19_tiles_cover_exactly :
  forall start len l a,
    Tiles start len l -> ((exists c, In c l /\ in_chunk a c) <-> start <= a < start + len).
Proof. exact tiles_cover_exactly. Qed.

Theorem C19_tiles_total_len :
  forall start len l, Tiles start len l -> total_len l = len.
Proof. exact tiles_total_len. Qed.

Theorem C19_chunkings_same_addresses :
  forall prm1 prm2 r cs1 cs2 fuel1 fuel2 a,
    chunk prm1 = Some cs1 -> 0 < page prm1 -> chunk prm2 = Some cs2 -> 0 < page prm2 ->
    0 < r_len r -> r_start r + r_len r <= umax ->
    r_len r <= N.of_nat fuel1 * round_page cs1 (page prm1) ->
    r_len r <= N.of_nat fuel2 * round_page cs2 (page prm2) ->
    ((exists c, In c (walk (S fuel1) prm1 (pinit [r])) /\ in_chunk a c)
     <-> (exists c, In c (walk (S fuel2) prm2 (pinit [r])) /\ in_chunk a c)).
Proof. exact chunkings_same_addresses. Qed.

(* non-vacuity: a concrete region meets the hypotheses of C19_chunks_tile *)
(* The pagemap optimisation is transparent: a fetch of a file-backed chunk — file-backed pages read from the
   backing file (zero past its end), the pages the pagemap marks present-or-swapped and not file-backed
   re-read from /proc/pid/mem, and (since the repair of C19-shared-tail-beyond-eof) the present page that
   holds the end of the file re-read too — returns exactly the process's own view of the chunk, whenever the
   kernel is coherent (a page not sent to memory holds the file's bytes).  Every mapping, file length, file
   offset, chunk position, fetch cap and set of modified pages.  The coherence hypothesis no longer covers
   the page holding the end of the file when the process has touched it: what a shared mapping wrote there
   past the end of the file is exactly what the hypothesis was false for. *)
Theorem C19_fetch_is_view :
  forall fs prm c view,
    0 < page prm -> r_backed (c_reg c) = true ->
    let st := fst (describe prm c) in
    let ln := fetch_len prm c in
    let off := c_off c + r_foff (c_reg c) in
    let npages := ln / page prm in
    let buf0 := firstn (N.to_nat (N.min (r_fsize (c_reg c) - off) ln)) (skipn (N.to_nat off) (r_file (c_reg c)))
                ++ zeros (ln - N.min (r_fsize (c_reg c) - off) ln) in
    ln mod page prm = 0 ->
    off <= r_fsize (c_reg c) ->
    st / page prm + npages <= pm_entries fs ->
    read_mem fs st ln = Some view ->
    (forall i k, i < npages ->
                 page_reread fs (st / page prm) (partial_page (page prm) (r_fsize (c_reg c) - off) ln) i = false ->
                 (k < N.to_nat (page prm))%nat ->
                 nth (N.to_nat (i * page prm) + k) view 0 = nth (N.to_nat (i * page prm) + k) buf0 0) ->
    model_fetch fs prm c = OFetched st view.
Proof. exact fetch_is_view. Qed.

(* what a read of /proc/pid/mem returns, byte by byte: the last segment written over each address, zero
   elsewhere; a read inside a larger read is the corresponding slice *)
Theorem C19_read_mem_slice :
  forall fs a len v o l, read_mem fs a len = Some v -> o + l <= len ->
    read_mem fs (a + o) l = Some (firstn (N.to_nat l) (skipn (N.to_nat o) v)).
Proof. exact read_mem_slice. Qed.

(* non-vacuity: pages of 4 bytes, a 2-page mapping at 8 of a 6-byte file; the process modified its first page
   (pagemap: present, not file-backed) and left the second one alone (file bytes 5, 6 then zeros) *)
Example C19_fetch_example :
  let fs := {| mem_size := 32; mem_segs := [(8, [9; 9; 9; 9; 5; 6; 0; 0])]; pm_entries := 8; pm_bits := [(2, 8)] |} in
  let prm := {| chunk := None; max_fetch := 1000; page := 4 |} in
  let c := {| c_reg := {| r_start := 8; r_len := 8; r_backed := true; r_foff := 0; r_file := [1; 2; 3; 4; 5; 6] |}; c_off := 0 |} in
  read_mem fs 8 8 = Some [9; 9; 9; 9; 5; 6; 0; 0]
  /\ model_fetch fs prm c = OFetched 8 [9; 9; 9; 9; 5; 6; 0; 0]
  /\ page_from_mem (assoc_bits (pm_bits fs) 2) = true /\ page_from_mem (assoc_bits (pm_bits fs) 3) = false.
Proof. vm_compute. repeat split. Qed.

(* the repaired case: the same mapping; the process wrote 7, 7 past the end of the file through a shared
   mapping: the second page is present and still file-backed (bits 1010) and holds the end of the file, so it
   is re-read and the fetch returns the process's view *)
Example C19_shared_tail_example :
  let fs := {| mem_size := 32; mem_segs := [(8, [1; 2; 3; 4; 5; 6; 7; 7])]; pm_entries := 8; pm_bits := [(3, 10)] |} in
  let prm := {| chunk := None; max_fetch := 1000; page := 4 |} in
  let c := {| c_reg := {| r_start := 8; r_len := 8; r_backed := true; r_foff := 0; r_file := [1; 2; 3; 4; 5; 6] |}; c_off := 0 |} in
  model_fetch fs prm c = OFetched 8 [1; 2; 3; 4; 5; 6; 7; 7]
  /\ page_from_mem (assoc_bits (pm_bits fs) 3) = false
  /\ page_reread fs 2 (partial_page 4 6 8) 1 = true.
Proof. vm_compute. repeat split. Qed.

Example C19_tile_example :
  Tiles 65536 12288 (walk 4 {| chunk := Some 5000; max_fetch := 100; page := 4096 |}
     (pinit [{| r_start := 65536; r_len := 12288; r_backed := false; r_foff := 0; r_file := [] |}])).
Proof. vm_compute. reflexivity. Qed.

Print Assumptions C19_chunks_tile.
Print Assumptions C19_no_chunk_whole_region.
Print Assumptions C19_chunk_len_bound.
Print Assumptions C19_short_chunk_is_last.
Print Assumptions C19_next_region.
Print Assumptions C19_fetch_cap.
Print Assumptions C19_reset.
Print Assumptions C19_pagemap.
Print Assumptions C19_occurrence_in_one_chunk.
Print Assumptions C19_fetch_is_view.
Print Assumptions C19_read_mem_slice.
Print Assumptions C19_tiles_cover_exactly.
Print Assumptions C19_tiles_total_len.
Print Assumptions C19_chunkings_same_addresses.
