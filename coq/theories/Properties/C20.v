(* Properties/C20.v — pinned statements only.
   Model: Model/Include.v (boreal/src/compiler/mod.rs add_rules_file_inner / add_rules_str_inner /
   add_component, after "fix: limit the nesting of include directives to 16 levels").
   Spec: Spec/IncludeSpec.v (textual inlining; the first problem in inlined document order decides). *)
From Coq Require Import String.
From Boreal Require Import Base.Prelude Spec.IncludeSpec Model.Include Model.IncludeCase
     Proofs.IncludeProofs Proofs.IncludeConcrete.
Open Scope string_scope.
Open Scope list_scope.

(* Compiling a document with includes = compiling its inlined items with the include-free compiler:
   same result (Ok / error kind), same Scanner::rules(), same scan results.  `c_inline` marks the places
   where inlining is undefined with the error expected there. *)
Theorem C20_model_is_inline :
  forall en ns d c doc a,
    let m := c_add_doc d en ns c doc a in
    let s := c_compile a ns (c_doc_items (c_inline en ns d) c doc) in
    snd m = snd s /\ listing (fst m) = listing (fst s) /\ scan_matched (fst m) = scan_matched (fst s).
Proof. exact c_add_doc_inline. Qed.

(* Success: the pure textual inlining (no markers, relation `Inl`) exists within the depth limit and the
   scanner is the one obtained from the inlined components, in order. *)
Theorem C20_transparent :
  forall en ns c cs a a1,
    c_add_doc MAX_INCLUDE_DEPTH en ns c (FText cs) a = (a1, None) ->
    exists xs b1, c_Inl en ns MAX_INCLUDE_DEPTH c cs xs
                  /\ c_compile a ns (map c_IPlain xs) = (b1, None)
                  /\ listing a1 = listing b1 /\ scan_matched a1 = scan_matched b1.
Proof. exact c_transparent_max. Qed.

(* Conversely: whenever the include graph below the document is finite with nesting <= 16
   ("acyclic within the depth limit"), the result (ok or error) is that of the inlined components. *)
Theorem C20_transparent_complete :
  forall en ns n c cs xs a,
    c_Inl en ns n c cs xs -> (n <= MAX_INCLUDE_DEPTH)%nat -> e_disabled en = false ->
    let m := c_add_doc MAX_INCLUDE_DEPTH en ns c (FText cs) a in
    let s := c_compile a ns (map c_IPlain xs) in
    snd m = snd s /\ listing (fst m) = listing (fst s) /\ scan_matched (fst m) = scan_matched (fst s).
Proof. exact c_transparent_complete_max. Qed.

(* the inlined text of a document is unique *)
Theorem C20_inline_functional :
  forall en ns n m c cs xs ys, e_disabled en = false ->
    c_Inl en ns n c cs xs -> c_Inl en ns m c cs ys -> xs = ys.
Proof. exact c_Inl_functional. Qed.

(* An error is the error of the first problem in inlined document order: missing file, error inside an
   included file, duplicate rule, ...; the rules added before it are the same. *)
Theorem C20_error_same :
  forall en ns c doc a a1 k,
    c_add_doc MAX_INCLUDE_DEPTH en ns c doc a = (a1, Some k) ->
    exists b1, c_compile a ns (c_doc_items (c_inline en ns MAX_INCLUDE_DEPTH) c doc) = (b1, Some k)
               /\ listing a1 = listing b1 /\ scan_matched a1 = scan_matched b1.
Proof. exact c_error_same_max. Qed.

(* The recursion of the code as written (depth counter counting up, compared with the limit) returns for
   every include graph — cyclic, self-referential, arbitrarily deep — with 17 levels of recursion, and its
   result is the structurally recursive model. *)
Theorem C20_total :
  forall en ns fuel c doc a, (MAX_INCLUDE_DEPTH < fuel)%nat ->
    c_add_doc_fuel (Some MAX_INCLUDE_DEPTH) fuel 0 en ns c doc a
    = Some (c_add_doc MAX_INCLUDE_DEPTH en ns c doc a).
Proof. exact c_total. Qed.

(* ... and 17 is needed: the depth bound is tight (self-including file, 16 levels of fuel do not suffice) *)
Theorem C20_depth_bound_tight :
  exists (en : env plain) ns c doc a, c_add_doc_fuel (Some MAX_INCLUDE_DEPTH) MAX_INCLUDE_DEPTH 0 en ns c doc a = None.
Proof. exact c_total_tight. Qed.

(* Inlining is the concatenation, in document order, of what each component stands for — depth-first, since
   the expansion of a directive is the same concatenation one level down (`expand` calls `inline (d-1)`). *)
Theorem C20_inline_is_dfs_concat :
  forall en ns d c cs,
    c_inline en ns d c cs = flat_map (expand plain cerr en ns (srec plain cerr en ns d) c) cs.
Proof. exact c_inline_concat. Qed.

(* There is no include-once: a directive written twice stands for its content twice ... *)
Theorem C20_no_include_once :
  forall en ns d c name rest,
    c_inline en ns d c (inl name :: inl name :: rest)
    = expand plain cerr en ns (srec plain cerr en ns d) c (inl name)
      ++ expand plain cerr en ns (srec plain cerr en ns d) c (inl name) ++ c_inline en ns d c rest.
Proof. exact c_include_twice. Qed.

(* ... so a rule met a second time in the same namespace is an error (duplicate rule, or its own rule-set
   prefix): a file holding a rule cannot be included twice, one holding only imports can. *)
Theorem C20_rule_twice_fails :
  forall st ns r st1,
    c_step (c_touch st ns) ns (PRule r) = (st1, None) ->
    exists e, snd (c_step (c_touch st1 ns) ns (PRule r)) = Some e /\ (e = CDupRule \/ e = CWildcard).
Proof. exact c_rule_twice_fails. Qed.

(* a directive that leads back to the document it is in is rejected with the depth error *)
Theorem C20_cycle_rejected :
  forall en ns c name, e_disabled en = false ->
    c_resolve en ns c name = inr (c, FText [inl name]) ->
    forall a, snd (c_add_doc MAX_INCLUDE_DEPTH en ns c (FText [inl name]) a) = Some ETooDeep.
Proof. exact c_cycle. Qed.

(* Pinned tree (no limit): refuted — a file including itself never returns (stack overflow, DESIGN 9.17). *)
Theorem C20_total_pinned_refuted :
  exists (en : env plain) ns c doc, forall fuel a, c_add_doc_fuel None fuel 0 en ns c doc a = None.
Proof. exact c_pinned_refuted. Qed.

(* With includes disabled, a directive reached without an earlier error is UnauthorizedInclude, whatever
   the file system or the callback hold, and the callback is not invoked. *)
Theorem C20_disabled :
  forall en ns d c pre name post a b1,
    e_disabled en = true ->
    c_compile a ns (map c_IPlain pre) = (b1, None) ->
    exists a1, c_add_doc d en ns c (FText (map inr pre ++ inl name :: post)) a = (a1, Some EUnauthorized)
               /\ listing a1 = listing b1 /\ c_log a1 = c_log a.
Proof. exact c_disabled. Qed.

(* Resolution, file-system mode: `canonicalize` is the path walk specified by `Resolves` ... *)
Theorem C20_resolution_walk :
  forall (fs : fsys plain) segs d q, walk fs d segs = Some q <-> Resolves fs d segs q.
Proof. exact c_walk_Resolves. Qed.

(* ... a relative directive inside an included file is walked from the directory of that file ... *)
Theorem C20_resolution_nested :
  forall (en : env plain) p name isegs,
    Reach plain (e_fs en) p -> segs_of name = (false, isegs) ->
    fs_target plain en (CurCanon p) name = walk (e_fs en) (removelast p) isegs.
Proof. exact c_nested_relative. Qed.

(* ... and every resolved target is again a canonical existing path (so the previous theorem applies
   at every nesting level). *)
Theorem C20_resolution_canonical :
  forall (en : env plain) c name q,
    Reach plain (e_fs en) (e_cwd en) ->
    fs_target plain en c name = Some q -> Reach plain (e_fs en) q.
Proof. exact c_target_reach. Qed.

(* canonicalization is idempotent: its result is a fixed point (names only, every prefix an existing directory) *)
Theorem C20_canonicalize_idempotent :
  forall (fs : fsys plain) segs d q,
    Reach plain fs d -> walk fs d segs = Some q -> walk fs [] (map SName q) = Some q.
Proof. exact (canonicalize_idempotent plain). Qed.

(* Callback mode: the callback receives (directive text, current path, namespace) as they are; what it
   returns is compiled with the directive text as the new current path. *)
Theorem C20_resolution_callback :
  forall en ns tbl rc c name a,
    e_cb en = Some tbl -> e_disabled en = false ->
    add_cs plain cstate cerr c_step c_touch c_log_call (Some rc) en ns c [inl name] a =
    let a1 := c_log_call (c_touch a ns) (name, cur_arg c, ns) in
    match cb_lookup tbl name (cur_arg c) ns with
    | None => (a1, Some EInvalidInclude)
    | Some doc => match rc (CurRaw name) doc a1 with (a2, None) => (a2, None) | bad => bad end
    end.
Proof. exact c_callback_verbatim. Qed.

(* ---- non-vacuity: a nested tree with `../`, compiled by the model, is its inlined text *)
Definition ex_rule (n : string) (deps : list string) : string + plain :=
  inr (PRule {| r_name := n; r_global := false; r_private := false; r_deps := deps; r_mods := [];
                r_wild := []; r_bad := false; r_val := true |}).
Definition ex_env : env plain :=
  {| e_fs := [ (["a"], NDir); (["a"; "b"], NDir);
               (["top.yar"], NFile (FText [ex_rule "r0" []; inl "a/b/x.yar"; ex_rule "r3" ["r2"]]));
               (["a"; "b"; "x.yar"], NFile (FText [ex_rule "r1" ["r0"]; inl "../y.yar"]));
               (["a"; "y.yar"], NFile (FText [ex_rule "r2" ["r1"]])) ];
     e_cwd := []; e_cb := None; e_disabled := false |}.

Example C20_example_transparent :
  model_outcome ex_env [AddFile plain "top.yar" "default"]
  = {| o_results := [None];
       o_rules := [("default", "r0", false, false); ("default", "r1", false, false);
                   ("default", "r2", false, false); ("default", "r3", false, false)];
       o_matched := [("default", "r0"); ("default", "r1"); ("default", "r2"); ("default", "r3")];
       o_log := [] |}.
Proof. vm_compute. reflexivity. Qed.

(* a cycle of length two is rejected with the depth error, the rules seen before it stay *)
Definition ex_cycle : env plain :=
  {| e_fs := [ (["p.yar"], NFile (FText [inl "q.yar"])); (["q.yar"], NFile (FText [inl "p.yar"])) ];
     e_cwd := []; e_cb := None; e_disabled := false |}.
Example C20_example_cycle :
  o_results (model_outcome ex_cycle [AddFile plain "p.yar" "default"]) = [Some ETooDeep].
Proof. vm_compute. reflexivity. Qed.

(* the hypotheses of C20_resolution_nested / _canonical hold of the example tree *)
Example C20_example_reach :
  Reach plain (e_fs ex_env) ["a"; "b"; "x.yar"] /\ segs_of "../y.yar" = (false, [SUp; SName "y.yar"])
  /\ fs_target plain ex_env (CurCanon ["a"; "b"; "x.yar"]) "../y.yar" = Some ["a"; "y.yar"].
Proof. vm_compute. repeat split. Qed.

(* a shared leaf that only imports can be included twice; one that defines a rule cannot *)
Definition ex_dag (leaf : list (string + plain)) : env plain :=
  {| e_fs := [ (["t.yar"], NFile (FText [inl "l.yar"; inl "l.yar"])); (["l.yar"], NFile (FText leaf)) ];
     e_cwd := []; e_cb := None; e_disabled := false |}.
Example C20_example_include_twice :
  (o_results (model_outcome (ex_dag [inr (PImport "math")]) [AddFile plain "t.yar" "default"]),
   o_results (model_outcome (ex_dag [ex_rule "r" []]) [AddFile plain "t.yar" "default"]))
  = ([None], [Some (ECompile CDupRule)]).
Proof. vm_compute. reflexivity. Qed.

Print Assumptions C20_model_is_inline.
Print Assumptions C20_depth_bound_tight.
Print Assumptions C20_inline_is_dfs_concat.
Print Assumptions C20_no_include_once.
Print Assumptions C20_rule_twice_fails.
Print Assumptions C20_canonicalize_idempotent.
Print Assumptions C20_transparent.
Print Assumptions C20_transparent_complete.
Print Assumptions C20_inline_functional.
Print Assumptions C20_error_same.
Print Assumptions C20_total.
Print Assumptions C20_cycle_rejected.
Print Assumptions C20_total_pinned_refuted.
Print Assumptions C20_disabled.
Print Assumptions C20_resolution_walk.
Print Assumptions C20_resolution_nested.
Print Assumptions C20_resolution_canonical.
Print Assumptions C20_resolution_callback.
