(* Properties/C18.v — pinned statements only. *)
From Coq Require Import String Ascii Permutation.
From Boreal Require Import Base.Prelude Spec.CliSpec Model.Cli Model.Pool Proofs.PoolProofs Proofs.CliProofs.

(* Every schedule of the thread pool (producer walking the target, bounded channel of any capacity,
   n workers): when the process is about to exit, each path the producer sent has been scanned
   exactly once ... *)
Theorem C18_exactly_once :
  forall (o : cb_options) (io : in_options) (lib : libfn) (t : target) (n cap : nat) (s : Pool.state bytes line),
    reachable (worker_blocks o lib) cap (init (producer io t) n) s -> terminal s ->
    Permutation (scanned s) (sent_files (producer io t)).
Proof. exact cli_exactly_once. Qed.

(* ... and what has been written (stdout and stderr lines) is a permutation of the sequential
   reference cli_run: the producer's own lines and, for every sent path, the lines of its scan *)
Theorem C18_multiset :
  forall (o : cb_options) (io : in_options) (lib : libfn) (t : target) (n cap : nat) (s : Pool.state bytes line),
    (forall p, t <> TFile p) ->
    reachable (worker_blocks o lib) cap (init (producer io t) n) s -> terminal s ->
    Permutation (out s) (fst (cli_run o io lib t)).
Proof. exact cli_multiset. Qed.

Theorem C18_stdout_multiset :
  forall (o : cb_options) (io : in_options) (lib : libfn) (t : target) (n cap : nat) (s : Pool.state bytes line),
    (forall p, t <> TFile p) ->
    reachable (worker_blocks o lib) cap (init (producer io t) n) s -> terminal s ->
    Permutation (stdout_of (out s)) (stdout_of (fst (cli_run o io lib t))).
Proof. exact cli_stdout_multiset. Qed.

(* Atomicity: the sequence of blocks written (one block per stdout-lock acquisition: the lines of one
   rule event, or one count line, or one line of the producer) is an interleaving of the producer's
   lines and of the complete block lists of the scanned files, every file's blocks in their own order;
   the output is the concatenation of these blocks, so no block is ever split. *)
Theorem C18_interleaving :
  forall (o : cb_options) (io : in_options) (lib : libfn) (t : target) (n cap : nat) (s : Pool.state bytes line),
    reachable (worker_blocks o lib) cap (init (producer io t) n) s -> terminal s ->
    out s = concat (log s)
    /\ Permutation (scanned s) (sent_files (producer io t))
    /\ MergeR (map (fun l => [l]) (producer_lines (producer io t)) :: map (worker_blocks o lib) (scanned s)) (log s).
Proof. exact cli_interleaving. Qed.

(* what MergeR means *)
Theorem C18_merge_subseq :
  forall (B : Type) (ls : list (list B)) (lg : list B), MergeR ls lg -> forall l, In l ls -> Subseq l lg.
Proof. exact (@MergeR_subseq). Qed.
Theorem C18_merge_perm :
  forall (B : Type) (ls : list (list B)) (lg : list B), MergeR ls lg -> Permutation (concat ls) lg.
Proof. exact (@MergeR_perm_concat). Qed.

(* the same two statements for an arbitrary pool (any file type, any per-file blocks) *)
Theorem C18_pool_exactly_once :
  forall (F L : Type) (blocks_of : F -> list (list L)) (cap : nat) (acts : list (L + F)) (n : nat) (s : Pool.state F L),
    reachable blocks_of cap (init acts n) s -> terminal s -> Permutation (scanned s) (sent_of acts).
Proof. exact exactly_once. Qed.

Theorem C18_pool_invariant :
  forall (F L : Type) (blocks_of : F -> list (list L)) (cap : nat) (acts : list (L + F)) (n : nat) (s : Pool.state F L),
    reachable blocks_of cap (init acts n) s -> Inv F L blocks_of acts s.
Proof. exact inv_reachable. Qed.

(* no deadlock: with at least one worker and a channel of capacity >= 1, a reachable state that is
   not terminal can take a step *)
Theorem C18_progress :
  forall (o : cb_options) (io : in_options) (lib : libfn) (t : target) (n cap : nat) (s : Pool.state bytes line),
    (0 < n)%nat -> (0 < cap)%nat ->
    reachable (worker_blocks o lib) cap (init (producer io t) n) s -> ~ terminal s ->
    exists s', step (worker_blocks o lib) cap s s'.
Proof. exact cli_progress. Qed.

(* every schedule is finite: a run of k steps from s satisfies k <= measure s (the model of a scan is
   a finite list of blocks; that real scans terminate is not part of this statement) *)
Theorem C18_run_bounded :
  forall (o : cb_options) (lib : libfn) (cap k : nat) (s s' : Pool.state bytes line),
    run _ _ (worker_blocks o lib) cap k s s' ->
    (k + measure (worker_blocks o lib) s' <= measure (worker_blocks o lib) s)%nat.
Proof. exact cli_run_bounded. Qed.

(* ... and from every reachable state some run ends in a terminal state: with C18_progress (only
   terminal states are stuck) and C18_run_bounded (no infinite run) every maximal run of the model
   ends with the process exiting *)
Theorem C18_completes :
  forall (o : cb_options) (io : in_options) (lib : libfn) (t : target) (n cap : nat) (s : Pool.state bytes line),
    (0 < n)%nat -> (0 < cap)%nat ->
    reachable (worker_blocks o lib) cap (init (producer io t) n) s ->
    exists k s', run _ _ (worker_blocks o lib) cap k s s' /\ terminal s'.
Proof. exact cli_completes. Qed.

(* `--threads n` gives at least one worker, hence a channel of capacity >= 5 *)
Theorem C18_threads_positive :
  forall io available, 1 <= available -> 1 <= nb_threads io available.
Proof. exact nb_threads_positive. Qed.

Theorem C18_threads_pinned_refuted : exists io, nb_threads_pinned io 16 = 0.
Proof. exact nb_threads_pinned_refuted. Qed.

(* near-restatement: the ScanParams main.rs installs meet the documented meaning of the options *)
Theorem C18_params : forall s o, spec_params_ok s o (params_of_flags s o) = true.
Proof. exact params_meet_spec. Qed.

(* near-restatement: for one scanned file the model's stdout lines are the documented rendering of
   the library's result list (negate, limit, count, -i / -t filters, -s -L -X -m -g -e), given the
   library's callback events are what `lib_events` says (its two APIs agree; checked per case by the
   correspondence, proved nowhere here) *)
Theorem C18_render :
  forall o ds what rs,
    o_limit o <> Some 0 -> results_ok ds rs ->
    spec_file_lines o ds what (Some rs)
    = Some (stdout_of (worker_lines o (fun _ => inr (lib_events o ds rs)) what)).
Proof. exact render_file. Qed.

(* the callback loop stops right after the event that makes nb_rules reach the limit *)
Theorem C18_limit :
  forall o what evs, forallb is_rule evs = true -> forall nb,
    match o_limit o with Some lim => nb < lim | None => True end ->
    run_events o what evs nb = (map (block_of o what) (take_limit o nb evs), nb + nlen (take_limit o nb evs)).
Proof. exact run_events_rules. Qed.

(* `ns:path` and `VAR=VALUE` are cut at the first separator *)
Theorem C18_split_once :
  forall sep s a b, split_once sep s = Some (a, b) -> s = a ++ sep :: b /\ ~ In sep a.
Proof. exact split_once_spec. Qed.

Theorem C18_parse_i64_range :
  forall s z, parse_i64 s = Some z -> (-9223372036854775808 <= z <= 9223372036854775807)%Z.
Proof. exact parse_i64_range. Qed.

Example C18_parse_define_examples :
  map parse_define [B "x=+5"; B "x=9223372036854775808"; B "x=1.2.3"; B "x=1.5e3"; B "x=a=b"; B "x"; B "x=true"]
  = [Some (B "x", XInt 5%Z); Some (B "x", XBytes (B "9223372036854775808")); Some (B "x", XBytes (B "1.2.3"));
     Some (B "x", XFloat (B "1.5e3")); Some (B "x", XBytes (B "a=b")); None; Some (B "x", XBool true)].
Proof. vm_compute. reflexivity. Qed.

(* `list-modules` / `yr -M`: the library's module names, each once, in ascending byte order *)
Theorem C18_list_modules :
  forall available, Permutation (list_modules available) available /\ SortedB (list_modules available).
Proof. exact list_modules_sorted_perm. Qed.

(* `yr`: accepted iff a target and at least one rules argument are given, exactly one with -C *)
Theorem C18_yr_args :
  forall load positional,
    from_yr_args false load positional <> YrError <->
    (2 <= length positional)%nat /\ (load = true -> length positional = 2%nat).
Proof. exact from_yr_args_ok. Qed.

(* non-vacuity: a terminal state is reachable (2 files, a producer line, 2 workers, capacity 10),
   with the blocks of the two files interleaved *)
Example C18_example_run :
  exists s, reachable ex_blocks 10 (init [inr 1; inl 7; inr 2] 2) s /\ terminal s
            /\ out s = [7; 2; 102; 1; 101; 201; 202].
Proof. exact example_run. Qed.

(* non-vacuity of C18_render: a declared rule with a private and a public string, -s -n -l 2 *)
Example C18_render_example :
  let d := {| d_info := {| r_ns := B "default"; r_name := B "a"; r_tags := [B "t1"]; r_metas := [(B "i", MInt (-5)%Z)] |};
              d_private := false; d_global := false; d_strings := [(B "x", false); (B "p", true)] |} in
  let r := {| rr_ns := B "default"; rr_name := B "a"; rr_matched := false;
              rr_strings := [(B "x", [{| m_base := 0; m_offset := 16; m_length := 3; m_key := 1; m_data := [96; 99; 98] |}])] |} in
  let o := {| o_strings := true; o_length := true; o_xor := true; o_meta := true; o_ns := true; o_tags := true;
              o_count := false; o_stats := false; o_module_data := false; o_match_max_length := None;
              o_limit := Some 2; o_ident := None; o_tag := Some (B "t1"); o_negate := true; o_warning := WPrint |} in
  spec_file_lines o [d] (B "t/f") (Some [r])
  = Some [B "default:a [t1] [i=-5] t/f"; B "0x10:3:$x:xor(0x01,abc): `cb"].
Proof. vm_compute. reflexivity. Qed.

Print Assumptions C18_exactly_once.
Print Assumptions C18_multiset.
Print Assumptions C18_stdout_multiset.
Print Assumptions C18_interleaving.
Print Assumptions C18_merge_subseq.
Print Assumptions C18_merge_perm.
Print Assumptions C18_pool_exactly_once.
Print Assumptions C18_pool_invariant.
Print Assumptions C18_progress.
Print Assumptions C18_run_bounded.
Print Assumptions C18_completes.
Print Assumptions C18_threads_positive.
Print Assumptions C18_threads_pinned_refuted.
Print Assumptions C18_params.
Print Assumptions C18_split_once.
Print Assumptions C18_list_modules.
Print Assumptions C18_yr_args.
Print Assumptions C18_parse_i64_range.
Print Assumptions C18_render.
Print Assumptions C18_limit.
