(* Properties/C12.v — pinned statements only. *)
From Boreal Require Import Base.Prelude Base.ListX Base.Bytes Model.Literals Model.Ac Model.AcScan
  Proofs.AcScanDecomp Proofs.AcScanAppend.
From Coq Require Import Permutation.

(* One automaton over the lower-cased, de-duplicated atoms of ALL strings, fanned out to
   (variable, literal, slice offset): each string gets exactly what it computes from its own atoms
   alone (`scan_var_direct`), for every matcher kind, whatever the other strings are. *)
Theorem C12_per_variable :
  forall prm vars mem, scan_direct prm vars mem = map (fun var => scan_var_direct prm var mem) vars.
Proof. exact scan_direct_per_variable. Qed.

Theorem C12_per_variable_fragmented :
  forall prm vars regions,
    scan_fragmented prm vars regions = map (fun var => scan_var_fragmented prm var regions) vars.
Proof. exact scan_fragmented_per_variable. Qed.

(* a string compiled with others reports what it reports compiled alone *)
Theorem C12_alone :
  forall prm vars mem k var, nth_error vars k = Some var ->
    nth_error (scan_direct prm vars mem) k = nth_error (scan_direct prm [var] mem) 0.
Proof. exact scan_direct_alone. Qed.

(* the candidates (literal, span) a string receives do not depend on the other strings: the same
   sequence, in the same order, with the shared pattern table or with its own *)
Theorem C12_candidates_own :
  forall vars k var rg, nth_error vars k = Some var ->
    var_cands (acscan_new vars) (N.of_nat k) rg
              (ac_find_overlapping (acs_pats (acscan_new vars)) (rg_mem rg))
    = own_cands var rg.
Proof. exact var_cands_own. Qed.

(* per region, from any accumulated state (used by C11) *)
Theorem C12_region_per_variable :
  forall prm vars rg (g : matcher -> list smatch),
    scan_region (acscan_new vars) prm vars rg (map g vars)
    = map (fun var => scan_var_region prm var rg (g var)) vars.
Proof. exact scan_region_per_variable. Qed.

(* ---- sets of strings: A compiled together with any other strings ---- *)
(* A and B together: A's results, then B's, each what it is alone *)
Theorem C12_union :
  forall prm va vb mem,
    scan_direct prm (va ++ vb) mem = scan_direct prm va mem ++ scan_direct prm vb mem.
Proof. exact scan_direct_app. Qed.

Theorem C12_union_fragmented :
  forall prm va vb regions,
    scan_fragmented prm (va ++ vb) regions
    = scan_fragmented prm va regions ++ scan_fragmented prm vb regions.
Proof. exact scan_fragmented_app. Qed.

(* unrelated strings before and after A: the slice belonging to A is exactly A alone *)
Theorem C12_embedded :
  forall prm pre va post mem,
    firstn (length va) (skipn (length pre) (scan_direct prm (pre ++ va ++ post) mem))
    = scan_direct prm va mem.
Proof. exact scan_direct_embedded. Qed.

Theorem C12_embedded_fragmented :
  forall prm pre va post regions,
    firstn (length va) (skipn (length pre) (scan_fragmented prm (pre ++ va ++ post) regions))
    = scan_fragmented prm va regions.
Proof. exact scan_fragmented_embedded. Qed.

(* the order in which strings are compiled permutes the results and changes none *)
Theorem C12_order :
  forall prm va vb mem,
    Permutation va vb -> Permutation (scan_direct prm va mem) (scan_direct prm vb mem).
Proof. exact scan_direct_perm. Qed.

Theorem C12_order_fragmented :
  forall prm va vb regions,
    Permutation va vb -> Permutation (scan_fragmented prm va regions) (scan_fragmented prm vb regions).
Proof. exact scan_fragmented_perm. Qed.

(* one string in two different sets, at any positions: the same matches *)
Theorem C12_same_string :
  forall prm va vb mem i j var,
    nth_error va i = Some var -> nth_error vb j = Some var ->
    nth_error (scan_direct prm va mem) i = nth_error (scan_direct prm vb mem) j.
Proof. exact scan_direct_same_string. Qed.

Theorem C12_same_string_fragmented :
  forall prm va vb regions i j var,
    nth_error va i = Some var -> nth_error vb j = Some var ->
    nth_error (scan_fragmented prm va regions) i = nth_error (scan_fragmented prm vb regions) j.
Proof. exact scan_fragmented_same_string. Qed.

(* The rule-level statement (verdicts of the rules of A unchanged by adding independent rules B)
   combines the theorem above with the positional variable alignment and namespace independence of
   C05 (C05_var_alignment, C05_ns_independent); it is checked on the implementation by the
   correspondence run (union versus alone) and not restated here. *)

Definition ex_vars : list matcher :=
  [ text_matcher {| t_text := [97;98;99;100;69;70]; t_ascii := true; t_wide := false; t_nocase := false;
                    t_fullword := false; t_xor := None; t_b64 := None |};
    text_matcher {| t_text := [65;66;67;68;101;102]; t_ascii := true; t_wide := false; t_nocase := true;
                    t_fullword := false; t_xor := None; t_b64 := None |};
    text_matcher {| t_text := [120;120;97;98;99;100]; t_ascii := true; t_wide := true; t_nocase := false;
                    t_fullword := false; t_xor := None; t_b64 := None |} ].
Example C12_example_shared_atoms :
  nlen (acs_pats (acscan_new ex_vars)) = 3
  /\ map (fun vm => map sm_off vm)
         (scan_direct {| p_match_max_length := 8; p_max_nb_matches := 10 |} ex_vars
                      [120;120;97;98;99;100;69;70;32;65;66;67;68;69;70]) = [[2]; [2; 9]; [0]].
Proof. vm_compute. split; reflexivity. Qed.

(* the set-level statements on a concrete set: the middle string alone, and the set reversed *)
Example C12_example_embedded :
  map (fun vm => map sm_off vm)
      (scan_direct {| p_match_max_length := 8; p_max_nb_matches := 10 |} (firstn 1 (skipn 1 ex_vars))
                   [120;120;97;98;99;100;69;70;32;65;66;67;68;69;70]) = [[2; 9]]
  /\ map (fun vm => map sm_off vm)
         (scan_direct {| p_match_max_length := 8; p_max_nb_matches := 10 |} (rev ex_vars)
                      [120;120;97;98;99;100;69;70;32;65;66;67;68;69;70]) = [[0]; [2; 9]; [2]].
Proof. vm_compute. split; reflexivity. Qed.

Print Assumptions C12_per_variable.
Print Assumptions C12_per_variable_fragmented.
Print Assumptions C12_alone.
Print Assumptions C12_candidates_own.
Print Assumptions C12_region_per_variable.
Print Assumptions C12_union.
Print Assumptions C12_union_fragmented.
Print Assumptions C12_embedded.
Print Assumptions C12_embedded_fragmented.
Print Assumptions C12_order.
Print Assumptions C12_order_fragmented.
Print Assumptions C12_same_string.
Print Assumptions C12_same_string_fragmented.
