(* Properties/C12.v — pinned statements only. *)
From Boreal Require Import Base.Prelude Base.ListX Base.Bytes Model.Literals Model.Ac Model.AcScan
  Proofs.AcScanDecomp.

(* One automaton over the lower-cased, de-duplicated atoms of ALL strings, fanned out to
   (variable, literal, slice offset): each string gets exactly what it computes from its own atoms
   alone (`scan_var_direct`), for every matcher kind, whatever the other strings are. *)
Theorem C12_per_variable :
  forall prm vars mem, scan_direct prm vars mem = map (fun var => scan_var_direct prm var mem) vars.
Proof. exact scan_direct_per_variable. Qed.

Theorem C12_per_variable_fragmented :
  forall prm vars regions,
    scan_fragmented prm vars regions = map (fun var => scan_var_fragmented prm var regions) vars.
Proof. exact scan_fragmented_per_variable. Qed.

(* a string compiled with others reports what it reports compiled alone *)
Theorem C12_alone :
  forall prm vars mem k var, nth_error vars k = Some var ->
    nth_error (scan_direct prm vars mem) k = nth_error (scan_direct prm [var] mem) 0.
Proof. exact scan_direct_alone. Qed.

(* the candidates (literal, span) a string receives do not depend on the other strings: the same
   sequence, in the same order, with the shared pattern table or with its own *)
Theorem C12_candidates_own :
  forall vars k var rg, nth_error vars k = Some var ->
    var_cands (acscan_new vars) (N.of_nat k) rg
              (ac_find_overlapping (acs_pats (acscan_new vars)) (rg_mem rg))
    = own_cands var rg.
Proof. exact var_cands_own. Qed.

(* per region, from any accumulated state (used by C11) *)
Theorem C12_region_per_variable :
  forall prm vars rg (g : matcher -> list smatch),
    scan_region (acscan_new vars) prm vars rg (map g vars)
    = map (fun var => scan_var_region prm var rg (g var)) vars.
Proof. exact scan_region_per_variable. Qed.

(* The rule-level statement (verdicts of the rules of A unchanged by adding independent rules B)
   combines the theorem above with the positional variable alignment and namespace independence of
   C05 (C05_var_alignment, C05_ns_independent); it is checked on the implementation by the
   correspondence run (union versus alone) and not restated here. *)

Definition ex_vars : list matcher :=
  [ text_matcher {| t_text := [97;98;99;100;69;70]; t_ascii := true; t_wide := false; t_nocase := false;
                    t_fullword := false; t_xor := None; t_b64 := None |};
    text_matcher {| t_text := [65;66;67;68;101;102]; t_ascii := true; t_wide := false; t_nocase := true;
                    t_fullword := false; t_xor := None; t_b64 := None |};
    text_matcher {| t_text := [120;120;97;98;99;100]; t_ascii := true; t_wide := true; t_nocase := false;
                    t_fullword := false; t_xor := None; t_b64 := None |} ].
Example C12_example_shared_atoms :
  nlen (acs_pats (acscan_new ex_vars)) = 3
  /\ map (fun vm => map sm_off vm)
         (scan_direct {| p_match_max_length := 8; p_max_nb_matches := 10 |} ex_vars
                      [120;120;97;98;99;100;69;70;32;65;66;67;68;69;70]) = [[2]; [2; 9]; [0]].
Proof. vm_compute. split; reflexivity. Qed.

Print Assumptions C12_per_variable.
Print Assumptions C12_per_variable_fragmented.
Print Assumptions C12_alone.
Print Assumptions C12_candidates_own.
Print Assumptions C12_region_per_variable.
