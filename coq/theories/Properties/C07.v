(* Properties/C07.v — pinned statements only.

   C07 (drop-in conformance with YARA 4.5.5) has no theorem of its own about libyara: libyara is an
   external executable and is *run*.  What is proved is the chain on the Gallina side and the
   soundness of the glue that composes it with the validated link:

     boreal's model  = specification     (C01, C04, C05 — restated here on the objects of
                                           Model/ConformCase.v by `exact` of their lemmas)
     specification   = libyara           (validated per generated program: `spec_agrees`)
     boreal          = libyara           (checked per generated program: `boreal_agrees`)

   C07_agreement_transfers is the composition step: from the two validated facts about one string
   on one input, boreal's reported offsets are exactly the specification's, and its lengths are
   member lengths wherever the specification admits a single length. *)
From Boreal Require Import Base.Prelude Base.ListX Base.Bytes Base.Res Model.Literals Model.AcScan Spec.TextSpec
  Spec.Regex Model.Hir Model.Eval Spec.CondSem Model.EvalCost Model.Scanner Spec.RuleSetSpec Model.TextCase
  Model.ConformCase Proofs.SemProofs Proofs.ScannerProofs Proofs.NoScanScannerProofs Proofs.ConformProofs.

(* ---- what the checks evaluated on every case mean *)
Theorem C07_spec_check_sound :
  forall s m out, string_spec_ok s m out = true ->
    map fst out = spec_offsets_of s m
    /\ Forall (fun ol => In (snd ol) (spec_lens s m (fst ol))) out.
Proof. exact string_spec_ok_sound. Qed.

Theorem C07_agreement_transfers :
  forall s m y b, string_spec_ok s m y = true -> string_agree s m y b = true ->
    map fst b = spec_offsets_of s m
    /\ Forall (fun bo => uniq_len s m (fst bo) = true -> In (snd bo) (spec_lens s m (fst bo))) b.
Proof. exact agreement_transfers. Qed.

(* ---- the chain, text strings (C01): the model of boreal's text-string pipeline reports exactly the
   offsets ConformCase compares libyara with *)
Theorem C07_text_chain :
  forall d m prm, wf_decl d = true -> b64_okb d = true ->
    nlen (spec_offsets_of (SText d) m) <= p_max_nb_matches prm ->
    map sm_off (model_scan_text prm d m) = spec_offsets_of (SText d) m.
Proof. exact text_chain. Qed.

(* ---- the chain, conditions (C04): the model of the evaluator gives a rule the verdict `sem_rule`,
   the function `verdicts_spec_ok` compares libyara's verdicts with (through spec_reported) *)
Theorem C07_condition_chain :
  forall (M : list (list smatch)) prev ext fsz mem cond,
    wf_expr ext (length M) (length prev) cond = true ->
    eval_rule (envM M prev ext fsz mem) cond = Ok (sem_rule (qM M prev ext fsz mem) cond).
Proof. exact rule_verdict_sem. Qed.

(* ---- the chain, rule sets (C05): the model of the scan procedure returns `spec_reported`, the list
   libyara's reported rules are compared with *)
Theorem C07_ruleset_chain :
  forall c inp sc,
    c_cb c = false ->
    wf_scanner inp sc = true -> ns_bound (s_nns sc) (s_globals sc) -> ns_bound (s_nns sc) (s_rules sc) ->
    o_err (run_scan c Never inp sc) = None
    /\ o_rules (run_scan c Never inp sc) = spec_reported sc inp (c_nm c).
Proof. exact run_scan_list_spec_any. Qed.

(* ---- classes: documented deviations (1..4) and recorded findings (>= 10) are disjoint, and a case
   classified as a recorded finding never claims that boreal agrees with libyara *)
Theorem C07_documented_below_findings :
  forall k, is_documented k = true -> k < K_FIXED_OFFSET.
Proof. exact documented_below_findings. Qed.

Theorem C07_finding_is_disagreement :
  forall rs ins ys bs ds ok s b k,
    C07_case rs ins ys bs ds ok = (s, b, k) -> K_FIXED_OFFSET <= k -> b = false.
Proof. exact case_class_means_disagreement. Qed.

(* ---- examples: the hypotheses are satisfiable, the classes are inhabited *)
Definition ex_decl : tdecl :=
  {| t_text := [97; 98]; t_ascii := false; t_wide := false; t_nocase := false; t_fullword := false;
     t_xor := None; t_b64 := None |}.
Definition ex_mem : bytes := [120; 97; 98; 97; 98].

Example C07_example_transfer :
  string_spec_ok (SText ex_decl) ex_mem [(1, 2); (3, 2)] = true
  /\ string_agree (SText ex_decl) ex_mem [(1, 2); (3, 2)] [(1, 2); (3, 2)] = true
  /\ string_agree (SText ex_decl) ex_mem [(1, 2); (3, 2)] [(1, 2)] = false.
Proof. vm_compute. repeat split. Qed.

(* one rule `rule r { strings: $a = "ab" condition: $a }`, one input, both engines report the same *)
Definition ex_rule (c : expr) : crule :=
  {| c_ns := 0; c_id := 0; c_global := false; c_private := false; c_strings := [SText ex_decl]; c_nlits := [1]; c_glue := [false]; c_cond := Some c |}.

Example C07_example_agree :
  C07_case [ex_rule (EVar (Some 0%nat))] [ex_mem]
           [[Some (true, [[(1, 2); (3, 2)]])]] [[Some (true, [[(1, 2); (3, 2)]])]] [[true]] true
  = (true, true, 0).
Proof. vm_compute. reflexivity. Qed.

(* boreal misses a match and says the rule does not match: a violation (no class) *)
Example C07_example_violation :
  C07_case [ex_rule (EBin OEq (ECount (Some 0%nat)) (EInt 2))] [ex_mem]
           [[Some (true, [[(1, 2); (3, 2)]])]] [[Some (false, [[(1, 2)]])]] [[false]] true
  = (true, false, 0).
Proof. vm_compute. reflexivity. Qed.

(* libyara's own list disagrees with the specification while boreal follows libyara: the tie is broken *)
Example C07_example_spec_defect :
  C07_case [ex_rule (EVar (Some 0%nat))] [ex_mem]
           [[Some (true, [[(1, 2)]])]] [[Some (true, [[(1, 2)]])]] [[true]] true
  = (false, true, 0).
Proof. vm_compute. reflexivity. Qed.

(* recorded finding 10: `$a at 3` only — libyara lists the match at 3, boreal lists both *)
Example C07_example_fixed_offset :
  C07_case [ex_rule (EVarAt (Some 0%nat) (EInt 3))] [ex_mem]
           [[Some (true, [[(3, 2)]])]] [[Some (true, [[(1, 2); (3, 2)]])]] [[true]] true
  = (true, false, K_FIXED_OFFSET).
Proof. vm_compute. reflexivity. Qed.

(* recorded finding 14: `for any i in (uint8(1000), 1) : (i == 1)` — libyara true, boreal false *)
Example C07_example_list_undef :
  C07_case [ex_rule (EForList KAny (EInt 0) [EReadInt U8 (EInt 1000); EInt 1] (EBin OEq (EBound 0) (EInt 1)))] [ex_mem]
           [[Some (true, [[(1, 2); (3, 2)]])]] [[Some (false, [[(1, 2); (3, 2)]])]] [[false]] true
  = (true, false, K_LIST_UNDEF).
Proof. vm_compute. reflexivity. Qed.

(* documented deviation 1: a condition that can overflow is not held against anyone *)
Example C07_example_overflow :
  C07_case [ex_rule (EBin OGt (EBin OMul (EInt 4294967296) (EBin OMul (EInt 4294967296) EFilesize)) (EInt 0))] [ex_mem]
           [[Some (true, [[(1, 2); (3, 2)]])]] [[Some (false, [[(1, 2); (3, 2)]])]] [[false]] true
  = (true, true, K_OVERFLOW).
Proof. vm_compute. reflexivity. Qed.

Print Assumptions C07_spec_check_sound.
Print Assumptions C07_agreement_transfers.
Print Assumptions C07_text_chain.
Print Assumptions C07_condition_chain.
Print Assumptions C07_ruleset_chain.
Print Assumptions C07_documented_below_findings.
Print Assumptions C07_finding_is_disagreement.
