(* Properties/C17.v — pinned statements only. *)
From Coq Require Import String.
From Boreal Require Import Base.Prelude Base.Res Model.ModuleTypes Model.ModuleTrees Model.ModuleTypesCase
     Proofs.ModuleTypesProofs Proofs.ModuleTreesProofs.

(* An expression the compiler type-checks evaluates on the kind of value it expects: if the published value conforms
   to the declared type, every value reached through a type-checked chain of field accesses, subscripts and calls
   conforms to the type the compiler computed for it — whatever the subscript / argument values are. *)
Theorem C17_access_sound :
  forall path ty v exprs ty' r,
    Conforms ty v ->
    typechecks ty path = Some ty' ->
    model_evaluate_ops v (ops_of path) exprs = Ok r ->
    Conforms ty' r.
Proof. exact access_sound. Qed.

(* the same in the boolean form the check evaluates on dumps (function-free values) *)
Theorem C17_access_sound_bool :
  forall path ty v exprs ty' r,
    fn_free v = true ->
    conforms ty v = true ->
    typechecks ty path = Some ty' ->
    model_evaluate_ops v (ops_of path) exprs = Ok r ->
    conforms ty' r = true.
Proof. exact access_sound_bool. Qed.

(* the primitive handed to the condition has the expression type the compiler assigned *)
Theorem C17_expr_value_typed :
  forall path ty v exprs ty' e p,
    Conforms ty v ->
    typechecks ty path = Some ty' ->
    expression_type ty' = Some e ->
    model_module_expr v (ops_of path) exprs = Ok p ->
    prim_has_type p e.
Proof. exact expr_value_typed. Qed.

(* `for x in <module value>`: every element bound to x conforms to the type the loop body is compiled against *)
Theorem C17_iterator_elems_sound :
  forall path ty v exprs ty' elem r,
    Conforms ty v ->
    typechecks ty path = Some ty' ->
    iterator_elem_type ty' = Some elem ->
    model_evaluate_ops v (ops_of path) exprs = Ok r ->
    match r with
    | VArray elems => Forall (Conforms elem) elems
    | VDict entries => Forall (fun kv => Conforms elem (snd kv)) entries
    | VUndefined => True
    | _ => False
    end.
Proof. exact iterator_elems_sound. Qed.

(* "no shape mismatch turns into undefined": explain_ops is evaluate_ops with the undefined outcomes split into
   XMissing (undefined / absent value, index out of range, key not present, function returned None) and XMismatch (the
   value's shape does not fit the type-checked operation).  For a conforming value, a type-checked path and index /
   argument values of the kinds the compiler saw, XMismatch is impossible: whenever a type-checked module expression
   is undefined, it is for a reason visible in the published value. *)
Theorem C17_explain_agrees :
  forall ops v exprs,
    model_evaluate_ops v ops exprs
    = match explain_ops v ops exprs with XOk r => Ok r | XMissing => Undef | XMismatch => Undef end.
Proof. exact explain_ops_agrees. Qed.

Theorem C17_no_shape_mismatch :
  forall path ty v exprs ty',
    Conforms ty v ->
    typechecks ty path = Some ty' ->
    exprs_match path exprs ->
    explain_ops v (ops_of path) exprs <> XMismatch.
Proof. exact no_shape_mismatch. Qed.

(* the boolean check is the predicate on function-free values *)
Theorem C17_conforms_reflects :
  forall v ty, fn_free v = true -> (conforms ty v = true <-> Conforms ty v).
Proof. exact conforms_reflects. Qed.

(* facts about the trees regenerated from the source on this run *)
Theorem C17_trees_wf : all_trees_wf = true.
Proof. exact trees_wf. Qed.

Theorem C17_counts :
  forall m prefix counter coll, In (m, prefix, counter, coll) count_pairs ->
    count_pair_well_typed (module_tree m) prefix counter coll = true.
Proof. exact count_pair_in_well_typed. Qed.

Theorem C17_caps_well_typed : all_caps_well_typed = true.
Proof. exact caps_well_typed. Qed.

(* finding C17-valid-on-boolean (repaired in /repo by a `fix:` commit): the value the pinned tree published for
   pe.signatures[i].valid_on does not satisfy the premise, and the conclusion fails for it *)
Theorem C17_valid_on_pinned_refuted :
  ~ Conforms valid_on_type valid_on_pinned
  /\ typechecks valid_on_type valid_on_path = Some TInteger
  /\ expression_type TInteger = Some EInteger
  /\ exists p, model_module_expr valid_on_pinned (ops_of valid_on_path) [PInteger 0] = Ok p
               /\ ~ prim_has_type p EInteger.
Proof. exact valid_on_pinned_refuted. Qed.

(* non-vacuity: a conforming value, a type-checked path with a subscript, a defined result *)
Example C17_access_example :
  let ty := TObject [("sections", TArray (TObject [("name", TBytes); ("size", TInteger)]))]%string in
  let v := VObject [("sections", VArray [VObject [("name", VBytes [46; 116]); ("size", VInteger 512)]])]%string in
  let path := [TopSubfield "sections"; TopSubscript EInteger; TopSubfield "name"]%string in
  conforms ty v = true /\ fn_free v = true /\ typechecks ty path = Some TBytes
  /\ model_evaluate_ops v (ops_of path) [PInteger 0] = Ok (VBytes [46; 116]).
Proof. vm_compute. repeat split. Qed.

(* without conformance the silent failure exists: a bytes value where an object is declared *)
Example C17_shape_mismatch_example :
  explain_ops (VObject [("version", VBytes [49])]%string) [OpSubfield "version"; OpSubfield "major"]%string [] = XMismatch
  /\ model_evaluate_ops (VObject [("version", VBytes [49])]%string) [OpSubfield "version"; OpSubfield "major"]%string [] = Undef.
Proof. vm_compute. repeat split. Qed.

Example C17_counts_nonempty : (0 <? nlen count_pairs) = true.
Proof. vm_compute. reflexivity. Qed.

Print Assumptions C17_access_sound.
Print Assumptions C17_access_sound_bool.
Print Assumptions C17_expr_value_typed.
Print Assumptions C17_iterator_elems_sound.
Print Assumptions C17_conforms_reflects.
Print Assumptions C17_explain_agrees.
Print Assumptions C17_no_shape_mismatch.
Print Assumptions C17_trees_wf.
Print Assumptions C17_counts.
Print Assumptions C17_caps_well_typed.
Print Assumptions C17_valid_on_pinned_refuted.
