(* Properties/C05.v — pinned statements only. *)
From Boreal Require Import Base.Prelude Base.Res Model.Eval Spec.CondSem Model.EvalCost Model.Scanner
     Spec.RuleSetSpec Proofs.ScannerProofs Proofs.NoScanScannerProofs Proofs.CallbackProofs Proofs.IndepProofs Proofs.ReportedFacts.

(* The scan procedure (global rules first with delayed reporting, namespace disabling, fix-up of
   invalidated global rules, then ordinary rules with positional references to earlier results)
   returns exactly the rules the declarative semantics reports — global rules in declaration order,
   then ordinary rules in declaration order, private rules never, with include_not_matched every
   non-private rule once with its verdict — for every rule set, every input and every match set.
   Hypotheses: list API, a configuration in which the string scan is not skipped (the skipping pass is
   C06's), indices emitted by the compiler in range (wf_scanner; it excludes the recorded finding of a
   global rule referring to an ordinary rule, see C05_global_refs_ordinary_refuted). *)
Theorem C05_scan_eq_spec :
  forall c inp sc,
    c_cb c = false -> can_noscan c = false ->
    wf_scanner inp sc = true -> ns_bound (s_nns sc) (s_globals sc) -> ns_bound (s_nns sc) (s_rules sc) ->
    o_err (run_scan c Never inp sc) = None
    /\ o_rules (run_scan c Never inp sc) = spec_reported sc inp (c_nm c)
    /\ o_events (run_scan c Never inp sc) = [].
Proof. exact run_scan_list_spec. Qed.

(* ... and also when the scan is allowed to evaluate rules before scanning for strings (no-scan pass) *)
Theorem C05_scan_eq_spec_any_config :
  forall c inp sc,
    c_cb c = false ->
    wf_scanner inp sc = true -> ns_bound (s_nns sc) (s_globals sc) -> ns_bound (s_nns sc) (s_rules sc) ->
    o_err (run_scan c Never inp sc) = None
    /\ o_rules (run_scan c Never inp sc) = spec_reported sc inp (c_nm c).
Proof. exact run_scan_list_spec_any. Qed.

(* callback API: after the module-import and match-limit events of the string scan (pre_events), the
   events delivered are those of the specification, in the same order (RuleMatch / RuleNoMatch according
   to the event mask), and nothing is returned as a list *)
Theorem C05_callback_same :
  forall c inp sc,
    c_cb c = true -> can_noscan c = false ->
    wf_scanner inp sc = true -> ns_bound (s_nns sc) (s_globals sc) -> ns_bound (s_nns sc) (s_rules sc) ->
    o_err (run_scan c Never inp sc) = None
    /\ o_events (run_scan c Never inp sc) = pre_events c inp ++ spec_events c sc inp
    /\ o_rules (run_scan c Never inp sc) = [].
Proof. exact run_scan_callback_spec. Qed.

(* ... and under any configuration, including those where rules are evaluated before the string scan: the rule
   events are those of the specification; what precedes them are only the module-import / match-limit events
   (none from the string scan when the first pass decides every rule and the scan is skipped) *)
Theorem C05_callback_same_any_config :
  forall c inp sc,
    c_cb c = true ->
    wf_scanner inp sc = true -> ns_bound (s_nns sc) (s_globals sc) -> ns_bound (s_nns sc) (s_rules sc) ->
    o_err (run_scan c Never inp sc) = None
    /\ o_rules (run_scan c Never inp sc) = []
    /\ exists pre, o_events (run_scan c Never inp sc) = pre ++ spec_events c sc inp
                   /\ (pre = (if c_direct c then import_events c inp else []) \/ pre = pre_events c inp).
Proof. exact run_scan_callback_spec_any. Qed.

(* read from the result list, whatever the configuration: a reported rule is a NON-PRIVATE rule of the
   set, carrying its own identifier and namespace; and a rule flagged "not matched" is reported only
   when not-matched rules were asked for *)
Theorem C05_reported_rules_facts :
  forall c inp sc e,
    c_cb c = false ->
    wf_scanner inp sc = true -> ns_bound (s_nns sc) (s_globals sc) -> ns_bound (s_nns sc) (s_rules sc) ->
    In e (o_rules (run_scan c Never inp sc)) ->
    (exists r, In r (s_globals sc ++ s_rules sc) /\ r_private r = false
               /\ er_id e = r_id r /\ er_ns e = r_ns r)
    /\ (c_nm c = false -> er_matched e = true).
Proof. exact reported_rules_facts. Qed.

(* a namespace is disabled after the global phase iff one of its global rules does not hold *)
Theorem C05_namespace_disabled_iff :
  forall c inp gs dis ms, ns_bound (length dis) gs ->
    forall ns, nth ns (fst (fst (g_fold c inp dis ms gs))) false
               = nth ns dis false || negb (ns_ok gs (gowns inp ms gs) ns).
Proof. exact g_fold_disabled. Qed.

(* variables stay aligned with their rules: after the global rules, the remaining matches are those of
   the ordinary rules, whatever the verdicts *)
Theorem C05_var_alignment :
  forall c inp gs dis ms, snd (fst (g_fold c inp dis ms gs)) = skipn (nvars_of gs) ms.
Proof. exact g_fold_ms_skipn. Qed.

(* the whole result in terms of the pure folds, also when every namespace is disabled *)
Theorem C05_result_is_spec :
  forall c inp sc, ns_bound (s_nns sc) (s_globals sc) -> ns_bound (s_nns sc) (s_rules sc) ->
    scan_result c inp sc = spec_reported sc inp (c_nm c).
Proof. exact scan_result_spec. Qed.

(* recorded finding C05-global-refs-ordinary (open): the model panics as the code does *)
Theorem C05_global_refs_ordinary_refuted :
  kf_global_refs_ordinary kf_scanner = true
  /\ o_err (run_scan cfg_full Never kf_inputs kf_scanner) = Some EPanic
  /\ wf_scanner kf_inputs kf_scanner = false.
Proof. exact global_refs_ordinary_refuted. Qed.

(* non-vacuity: two namespaces, a failing global rule in the first, a private rule referenced in the second *)
(* Namespace independence (the rule-level half of C12): rules of other namespaces — global rules gB with
   their strings, ordinary rules rB — declared after the rules of a set A leave the verdict of every rule of
   A, global or ordinary, what it is for A alone.  Only the global rules added must live in other namespaces
   than A's rules; the string matches are laid out as the compiler lays them out (strings of global rules
   first). *)
Theorem C05_ns_independent :
  forall inp n n' gA gB rA rB mgA mgB mrA mrB,
    length mgA = nvars_of gA -> length mgB = nvars_of gB -> length mrA = nvars_of rA ->
    (forall a b, In a (gA ++ rA) -> In b gB -> r_ns b <> r_ns a) ->
    let scA := {| s_globals := gA; s_rules := rA; s_nns := n |} in
    let scAB := {| s_globals := gA ++ gB; s_rules := rA ++ rB; s_nns := n' |} in
    let vA := spec_verdicts scA (with_matches inp (mgA ++ mrA)) in
    exists vgB vrB,
      spec_verdicts scAB (with_matches inp (mgA ++ mgB ++ mrA ++ mrB))
      = firstn (length gA) vA ++ combine gB vgB ++ skipn (length gA) vA ++ combine rB vrB
      /\ length vgB = length gB /\ length vrB = length rB.
Proof. exact spec_verdicts_independent. Qed.

(* ... hence what is reported about A: the rules of A reported for the union, in order, with their verdicts,
   are those reported for A alone (rule identifiers of A and of the added rules being distinct). *)
Theorem C05_reported_independent :
  forall inp n n' gA gB rA rB mgA mgB mrA mrB nm ids,
    length mgA = nvars_of gA -> length mgB = nvars_of gB -> length mrA = nvars_of rA ->
    (forall a b, In a (gA ++ rA) -> In b gB -> r_ns b <> r_ns a) ->
    (forall a, In a (gA ++ rA) -> existsb (N.eqb (r_id a)) ids = true) ->
    (forall b, In b (gB ++ rB) -> existsb (N.eqb (r_id b)) ids = false) ->
    filter (in_ids ids)
           (spec_reported {| s_globals := gA ++ gB; s_rules := rA ++ rB; s_nns := n' |}
                          (with_matches inp (mgA ++ mgB ++ mrA ++ mrB)) nm)
    = spec_reported {| s_globals := gA; s_rules := rA; s_nns := n |} (with_matches inp (mgA ++ mrA)) nm.
Proof. exact spec_reported_independent. Qed.

(* ... and declared before them: the references of A's conditions to earlier rules of A are then the same
   references shifted by the number of ordinary rules added (`shift_rule`), and the verdicts are unchanged. *)
Theorem C05_ns_independent_before :
  forall inp n n' gA gB rA rB mgA mgB mrA mrB,
    length mgA = nvars_of gA -> length mgB = nvars_of gB -> length mrB = nvars_of rB ->
    (forall a b, In a (gA ++ rA) -> In b gB -> r_ns b <> r_ns a) ->
    let scA := {| s_globals := gA; s_rules := rA; s_nns := n |} in
    let scBA := {| s_globals := gB ++ gA; s_rules := rB ++ map (shift_rule (length rB)) rA; s_nns := n' |} in
    let vA := map snd (spec_verdicts scA (with_matches inp (mgA ++ mrA))) in
    exists vgB vrB,
      map snd (spec_verdicts scBA (with_matches inp (mgB ++ mgA ++ mrB ++ mrA)))
      = vgB ++ firstn (length gA) vA ++ vrB ++ skipn (length gA) vA
      /\ length vgB = length gB /\ length vrB = length rB.
Proof. exact spec_verdicts_independent_before. Qed.

(* shifting the references by the number of rules put in front does not change what a condition means *)
Theorem C05_shift_rules_sem :
  forall q pB e sel stack,
    sem (with_prev q (pB ++ q_prev q)) sel stack (shift_rules (length pB) e) = sem q sel stack e.
Proof. exact sem_shift. Qed.

Example C05_independence_example :
  let gA := {| r_ns := 0; r_id := 0; r_global := true; r_private := false; r_nvars := 1; r_cond := EVar (Some 0%nat) |} in
  let a1 := {| r_ns := 0; r_id := 1; r_global := false; r_private := false; r_nvars := 0; r_cond := EBool true |} in
  let a2 := {| r_ns := 0; r_id := 2; r_global := false; r_private := false; r_nvars := 0; r_cond := EUn UNot (ERule 0) |} in
  let gB := {| r_ns := 1; r_id := 3; r_global := true; r_private := false; r_nvars := 1; r_cond := EVar (Some 0%nat) |} in
  let b1 := {| r_ns := 1; r_id := 4; r_global := false; r_private := false; r_nvars := 0; r_cond := EBool true |} in
  let inp := {| i_matches := []; i_ext := []; i_filesize := Some 1; i_mem := Some [97]; i_ac := []; i_imports := [] |} in
  let m := [{| m_base := 0; m_off := 0; m_len := 1 |}] in
  map snd (spec_verdicts {| s_globals := [gA]; s_rules := [a1; a2]; s_nns := 1 |} (with_matches inp [m])) = [true; true; false]
  /\ map snd (spec_verdicts {| s_globals := [gA; gB]; s_rules := [a1; a2; b1]; s_nns := 2 |}
                            (with_matches inp [m; []])) = [true; false; true; false; false]
  /\ map snd (spec_verdicts {| s_globals := [gB; gA]; s_rules := b1 :: map (shift_rule 1) [a1; a2]; s_nns := 2 |}
                            (with_matches inp [[]; m])) = [false; true; false; true; false].
Proof. vm_compute. repeat split. Qed.

Example C05_example :
  let g0 := {| r_ns := 0; r_id := 0; r_global := true; r_private := false; r_nvars := 0; r_cond := EBool true |} in
  let g1 := {| r_ns := 0; r_id := 1; r_global := true; r_private := false; r_nvars := 1; r_cond := EVar (Some 0%nat) |} in
  let p := {| r_ns := 1; r_id := 2; r_global := false; r_private := true; r_nvars := 0; r_cond := EBool true |} in
  let r := {| r_ns := 1; r_id := 3; r_global := false; r_private := false; r_nvars := 0; r_cond := ERule 0 |} in
  let a := {| r_ns := 0; r_id := 4; r_global := false; r_private := false; r_nvars := 0; r_cond := EBool true |} in
  let sc := {| s_globals := [g0; g1]; s_rules := [p; r; a]; s_nns := 2 |} in
  let inp := {| i_matches := [[]]; i_ext := []; i_filesize := Some 1; i_mem := Some [97]; i_ac := []; i_imports := [] |} in
  wf_scanner inp sc = true
  /\ map er_id (o_rules (run_scan cfg_full Never inp sc)) = [3]
  /\ map er_id (spec_reported sc inp false) = [3].
Proof. vm_compute. repeat split. Qed.

Print Assumptions C05_ns_independent.
Print Assumptions C05_reported_independent.
Print Assumptions C05_ns_independent_before.
Print Assumptions C05_shift_rules_sem.
Print Assumptions C05_scan_eq_spec.
Print Assumptions C05_scan_eq_spec_any_config.
Print Assumptions C05_callback_same.
Print Assumptions C05_callback_same_any_config.
Print Assumptions C05_namespace_disabled_iff.
Print Assumptions C05_var_alignment.
Print Assumptions C05_result_is_spec.
Print Assumptions C05_global_refs_ordinary_refuted.
Print Assumptions C05_reported_rules_facts.
