(* Properties/C01.v — pinned statements only. *)
From Boreal Require Import Base.Prelude Base.ListX Base.Bytes Base.Sorted Model.Literals Model.AcScan
  Spec.TextSpec Proofs.AcScanInsert Proofs.TextFullword.

(* The full statement of the property for the model (DESIGN §7 C01). *)
Definition C01_text_matches_statement : Prop :=
  forall d m prm, wf_decl d = true -> bytes_ok m = true ->
    nlen (spec_offsets d m) <= p_max_nb_matches prm ->
    let r := model_scan_text prm d m in
    map sm_off r = spec_offsets d m
    /\ Forall (fun x => exists e, In e (enc_set d) /\ occ d m (sm_off x) e = true
                         /\ sm_len x = nlen (e_bytes e) /\ sm_key x = e_key e) r
    /\ Forall (fun x => sm_base x = 0
                        /\ sm_data x = slice (sm_off x) (sm_off x + N.min (sm_len x) (p_match_max_length prm)) m) r.

Theorem C01_fullword_rule :
  forall m s e t, s <= e -> e <= nlen m ->
    check_fullword m s e t = delimited (mt_is_wide t) m s (e - s).
Proof. exact check_fullword_delimited. Qed.

Theorem C01_insert_sorted :
  forall b v x, all_base b v -> sm_base x = b -> asc (map sm_off v) -> asc (map sm_off (insert_match v x)).
Proof. exact insert_match_asc. Qed.

Theorem C01_insert_one_per_offset :
  forall b v x, all_base b v -> sm_base x = b -> asc (map sm_off v) -> In (sm_off x) (map sm_off v) ->
    insert_match v x = v.
Proof. exact insert_match_dup. Qed.

Theorem C01_insert_keeps : forall v x y, In y v -> In y (insert_match v x).
Proof. exact insert_match_keeps. Qed.

Print Assumptions C01_fullword_rule.
Print Assumptions C01_insert_sorted.
Print Assumptions C01_insert_one_per_offset.
Print Assumptions C01_insert_keeps.
