(* Properties/C01.v — pinned statements only. *)
From Boreal Require Import Base.Prelude Base.ListX Base.Bytes Base.Sorted Base.Consts Model.Base64 Model.Literals Model.AcScan
  Spec.TextSpec Model.TextCase Proofs.AcScanInsert Proofs.TextFullword Proofs.TextAtoms Proofs.TextLiterals
  Proofs.TextMain Proofs.TextBase64 Proofs.TextFull Proofs.TextPinned Proofs.TextCount.

(* The full statement of the property for the model (DESIGN §7 C01), proved at full strength: every
   well-formed declaration (all modifier shapes, base64 with any alphabet included), every input. *)
Theorem C01_text_matches :
  forall d m prm, wf_decl d = true ->
    nlen (spec_offsets d m) <= p_max_nb_matches prm ->     (* below the limit; the limit contract is C14 *)
    let r := model_scan_text prm d m in
    map sm_off r = spec_offsets d m                        (* nothing missing, nothing spurious, ascending, one per offset *)
    /\ Forall (fun x => exists e, In e (enc_set d) /\ occ d m (sm_off x) e = true
                         /\ sm_len x = nlen (e_bytes e) /\ sm_key x = e_key e) r
    /\ Forall (fun x => sm_base x = 0
                        /\ sm_data x = slice (sm_off x) (sm_off x + N.min (sm_len x) (p_match_max_length prm)) m) r.
Proof. exact text_matches_full. Qed.

(* the same, read through the operators a condition applies to the string: `#s` is the number of
   specified offsets, `$s at o` holds exactly for a specified offset, `$s` exactly when there is one *)
Theorem C01_count :
  forall d m prm, wf_decl d = true -> nlen (spec_offsets d m) <= p_max_nb_matches prm ->
    nlen (model_scan_text prm d m) = nlen (spec_offsets d m).
Proof. exact text_count. Qed.

Theorem C01_at :
  forall d m prm o, wf_decl d = true -> nlen (spec_offsets d m) <= p_max_nb_matches prm ->
    ((exists x, In x (model_scan_text prm d m) /\ sm_off x = o) <-> In o (spec_offsets d m)).
Proof. exact text_at. Qed.

Theorem C01_found :
  forall d m prm, wf_decl d = true -> nlen (spec_offsets d m) <= p_max_nb_matches prm ->
    (model_scan_text prm d m = [] <-> spec_offsets d m = []).
Proof. exact text_found. Qed.

(* base64: boreal's `encode_base64` (shifts and masks, special cases for the three alignments and the
   1- and 2-byte remainders) is the declarative trimmed encoding, for every alphabet, every non-empty
   byte string, the three alignments; so the per-declaration validation always succeeds *)
Theorem C01_encode_base64 :
  forall s alpha off, bytes_ok s = true -> s <> [] -> off < 3 ->
    encode_base64 s alpha off
    = opt_of_bytes (spec_b64 (match alpha with Some a => a | None => BASE64_DEFAULT_ALPHABET end) s off).
Proof. exact encode_base64_spec. Qed.

Theorem C01_b64_validation_always_holds : forall d, wf_decl d = true -> b64_okb d = true.
Proof. exact b64_okb_wf. Qed.

(* xor strings: the key of an occurring encoding lies in the declared range and un-xoring the matched
   bytes with it gives the declared text (widened when the occurrence is wide) *)
Theorem C01_unxor :
  forall d m o e, t_xor d <> None -> t_nocase d = false -> In e (enc_set d) -> occ d m o e = true ->
    xor_bytes (e_key e) (slice o (o + nlen (e_bytes e)) m) = (if e_wide e then widen (t_text d) else t_text d)
    /\ (exists lo hi, t_xor d = Some (lo, hi) /\ lo <= e_key e <= hi).
Proof. exact unxor_text. Qed.

(* literal set = encoding set, with the key and the ascii/wide kind recovered from the index *)
Theorem C01_literal_is_encoding :
  forall d i lit, wf_decl d = true ->
    nnth_opt i (new_bytes_literals d) = Some lit -> exists e, In e (enc_set d) /\ link d i e.
Proof. exact lit_to_enc_full. Qed.

Theorem C01_encoding_is_literal :
  forall d e, wf_decl d = true -> In e (enc_set d) -> exists i, link d i e.
Proof. exact enc_to_lit_full. Qed.

(* per-literal completeness: the picked atom is a factor of the literal, so every occurrence of a
   literal is among the candidates confirmed for its variable *)
Theorem C01_occurrence_is_candidate :
  forall var rg k lit o,
    nth_error (mt_literals var) k = Some lit -> lit <> [] ->
    o + nlen lit <= nlen (rg_mem rg) ->
    lower_bytes (slice o (o + nlen lit) (rg_mem rg)) = lower_bytes lit ->
    In (N.of_nat k, o, o + nlen lit) (own_cands var rg).
Proof. exact occurrence_is_candidate. Qed.

Theorem C01_fullword_rule :
  forall m s e t, s <= e -> e <= nlen m ->
    check_fullword m s e t = delimited (mt_is_wide t) m s (e - s).
Proof. exact check_fullword_delimited. Qed.

Theorem C01_insert_sorted :
  forall b v x, all_base b v -> sm_base x = b -> asc (map sm_off v) -> asc (map sm_off (insert_match v x)).
Proof. exact insert_match_asc. Qed.

Theorem C01_insert_one_per_offset :
  forall b v x, all_base b v -> sm_base x = b -> asc (map sm_off v) -> In (sm_off x) (map sm_off v) ->
    insert_match v x = v.
Proof. exact insert_match_dup. Qed.

(* the pinned tree (before F1, F2, F3) violated the property: witnesses of DESIGN 9.1, 9.2, 9.4 *)
Theorem C01_xor_key_pinned_refuted :
  map sm_key (model_scan_text_with insert_match get_xor_key_pinned acscan_new prm0 w91_d w91_m) = [16]
  /\ map sm_key (model_scan_text prm0 w91_d w91_m) = [144]
  /\ map sm_key (model_scan_text_pinned prm0 w91_d w91_m) = [16].
Proof. exact xor_key_pinned_refuted. Qed.

Theorem C01_duplicate_offset_pinned_refuted :
  map sm_off (model_scan_text_pinned prm0 w92_d w92_m) = [0; 0]
  /\ spec_offsets w92_d w92_m = [0]
  /\ map sm_off (model_scan_text prm0 w92_d w92_m) = [0].
Proof. exact duplicate_offset_pinned_refuted. Qed.

Theorem C01_literal_dropped_pinned_refuted :
  map sm_off (model_scan_text_pinned prm0 w94_d w94_m) = []
  /\ spec_offsets w94_d w94_m = [2]
  /\ map sm_off (model_scan_text prm0 w94_d w94_m) = [2].
Proof. exact literal_dropped_pinned_refuted. Qed.

(* non-vacuity: concrete declarations of each shape meet the hypotheses (and have matches) *)
Example C01_hyp_xor_wide :
  wf_decl w91_d = true /\ b64_okb w91_d = true
  /\ (nlen (spec_offsets w91_d w91_m) <=? p_max_nb_matches prm0) = true
  /\ spec_offsets w91_d w91_m = [0].
Proof. vm_compute. repeat split. Qed.

Definition ex_b64_d : tdecl :=
  {| t_text := [97;98;99;100;101;102;103]; t_ascii := true; t_wide := true; t_nocase := false; t_fullword := false;
     t_xor := None; t_b64 := Some {| b_ascii := true; b_wide := true; b_alpha := None |} |}.
Example C01_hyp_base64 :
  wf_decl ex_b64_d = true /\ b64_okb ex_b64_d = true
  /\ spec_offsets ex_b64_d [1; 89;87;74;106;90;71;86;109;90; 2; 70;0;105;0;89;0;50;0;82;0;108;0;90;0;109;0] = [1; 11].
Proof. vm_compute. repeat split. Qed.

Definition ex_fw_d : tdecl :=
  {| t_text := [97;98]; t_ascii := true; t_wide := true; t_nocase := true; t_fullword := true;
     t_xor := None; t_b64 := None |}.
Example C01_hyp_fullword_nocase :
  wf_decl ex_fw_d = true /\ b64_okb ex_fw_d = true
  /\ spec_offsets ex_fw_d [65;98;32;120;97;98;32;97;0;66;0;46] = [0; 7].
Proof. vm_compute. repeat split. Qed.

Print Assumptions C01_text_matches.
Print Assumptions C01_encode_base64.
Print Assumptions C01_b64_validation_always_holds.
Print Assumptions C01_unxor.
Print Assumptions C01_literal_is_encoding.
Print Assumptions C01_encoding_is_literal.
Print Assumptions C01_occurrence_is_candidate.
Print Assumptions C01_fullword_rule.
Print Assumptions C01_insert_sorted.
Print Assumptions C01_insert_one_per_offset.
Print Assumptions C01_xor_key_pinned_refuted.
Print Assumptions C01_duplicate_offset_pinned_refuted.
Print Assumptions C01_literal_dropped_pinned_refuted.
Print Assumptions C01_count.
Print Assumptions C01_at.
Print Assumptions C01_found.
