(* Properties/C15.v — pinned statements only. *)
From Boreal Require Import Base.Prelude Base.Res Model.Eval Spec.CondSem Model.EvalCost Model.Scanner
     Proofs.InterruptProofs Proofs.ScannerProofs Proofs.CallbackProofs Proofs.NoScanInterruptProofs Proofs.InterruptSound.

(* A callback returning Abort at its k-th event: the scan returns CallbackAbort, exactly k events were
   delivered and they are the first k events of the uninterrupted scan, in the same order; if the
   uninterrupted scan delivers fewer than k events nothing changes.  Every configuration (no-scan pass,
   full pass, include_not_matched, event masks), every rule set, input and k. *)
Theorem C15_abort_prefix :
  forall c k inp sc, 1 <= k ->
    let oN := run_scan c Never inp sc in
    let oA := run_scan c (AbortAt k) inp sc in
    (oA = oN /\ nlen (o_events oN) < k)
    \/ (o_err oA = Some EAbort /\ nlen (o_events oA) = k
        /\ o_events oA = firstn (N.to_nat k) (o_events oN)).
Proof. exact abort_prefix. Qed.

(* The timeout firing at the j-th check, in configurations that always scan for strings: the scan
   returns Timeout after exactly j checks and the events delivered are a prefix of the uninterrupted
   ones; if the scan needs fewer than j checks nothing changes. *)
Theorem C15_timeout_prefix :
  forall c j inp sc, can_noscan c = false -> 1 <= j ->
    let oN := run_scan c Never inp sc in
    let oT := run_scan c (TimeoutAt j) inp sc in
    (oT = oN /\ o_checks oN < j)
    \/ (o_err oT = Some ETimeout /\ o_checks oT = j
        /\ exists later, o_events oN = o_events oT ++ later).
Proof. exact timeout_prefix_full. Qed.

(* List API: the rules returned together with the Timeout error are a prefix of the rules of the complete
   scan — in particular none is spurious — provided the timeout fires during the string scan or after the
   global rules have all been evaluated. *)
Theorem C15_timeout_rules_prefix :
  forall c j inp sc, can_noscan c = false -> 1 <= j ->
    (j <= i_ac_checks inp \/ nchecks (after_globals c inp sc) < j) ->
    exists more, o_rules (run_scan c Never inp sc) = o_rules (run_scan c (TimeoutAt j) inp sc) ++ more.
Proof. exact timeout_rules_prefix. Qed.

(* ... and this proviso is needed on the current tree (recorded finding C15-timeout-unvalidated-globals,
   pinned by the existing test limits::test_timeout_eval_rule): a timeout between two global rules
   returns the first one as matched although the complete scan reports nothing. *)
Theorem C15_timeout_in_globals_refuted :
  o_rules (run_scan kf15_cfg Never kf15_inputs kf15_scanner) = []
  /\ map er_id (filter er_matched (o_rules (run_scan kf15_cfg (TimeoutAt 2) kf15_inputs kf15_scanner))) = [0]
  /\ ~ (2 <= i_ac_checks kf15_inputs \/ nchecks (after_globals kf15_cfg kf15_inputs kf15_scanner) < 2).
Proof. exact timeout_in_globals_refuted. Qed.

(* Callback API, configurations where rules are first evaluated without the string scan: the events
   delivered before a timeout are a prefix of those of the complete scan, provided the timeout does not
   fire while the global rules of that first pass are evaluated (recorded finding above) and, when it
   fires inside the first pass, the string scan has no event of its own to deliver (match-limit events,
   import events of a fragmented scan) — these would come first in the complete scan. *)
Theorem C15_timeout_prefix_noscan :
  forall c j inp sc,
    c_cb c = true -> can_noscan c = true -> 1 <= j ->
    wf_scanner inp sc = true -> ns_bound (s_nns sc) (s_globals sc) -> ns_bound (s_nns sc) (s_rules sc) ->
    nchecks (fst (pass1_globals c Never inp sc (s_after_imports c inp))) < j ->
    (j <= nchecks (fst (eval_without_matches c Never inp sc (s_after_imports c inp))) -> no_scan_events c inp) ->
    exists later, o_events (run_scan c Never inp sc) = o_events (run_scan c (TimeoutAt j) inp sc) ++ later.
Proof. exact timeout_prefix_noscan. Qed.

Example C15_noscan_events_example :
  let c := {| c_full := false; c_nm := false; c_cb := true; c_ev_match := true; c_ev_nomatch := false;
              c_ev_import := false; c_ev_limit := false; c_direct := true; c_frag_noscan := false |} in
  can_noscan c = true /\ wf_scanner kf15n_inputs kf15n_scanner = true
  /\ nchecks (fst (pass1_globals c Never kf15n_inputs kf15n_scanner (s_after_imports c kf15n_inputs))) = 0
  /\ limit_events c (i_ac kf15n_inputs) = [] /\ (if c_direct c then [] else import_events c kf15n_inputs) = []
  /\ o_events (run_scan c (TimeoutAt 2) kf15n_inputs kf15n_scanner) = [EvMatch 0]
  /\ o_events (run_scan c Never kf15n_inputs kf15n_scanner) = [EvMatch 0; EvMatch 1].
Proof. vm_compute. repeat split. Qed.

(* List API, same configurations: the rules returned with the Timeout error are a prefix of the rules of
   the complete scan, provided the timeout does not fire while global rules are evaluated, in the
   first pass or in the full pass that follows an undecided first pass. *)
Theorem C15_timeout_rules_prefix_noscan :
  forall c j inp sc,
    c_cb c = false -> can_noscan c = true -> 1 <= j ->
    wf_scanner inp sc = true -> ns_bound (s_nns sc) (s_globals sc) -> ns_bound (s_nns sc) (s_rules sc) ->
    nchecks (fst (pass1_globals c Never inp sc s_init)) < j ->
    (nchecks (pass2_start c inp sc) < j ->
     j <= nchecks (pass2_start c inp sc) + i_ac_checks inp
     \/ nchecks (fst (scan_p01 c Never inp sc (pass2_start c inp sc))) < j) ->
    exists more, o_rules (run_scan c Never inp sc) = o_rules (run_scan c (TimeoutAt j) inp sc) ++ more.
Proof. exact timeout_rules_prefix_noscan. Qed.

Example C15_noscan_rules_example :
  let c := {| c_full := false; c_nm := false; c_cb := false; c_ev_match := true; c_ev_nomatch := false;
              c_ev_import := false; c_ev_limit := false; c_direct := true; c_frag_noscan := false |} in
  can_noscan c = true /\ wf_scanner kf15n_inputs kf15n_scanner = true
  /\ nchecks (fst (pass1_globals c Never kf15n_inputs kf15n_scanner s_init)) = 0
  /\ nchecks (pass2_start c kf15n_inputs kf15n_scanner) = 2
  /\ map er_id (o_rules (run_scan c (TimeoutAt 2) kf15n_inputs kf15n_scanner)) = [0]
  /\ map er_id (o_rules (run_scan c Never kf15n_inputs kf15n_scanner)) = [0; 1]
  /\ map er_id (o_rules (run_scan c (TimeoutAt 4) kf15n_inputs kf15n_scanner)) = []
  /\ map er_id (o_rules (run_scan c (TimeoutAt 5) kf15n_inputs kf15n_scanner)) = [0].
Proof. vm_compute. repeat split. Qed.

(* ... and the second proviso is needed on the current tree (recorded finding
   C15-noscan-timeout-flush-order): the handler flushes the rules decided in the first pass although
   the complete scan delivers the match-limit event before them. *)
Theorem C15_noscan_flush_order_refuted :
  can_noscan kf15n_cfg = true
  /\ o_events (run_scan kf15n_cfg Never kf15n_inputs kf15n_scanner) = [EvLimit 0; EvMatch 0; EvMatch 1]
  /\ o_events (run_scan kf15n_cfg (TimeoutAt 2) kf15n_inputs kf15n_scanner) = [EvMatch 0]
  /\ ~ no_scan_events kf15n_cfg kf15n_inputs.
Proof. exact noscan_flush_order_refuted. Qed.

(* Nothing an interrupted scan delivered is spurious: every event (rule) it delivered before stopping is
   delivered (returned) by the complete scan as well — for every configuration, rule set, input and
   interruption point; the timeout forms under the same provisos as the prefix theorems above. *)
Theorem C15_abort_no_spurious_event :
  forall c k inp sc e, 1 <= k ->
    In e (o_events (run_scan c (AbortAt k) inp sc)) -> In e (o_events (run_scan c Never inp sc)).
Proof. exact abort_no_spurious_event. Qed.

Theorem C15_timeout_no_spurious_event :
  forall c j inp sc e, can_noscan c = false -> 1 <= j ->
    In e (o_events (run_scan c (TimeoutAt j) inp sc)) -> In e (o_events (run_scan c Never inp sc)).
Proof. exact timeout_no_spurious_event. Qed.

Theorem C15_timeout_no_spurious_rule :
  forall c j inp sc r, can_noscan c = false -> 1 <= j ->
    (j <= i_ac_checks inp \/ nchecks (after_globals c inp sc) < j) ->
    In r (o_rules (run_scan c (TimeoutAt j) inp sc)) -> In r (o_rules (run_scan c Never inp sc)).
Proof. exact timeout_no_spurious_rule. Qed.

Theorem C15_abort_events_le :
  forall c k inp sc, 1 <= k ->
    (length (o_events (run_scan c (AbortAt k) inp sc)) <= length (o_events (run_scan c Never inp sc)))%nat.
Proof. exact abort_events_le. Qed.

(* the simulation itself, for every procedure of the scan: until the interruption fires both runs are
   in the same state; afterwards the uninterrupted run only appends events *)
Theorem C15_simulation_full_scan :
  forall c it inp sc, it <> Never -> Good it (full_scan c Never inp sc) (full_scan c it inp sc).
Proof. exact (fun c it inp sc H => good_full_scan c it H inp sc). Qed.

(* non-vacuity *)
Example C15_example :
  let r := {| r_ns := 0; r_id := 7; r_global := false; r_private := false; r_nvars := 0; r_cond := EBool true |} in
  let sc := {| s_globals := []; s_rules := [r; r]; s_nns := 1 |} in
  let c := {| c_full := true; c_nm := false; c_cb := true; c_ev_match := true; c_ev_nomatch := false; c_ev_import := false; c_ev_limit := false;
              c_direct := true; c_frag_noscan := false |} in
  o_events (run_scan c Never kf15_inputs sc) = [EvMatch 7; EvMatch 7]
  /\ o_events (run_scan c (AbortAt 1) kf15_inputs sc) = [EvMatch 7]
  /\ o_err (run_scan c (TimeoutAt 2) kf15_inputs sc) = Some ETimeout.
Proof. vm_compute. repeat split. Qed.

Print Assumptions C15_abort_prefix.
Print Assumptions C15_timeout_prefix.
Print Assumptions C15_timeout_rules_prefix.
Print Assumptions C15_timeout_in_globals_refuted.
Print Assumptions C15_timeout_prefix_noscan.
Print Assumptions C15_timeout_rules_prefix_noscan.
Print Assumptions C15_noscan_flush_order_refuted.
Print Assumptions C15_simulation_full_scan.
Print Assumptions C15_abort_no_spurious_event.
Print Assumptions C15_timeout_no_spurious_event.
Print Assumptions C15_timeout_no_spurious_rule.
Print Assumptions C15_abort_events_le.
