(* Properties/C02.v — pinned statements only.  Hex strings: reported matches are sound, complete, ordered.
   s_* : compiled form of a string (literals, atom offsets, kind, modifiers, HIR, pre/post HIR);
   model_scan : Model/HirScan.v (AC hit order -> confirm literal -> validators -> insert_match);
   ends / Lens : Spec/Regex.v (independent reference semantics). *)
From Boreal Require Import Base.Prelude Spec.Regex Model.Hir Model.Widen Model.Validator Model.SimpleValidator Model.Raw
  Model.HirScan Model.Decomp Model.HexCase
  Proofs.HexScanProofs Proofs.SimpleProofs Proofs.ValidatorProofs Proofs.DecompProofs Proofs.HexProofs Proofs.HexHirProofs
  Proofs.AltsProofs Proofs.SpanProofs Proofs.HexWitnesses Proofs.HexOnePerOffset.
From Coq Require Import Sorted.

(* Ordered, one match per offset: every string that goes through the Aho-Corasick pass, any
   decomposition, any validators, any input, any limit. *)
Theorem C02_ac_scan_ascending :
  forall use_sp d mem max_nb,
    StronglySorted (fun a b => fst a < fst b) (ac_scan use_sp d mem max_nb).
Proof. exact ac_scan_ascending. Qed.

(* ... said directly: the reported offsets are pairwise distinct, and two reported matches at the same
   offset are the same match *)
Theorem C02_offsets_distinct :
  forall use_sp d mem max_nb, NoDup (map fst (ac_scan use_sp d mem max_nb)).
Proof. exact ac_scan_offsets_distinct. Qed.

Theorem C02_one_per_offset :
  forall use_sp d mem max_nb x y,
    In x (ac_scan use_sp d mem max_nb) -> In y (ac_scan use_sp d mem max_nb) -> fst x = fst y -> x = y.
Proof. exact ac_scan_one_per_offset. Qed.

(* Soundness: for ANY decomposition with the glue half of `Decomp` (not needed when the end is
   computed by the whole pattern), every input, with or without start_position, any limit. *)
Theorem C02_atomized_sound :
  forall use_sp d mem max_nb,
    plain (s_mods d) -> atoms_ok d -> kind_ok d ->
    (s_kind d = KGreedy \/ DecompGlue (s_mods d) mem (s_hir d) (s_lits d) (s_pre d) (s_post d)) ->
    Forall (fun y => In (snd y) (Lens (flags_of (s_mods d)) mem (s_hir d) (fst y))) (ac_scan use_sp d mem max_nb).
Proof. exact atomized_sound. Qed.

(* Completeness: for ANY decomposition with the split half of `Decomp` (which carries the window),
   every start of a member is reported, outside the class of known finding 9.5. *)
Theorem C02_atomized_complete :
  forall d mem max_nb a b,
    plain (s_mods d) -> atoms_ok d -> kind_ok d ->
    DecompSplit (s_mods d) mem (s_hir d) (s_lits d) (s_pre d) (s_post d) ->
    nlen mem <= umax -> nlen mem < max_nb ->
    kf_start_position d mem max_nb = false ->
    In b (ends (flags_of (s_mods d)) mem (s_hir d) a) ->
    In a (map fst (model_scan d mem max_nb)).
Proof. exact atomized_complete. Qed.

(* The first two clauses of the property in their exact form, for any `Decomp` *)
Theorem C02_atomized_exact :
  forall d mem max_nb,
    plain (s_mods d) -> atoms_ok d -> kind_ok d ->
    (s_kind d = KGreedy \/ DecompGlue (s_mods d) mem (s_hir d) (s_lits d) (s_pre d) (s_post d)) ->
    DecompSplit (s_mods d) mem (s_hir d) (s_lits d) (s_pre d) (s_post d) ->
    Forall (fun l => l <> []) (s_lits d) ->
    nlen mem <= umax -> nlen mem < max_nb ->
    kf_start_position d mem max_nb = false ->
    let r := model_scan d mem max_nb in
    map fst r = filter (fun o => nonempty (ends (flags_of (s_mods d)) mem (s_hir d) o)) (iota 0 (nlen mem))
    /\ Forall (fun y => In (snd y) (Lens (flags_of (s_mods d)) mem (s_hir d) (fst y))) r.
Proof. exact atomized_exact. Qed.

(* Theorem B: the flat split around ANY run of single-byte parts satisfies `Decomp` *)
Theorem C02_flat_decomp_glue :
  forall md mem, m_nocase md = false -> bytes_ok mem ->
  forall A R B, forallb is_leaf R = true ->
    DecompGlue md mem (HConcat (A ++ R ++ B)) (expand (m_dot_all md) R) (pre_of A R) (post_of R B).
Proof. exact flat_glue. Qed.

Theorem C02_flat_decomp_split :
  forall md mem, m_nocase md = false -> bytes_ok mem ->
  forall A R B, forallb is_leaf R = true -> R <> [] ->
    nlen mem <= MAX_SPLIT_MATCH_LENGTH ->
    DecompSplit md mem (HConcat (A ++ R ++ B)) (expand (m_dot_all md) R) (pre_of A R) (post_of R B).
Proof. exact flat_split. Qed.

(* Every flat pattern (every flat hex string), every run, every input within the window *)
Theorem C02_flat_hex_exact :
  forall md A R B atoms k mem max_nb,
    plain md -> m_nocase md = false ->
    forallb is_leaf R = true -> R <> [] ->
    (k = KNonGreedy \/ (k = KLiterals /\ A = [] /\ B = [])) ->
    let d := flat_desc md A R B atoms k in
    atoms_ok d ->
    bytes_ok mem -> nlen mem <= MAX_SPLIT_MATCH_LENGTH -> nlen mem < max_nb ->
    kf_start_position d mem max_nb = false ->
    let r := model_scan d mem max_nb in
    map fst r = filter (fun o => nonempty (ends (flags_of md) mem (HConcat (A ++ R ++ B)) o)) (iota 0 (nlen mem))
    /\ Forall (fun y => In (snd y) (Lens (flags_of md) mem (HConcat (A ++ R ++ B)) (fst y))) r.
Proof. exact flat_hex_exact. Qed.

(* When is a decomposition whose literals come from an alternation sound?  Whenever the literal part has a
   fixed length and the literals are exactly its language; instance: an alternation of runs of single-byte
   parts of one common length, anywhere in a pattern.  (The open finding alt-glue is the negation: branches,
   or used parts of cut branches, of different lengths.) *)
Theorem C02_fixed_part_glue :
  forall md mem, m_nocase md = false ->
  forall A R B lits L, 0 < L -> fixed_len md mem R L -> lits_exact md mem R lits L -> (forall l, In l lits -> nlen l = L) ->
    DecompGlue md mem (HConcat (A ++ R ++ B)) lits (pre_of A R) (post_of R B).
Proof. exact fixed_glue. Qed.

Theorem C02_equal_alt_glue :
  forall md mem, m_nocase md = false -> bytes_ok mem ->
  forall brs L, Forall (fun br => forallb is_leaf br = true) brs -> Forall (fun br => nlen br = L) brs ->
  forall A B, 0 < L ->
    DecompGlue md mem (HConcat (A ++ alt_part brs ++ B)) (alt_lits md brs) (pre_of A (alt_part brs)) (post_of (alt_part brs) B).
Proof. exact equal_alt_glue. Qed.

Theorem C02_equal_alt_split :
  forall md mem, m_nocase md = false -> bytes_ok mem ->
  forall brs L, Forall (fun br => forallb is_leaf br = true) brs -> Forall (fun br => nlen br = L) brs ->
  forall A B, 0 < L -> nlen mem <= MAX_SPLIT_MATCH_LENGTH ->
    DecompSplit md mem (HConcat (A ++ alt_part brs ++ B)) (alt_lits md brs) (pre_of A (alt_part brs)) (post_of (alt_part brs) B).
Proof. exact equal_alt_split. Qed.

(* spans: every match recorded by the AC path of a non-nullable pattern has positive length and lies inside
   the input (the contract C14's record theorem asks of a matcher) *)
Theorem C02_atomized_spans_ok :
  forall use_sp d mem max_nb,
    plain (s_mods d) -> atoms_ok d -> kind_ok d ->
    (s_kind d = KGreedy \/ DecompGlue (s_mods d) mem (s_hir d) (s_lits d) (s_pre d) (s_post d)) ->
    non_nullable (s_mods d) mem (s_hir d) ->
    Forall (fun y => 0 < snd y /\ fst y + snd y <= nlen mem) (ac_scan use_sp d mem max_nb).
Proof. exact atomized_spans_ok. Qed.

(* The simple byte walker (validator/simple.rs), whenever SimpleValidator::new accepts the HIR, returns
   what the DFA validator returns: the choice made by HalfValidator::new never changes a result. *)
Theorem C02_simple_fwd_correct :
  forall mem md h sv start lim,
    simple_new md h false = Some sv -> start <= lim <= nlen mem ->
    simple_fwd sv mem start lim = lf_end (flags_of md) mem h start lim.
Proof. exact simple_fwd_correct. Qed.

Theorem C02_simple_rev_correct :
  forall mem md h sv lo e,
    simple_new md h true = Some sv -> lo <= e <= nlen mem ->
    simple_rev sv mem lo e = rev_min_start (flags_of md) mem h lo e.
Proof. exact simple_rev_correct. Qed.

(* a hex string has no anchor, no word boundary, no greedy repetition: it is never scanned raw because
   of anchors, never gets the Greedy validator *)
Theorem C02_hex_hir_tame :
  forall ts, has_line_anchor (hir_of_tokens ts) = false
             /\ has_word_boundary (hir_of_tokens ts) = false
             /\ has_greedy (hir_of_tokens ts) = false.
Proof. exact hex_hir_tame. Qed.

(* the window of the theorems is the documented one (the constant is re-extracted from validator.rs on every run) *)
Theorem C02_window_is_documented : MAX_SPLIT_MATCH_LENGTH = 4096.
Proof. reflexivity. Qed.

(* known findings are real; pinned-tree decompositions that were repaired were wrong *)
Theorem C02_start_position_refuted :
  In 0 (starts_spec (flags_of md_hex) m_95 h_95)
  /\ ~ In 0 (map fst (model_scan d_95 m_95 1000))
  /\ kf_start_position d_95 m_95 1000 = true
  /\ In 0 (map fst (ac_scan false d_95 m_95 1000)).
Proof. exact start_position_refuted. Qed.

Theorem C02_alt_glue_refuted :
  In (2, 4) (model_scan d_glue m_glue 1000)
  /\ ~ In 4 (Lens (flags_of md_hex) m_glue h_glue 2)
  /\ kf_alt_glue d_glue h_glue m_glue = true
  /\ ~ DecompGlue md_hex m_glue h_glue (s_lits d_glue) (s_pre d_glue) (s_post d_glue).
Proof. exact alt_glue_refuted. Qed.

Theorem C02_length_by_arrival_refuted :
  Lens (flags_of md_hex) w_len h_len 0 = [8; 6; 4]
  /\ model_scan d_len w_len 1000 = [(0, 6)]
  /\ len_choice_ok [8; 6; 4] 6 = false
  /\ kf_len_arrival d_len (Lens (flags_of md_hex) w_len h_len) w_len = true.
Proof. exact length_by_arrival_refuted. Qed.

Theorem C02_alt_first_post_pinned_refuted :
  In 0 (starts_spec (flags_of md_hex) m_pin h_pin)
  /\ model_scan (d_pin h_pin) m_pin 1000 = []
  /\ model_scan (d_pin (HConcat [HGroup (HAlt [HConcat [HLit 204]; HConcat [HLit 85; HLit 52; HLit 188]]); HLit 99; HDot; HLit 49]))
                m_pin 1000 = [(0, 7)].
Proof. exact alt_first_post_pinned_refuted. Qed.

(* non-vacuity: SimpleValidator::new accepts `BB CC DD ?? EE` (post part of the example below) *)
Example C02_simple_example :
  match simple_new md_hex (HConcat (R_ex ++ B_ex)) false with
  | Some sv => simple_fwd sv m_ex 2 15 = Some 7
  | None => False
  end.
Proof. vm_compute. reflexivity. Qed.

(* non-vacuity: { AA [1-3] BB CC DD ?? EE } on a 15-byte input meets every hypothesis of C02_flat_hex_exact *)
Example C02_flat_example :
  let d := flat_desc md_hex A_ex R_ex B_ex [(0, 0)] KNonGreedy in
  plain md_hex /\ m_nocase md_hex = false /\ forallb is_leaf R_ex = true /\ R_ex <> []
  /\ atoms_ok d /\ bytes_ok m_ex /\ nlen m_ex <= MAX_SPLIT_MATCH_LENGTH /\ nlen m_ex < 1000
  /\ kf_start_position d m_ex 1000 = false
  /\ model_scan d m_ex 1000 = [(0, 7); (7, 8)].
Proof. exact flat_example_hyps. Qed.

Print Assumptions C02_ac_scan_ascending.
Print Assumptions C02_atomized_sound.
Print Assumptions C02_atomized_complete.
Print Assumptions C02_atomized_exact.
Print Assumptions C02_flat_decomp_glue.
Print Assumptions C02_flat_decomp_split.
Print Assumptions C02_flat_hex_exact.
Print Assumptions C02_fixed_part_glue.
Print Assumptions C02_equal_alt_glue.
Print Assumptions C02_equal_alt_split.
Print Assumptions C02_atomized_spans_ok.
Print Assumptions C02_simple_fwd_correct.
Print Assumptions C02_simple_rev_correct.
Print Assumptions C02_hex_hir_tame.
Print Assumptions C02_window_is_documented.
Print Assumptions C02_start_position_refuted.
Print Assumptions C02_alt_glue_refuted.
Print Assumptions C02_alt_first_post_pinned_refuted.
Print Assumptions C02_length_by_arrival_refuted.
Print Assumptions C02_offsets_distinct.
Print Assumptions C02_one_per_offset.
