(* Base/Res.v — result type of the evaluator model.
   Ok v | Undef (YARA undefined) | Needed (string matches needed: the no-scan pass cannot decide)
   | Panic (the Rust code would panic: out-of-bounds index, arithmetic overflow check). *)
From Boreal Require Import Base.Prelude.

Inductive res (A : Type) : Type :=
| Ok (a : A)
| Undef
| Needed
| Panic.
Arguments Ok {A} a.
Arguments Undef {A}.
Arguments Needed {A}.
Arguments Panic {A}.

Definition bind {A B} (r : res A) (f : A -> res B) : res B :=
  match r with
  | Ok a => f a
  | Undef => Undef
  | Needed => Needed
  | Panic => Panic
  end.

Notation "'let*' x ':=' r 'in' k" := (bind r (fun x => k))
  (at level 200, x pattern, r at level 100, k at level 200, right associativity).

Definition res_eqb {A} (eqb : A -> A -> bool) (a b : res A) : bool :=
  match a, b with
  | Ok x, Ok y => eqb x y
  | Undef, Undef => true
  | Needed, Needed => true
  | Panic, Panic => true
  | _, _ => false
  end.

(* refinement order of the no-scan pass: Needed is below everything *)
Definition refines {A} (a b : res A) : Prop := a = Needed \/ a = b.

Lemma refines_refl {A} (a : res A) : refines a a.
Proof. right; reflexivity. Qed.

Lemma refines_bind {A B} (a a' : res A) (f f' : A -> res B) :
  refines a a' -> (forall x, refines (f x) (f' x)) -> refines (bind a f) (bind a' f').
Proof.
  intros [->| ->] Hf; [left; reflexivity|].
  destruct a'; cbn [bind]; try (right; reflexivity). apply Hf.
Qed.

Lemma refines_ok {A} (a : A) (b : res A) : refines (Ok a) b -> b = Ok a.
Proof. intros [H|H]; [discriminate|symmetry; exact H]. Qed.

Lemma refines_undef {A} (b : res A) : refines Undef b -> b = Undef.
Proof. intros [H|H]; [discriminate|symmetry; exact H]. Qed.

Lemma refines_panic {A} (b : res A) : refines Panic b -> b = Panic.
Proof. intros [H|H]; [discriminate|symmetry; exact H]. Qed.
