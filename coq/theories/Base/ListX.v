(* Base/ListX.v — generic list helpers indexed by N (shared; keep generic). *)
From Boreal Require Import Base.Prelude.

Definition ntake {A} (n : N) (l : list A) : list A := firstn (N.to_nat n) l.
Definition ndrop {A} (n : N) (l : list A) : list A := skipn (N.to_nat n) l.
(* l[a..b) ; empty when b <= a *)
Definition slice {A} (a b : N) (l : list A) : list A := ntake (b - a) (ndrop a l).
Definition nnth {A} (d : A) (i : N) (l : list A) : A := nth (N.to_nat i) l d.
Definition nnth_opt {A} (i : N) (l : list A) : option A := nth_error l (N.to_nat i).

Fixpoint iota_nat (s : N) (n : nat) : list N :=
  match n with O => [] | S k => s :: iota_nat (s + 1) k end.
(* [s; s+1; ...; s+n-1] *)
Definition iota (s n : N) : list N := iota_nat s (N.to_nat n).

Fixpoint mapi_from {A B} (f : N -> A -> B) (i : N) (l : list A) : list B :=
  match l with [] => [] | x :: l' => f i x :: mapi_from f (i + 1) l' end.
Definition mapi {A B} (f : N -> A -> B) (l : list A) : list B := mapi_from f 0 l.

Definition nsum (l : list N) : N := fold_right N.add 0 l.

Fixpoint memb {A} (eqb : A -> A -> bool) (x : A) (l : list A) : bool :=
  match l with [] => false | y :: l' => eqb x y || memb eqb x l' end.

(* keep the first occurrence of every element *)
Fixpoint dedup_acc {A} (eqb : A -> A -> bool) (seen : list A) (l : list A) : list A :=
  match l with
  | [] => []
  | x :: l' => if memb eqb x seen then dedup_acc eqb seen l' else x :: dedup_acc eqb (x :: seen) l'
  end.
Definition dedup {A} (eqb : A -> A -> bool) (l : list A) : list A := dedup_acc eqb [] l.

Definition last_opt {A} (l : list A) : option A :=
  match rev l with [] => None | x :: _ => Some x end.

(* replace element i of l by f applied to it (no change when out of range) *)
Fixpoint update_nth {A} (i : nat) (f : A -> A) (l : list A) : list A :=
  match l, i with
  | [], _ => []
  | x :: l', O => f x :: l'
  | x :: l', S k => x :: update_nth k f l'
  end.
Definition nupdate {A} (i : N) (f : A -> A) (l : list A) : list A := update_nth (N.to_nat i) f l.

(* ------------------------------------------------------------------ lemmas *)

Lemma nlen_nil {A} : nlen (@nil A) = 0.
Proof. reflexivity. Qed.

Lemma nlen_cons {A} (x : A) l : nlen (x :: l) = nlen l + 1.
Proof. unfold nlen. cbn [length]. lia. Qed.

Lemma nlen_app {A} (a b : list A) : nlen (a ++ b) = nlen a + nlen b.
Proof. unfold nlen. rewrite app_length. lia. Qed.

Lemma nlen_map {A B} (f : A -> B) l : nlen (map f l) = nlen l.
Proof. unfold nlen. now rewrite map_length. Qed.

Lemma nlen_rev {A} (l : list A) : nlen (rev l) = nlen l.
Proof. unfold nlen. now rewrite rev_length. Qed.

Lemma nlen_ntake {A} n (l : list A) : nlen (ntake n l) = N.min n (nlen l).
Proof. unfold nlen, ntake. rewrite firstn_length. lia. Qed.

Lemma nlen_ndrop {A} n (l : list A) : nlen (ndrop n l) = nlen l - n.
Proof. unfold nlen, ndrop. rewrite skipn_length. lia. Qed.

Lemma nlen_slice {A} a b (l : list A) : nlen (slice a b l) = N.min (b - a) (nlen l - a).
Proof. unfold slice. now rewrite nlen_ntake, nlen_ndrop. Qed.

Lemma ntake_all {A} n (l : list A) : nlen l <= n -> ntake n l = l.
Proof. unfold nlen, ntake. intros. apply firstn_all2. lia. Qed.

Lemma ntake_app_le {A} n (a b : list A) : n <= nlen a -> ntake n (a ++ b) = ntake n a.
Proof.
  unfold nlen, ntake. intros. rewrite firstn_app.
  replace (N.to_nat n - length a)%nat with O by lia. cbn [firstn]. now rewrite app_nil_r.
Qed.

Lemma ntake_app_exact {A} (a b : list A) : ntake (nlen a) (a ++ b) = a.
Proof.
  unfold nlen, ntake. rewrite Nnat.Nat2N.id, firstn_app, Nat.sub_diag. cbn [firstn].
  now rewrite firstn_all, app_nil_r.
Qed.

Lemma ndrop_app_exact {A} (a b : list A) : ndrop (nlen a) (a ++ b) = b.
Proof.
  unfold nlen, ndrop. rewrite Nnat.Nat2N.id, skipn_app, Nat.sub_diag, skipn_all. reflexivity.
Qed.

Lemma skipn_skipn' {A} (x y : nat) (l : list A) : skipn x (skipn y l) = skipn (y + x) l.
Proof.
  revert l; induction y as [|y IH]; intros l; cbn [skipn Nat.add]; [reflexivity|].
  destruct l; [now rewrite skipn_nil | apply IH].
Qed.

Lemma ndrop_ndrop {A} a b (l : list A) : ndrop a (ndrop b l) = ndrop (b + a) l.
Proof.
  unfold ndrop. rewrite skipn_skipn'. f_equal. lia.
Qed.

Lemma ntake_ndrop_id {A} n (l : list A) : ntake n l ++ ndrop n l = l.
Proof. apply firstn_skipn. Qed.

(* the decomposition of a list around a slice *)
Lemma slice_split {A} a b (l : list A) :
  a <= b -> b <= nlen l -> l = ntake a l ++ slice a b l ++ ndrop b l.
Proof.
  intros Hab Hb. unfold slice.
  rewrite <- (ntake_ndrop_id a l) at 1. f_equal.
  rewrite <- (ntake_ndrop_id (b - a) (ndrop a l)) at 1. f_equal.
  rewrite ndrop_ndrop. f_equal. lia.
Qed.

Lemma slice_app_mid {A} (p x s : list A) :
  slice (nlen p) (nlen p + nlen x) (p ++ x ++ s) = x.
Proof.
  unfold slice. rewrite ndrop_app_exact.
  replace (nlen p + nlen x - nlen p) with (nlen x) by lia.
  apply ntake_app_exact.
Qed.

(* a slice of a slice *)
Lemma slice_slice {A} a b c d (l : list A) :
  a + d <= b ->
  slice c d (slice a b l) = slice (a + c) (a + d) l.
Proof.
  intros H. unfold slice, ntake, ndrop.
  rewrite skipn_firstn_comm, firstn_firstn, skipn_skipn'.
  f_equal; [lia | f_equal; lia].
Qed.

Lemma slice_nil_ge {A} a b (l : list A) : b <= a -> slice a b l = [].
Proof. intros. unfold slice, ntake. replace (N.to_nat (b - a)) with O by lia. reflexivity. Qed.

Lemma slice_full {A} (l : list A) : slice 0 (nlen l) l = l.
Proof.
  unfold slice, ndrop. cbn [N.to_nat skipn]. rewrite N.sub_0_r. now apply ntake_all.
Qed.

Lemma nth_firstn' {A} (d : A) i n (l : list A) : (i < n)%nat -> nth i (firstn n l) d = nth i l d.
Proof.
  revert i l; induction n as [|n IH]; intros i l H; [lia|].
  destruct l as [|x l]; cbn [firstn]; [reflexivity|].
  destruct i; cbn [nth]; [reflexivity | apply IH; lia].
Qed.

Lemma nth_skipn' {A} (d : A) i n (l : list A) : nth i (skipn n l) d = nth (n + i) l d.
Proof.
  revert l; induction n as [|n IH]; intros l; cbn [skipn Nat.add]; [reflexivity|].
  destruct l as [|x l]; cbn [nth]; [now destruct i | apply IH].
Qed.

Lemma nnth_slice {A} (d : A) a b i (l : list A) :
  a + i < b -> nnth d i (slice a b l) = nnth d (a + i) l.
Proof.
  intros H. unfold nnth, slice, ntake, ndrop.
  rewrite nth_firstn' by lia. rewrite nth_skipn'. f_equal. lia.
Qed.

Lemma nth_ext_len {A} (d : A) (a b : list A) :
  length a = length b -> (forall i, (i < length a)%nat -> nth i a d = nth i b d) -> a = b.
Proof.
  intros Hl H. apply (nth_ext a b d d Hl H).
Qed.

Lemma slice_eq_nnth {A} (d : A) a n (l x : list A) :
  a + n <= nlen l -> nlen x = n ->
  (forall i, i < n -> nnth d (a + i) l = nnth d i x) ->
  slice a (a + n) l = x.
Proof.
  intros Hb Hn H. apply (nth_ext_len d).
  - pose proof (nlen_slice a (a + n) l) as E. unfold nlen in *. lia.
  - intros i Hi.
    assert (Hi' : N.of_nat i < n).
    { pose proof (nlen_slice a (a + n) l) as E. unfold nlen in *. lia. }
    specialize (H (N.of_nat i) Hi').
    pose proof (nnth_slice d a (a + n) (N.of_nat i) l) as E.
    unfold nnth in *. rewrite Nnat.Nat2N.id in *. rewrite E by lia. exact H.
Qed.

Lemma iota_nat_length s n : length (iota_nat s n) = n.
Proof. revert s; induction n; intros; cbn [iota_nat length]; auto. Qed.

Lemma in_iota_nat s n x : In x (iota_nat s n) <-> s <= x < s + N.of_nat n.
Proof.
  revert s; induction n as [|n IH]; intros s; cbn [iota_nat In].
  - lia.
  - rewrite IH. lia.
Qed.

Lemma in_iota s n x : In x (iota s n) <-> s <= x < s + n.
Proof. unfold iota. rewrite in_iota_nat. lia. Qed.

Lemma nlen_iota s n : nlen (iota s n) = n.
Proof. unfold nlen, iota. rewrite iota_nat_length. lia. Qed.

Lemma memb_In {A} (eqb : A -> A -> bool) :
  (forall x y, eqb x y = true <-> x = y) ->
  forall x l, memb eqb x l = true <-> In x l.
Proof.
  intros H x l; induction l as [|y l IH]; cbn [memb In].
  - split; [discriminate | tauto].
  - rewrite orb_true_iff, IH, H. split; intros [E|E]; auto.
Qed.

Lemma dedup_acc_In {A} (eqb : A -> A -> bool) :
  (forall x y, eqb x y = true <-> x = y) ->
  forall l seen x, In x (dedup_acc eqb seen l) <-> (In x l /\ ~ In x seen).
Proof.
  intros H l; induction l as [|y l IH]; intros seen x; cbn [dedup_acc In].
  - tauto.
  - destruct (memb eqb y seen) eqn:E.
    + apply (memb_In eqb H) in E. rewrite IH. split.
      * intros [? ?]; auto.
      * intros [[->|?] ?]; [contradiction | auto].
    + assert (~ In y seen) by (intros Hc; apply (memb_In eqb H) in Hc; congruence).
      cbn [In]. rewrite IH. cbn [In]. split.
      * intros [->|[? Hn]]; [auto|]. split; [auto|]. intros Hc; apply Hn; auto.
      * intros [[->|?] Hn]; [auto|].
        destruct (eqb y x) eqn:Eyx.
        -- apply H in Eyx. auto.
        -- right. split; [auto|]. intros [->|?]; [|auto].
           assert (eqb x x = true) by now apply H. congruence.
Qed.

Lemma dedup_In {A} (eqb : A -> A -> bool) :
  (forall x y, eqb x y = true <-> x = y) ->
  forall l x, In x (dedup eqb l) <-> In x l.
Proof. intros H l x. unfold dedup. rewrite (dedup_acc_In eqb H). cbn [In]. tauto. Qed.

Lemma mapi_from_length {A B} (f : N -> A -> B) i l : length (mapi_from f i l) = length l.
Proof. revert i; induction l; intros; cbn [mapi_from length]; auto. Qed.

Lemma in_mapi_from {A B} (f : N -> A -> B) l : forall i y,
  In y (mapi_from f i l) <-> exists k x, nth_error l k = Some x /\ y = f (i + N.of_nat k) x.
Proof.
  induction l as [|a l IH]; intros i y; cbn [mapi_from In].
  - split; [tauto|]. intros (k & x & E & _). destruct k; discriminate.
  - rewrite IH. split.
    + intros [<-|(k & x & E & ->)].
      * exists O, a. split; [reflexivity|]. f_equal. lia.
      * exists (S k), x. split; [exact E|]. f_equal. lia.
    + intros (k & x & E & ->). destruct k as [|k]; cbn [nth_error] in E.
      * inversion E; subst. left. f_equal. lia.
      * right. exists k, x. split; [exact E|]. f_equal. lia.
Qed.

Lemma update_nth_length {A} i (f : A -> A) l : length (update_nth i f l) = length l.
Proof. revert i; induction l; intros [|i]; cbn [update_nth length]; auto. Qed.

Lemma nth_update_nth_eq {A} (d : A) i f l :
  (i < length l)%nat -> nth i (update_nth i f l) d = f (nth i l d).
Proof.
  revert i; induction l as [|x l IH]; intros [|i] H; cbn [update_nth nth length] in *; try lia; auto.
  apply IH. lia.
Qed.

Lemma nth_update_nth_neq {A} (d : A) i j f l :
  i <> j -> nth j (update_nth i f l) d = nth j l d.
Proof.
  revert i j; induction l as [|x l IH]; intros [|i] [|j] H; cbn [update_nth nth]; auto; try congruence.
Qed.

(* short slices *)
Lemma skipn_nth_cons {A} (d : A) n (l : list A) :
  (n < length l)%nat -> skipn n l = nth n l d :: skipn (S n) l.
Proof.
  revert l; induction n as [|n IH]; intros [|x l] H; cbn [length] in H; try lia; cbn [skipn nth].
  - reflexivity.
  - apply IH. lia.
Qed.

Lemma slice_one {A} (d : A) a (l : list A) :
  slice a (a + 1) l = if a <? nlen l then [nnth d a l] else [].
Proof.
  unfold slice, ntake, ndrop, nnth, nlen. replace (N.to_nat (a + 1 - a)) with 1%nat by lia.
  destruct (a <? N.of_nat (length l)) eqn:E.
  - rewrite (skipn_nth_cons d) by lia. reflexivity.
  - rewrite skipn_all2 by lia. reflexivity.
Qed.

Lemma slice_two {A} (d : A) a (l : list A) :
  slice a (a + 2) l =
  if a + 1 <? nlen l then [nnth d a l; nnth d (a + 1) l]
  else if a <? nlen l then [nnth d a l] else [].
Proof.
  unfold slice, ntake, ndrop, nnth, nlen. replace (N.to_nat (a + 2 - a)) with 2%nat by lia.
  destruct (a + 1 <? N.of_nat (length l)) eqn:E.
  - rewrite (skipn_nth_cons d) by lia. rewrite (skipn_nth_cons d (S (N.to_nat a))) by lia.
    cbn [firstn]. repeat f_equal. lia.
  - destruct (a <? N.of_nat (length l)) eqn:E2.
    + rewrite (skipn_nth_cons d) by lia. rewrite (skipn_all2 l (n := S (N.to_nat a))) by lia. reflexivity.
    + rewrite skipn_all2 by lia. reflexivity.
Qed.
