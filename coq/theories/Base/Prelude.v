(* Base/Prelude.v — shared imports, numeric conventions, small list helpers.
   Bytes are N (< 256), byte strings list N, offsets/lengths N, i64 values Z. *)
From Coq Require Export List NArith ZArith Bool Lia.
From Coq Require Export ZifyBool ZifyNat ZifyN.
Export ListNotations.
Global Open Scope N_scope.
Global Open Scope bool_scope.

Ltac Zify.zify_post_hook ::= Z.div_mod_to_equations.

Global Arguments N.add : simpl never.
Global Arguments N.sub : simpl never.
Global Arguments N.mul : simpl never.
Global Arguments N.div : simpl never.
Global Arguments N.modulo : simpl never.
Global Arguments N.eqb : simpl never.
Global Arguments N.ltb : simpl never.
Global Arguments N.leb : simpl never.
Global Arguments N.min : simpl never.
Global Arguments N.max : simpl never.
Global Arguments N.pow : simpl never.
Global Arguments Z.add : simpl never.
Global Arguments Z.sub : simpl never.
Global Arguments Z.mul : simpl never.
Global Arguments Z.eqb : simpl never.
Global Arguments Z.ltb : simpl never.
Global Arguments Z.leb : simpl never.

(* usize on the 64-bit targets the harness runs on *)
Definition umax : N := 18446744073709551615.
Definition sat_add (a b : N) : N := N.min (a + b) umax.

Definition nlen {A} (l : list A) : N := N.of_nat (length l).

Fixpoint list_eqb {A} (eqb : A -> A -> bool) (a b : list A) : bool :=
  match a, b with
  | [], [] => true
  | x :: a', y :: b' => eqb x y && list_eqb eqb a' b'
  | _, _ => false
  end.

Definition opt_eqb {A} (eqb : A -> A -> bool) (a b : option A) : bool :=
  match a, b with
  | None, None => true
  | Some x, Some y => eqb x y
  | _, _ => false
  end.

Definition pair_eqb {A B} (ea : A -> A -> bool) (eb : B -> B -> bool) (a b : A * B) : bool :=
  ea (fst a) (fst b) && eb (snd a) (snd b).

Lemma list_eqb_spec {A} (eqb : A -> A -> bool) :
  (forall x y, eqb x y = true <-> x = y) ->
  forall a b, list_eqb eqb a b = true <-> a = b.
Proof.
  intros H a; induction a as [|x a IH]; intros [|y b]; cbn [list_eqb]; split; intros E;
    try discriminate; try reflexivity.
  - apply andb_true_iff in E as [E1 E2]. apply H in E1. apply IH in E2. congruence.
  - inversion E; subst. apply andb_true_iff; split; [apply H | apply IH]; reflexivity.
Qed.
