(* Base/Sorted.v — strictly ascending lists of N, sorted insert, uniqueness (shared; keep generic). *)
From Coq Require Import Sorting.Sorted.
From Boreal Require Import Base.Prelude Base.ListX.

Definition asc (l : list N) : Prop := StronglySorted N.lt l.
Definition desc (l : list N) : Prop := StronglySorted (fun a b => b < a) l.

Fixpoint ascb (l : list N) : bool :=
  match l with
  | [] => true
  | x :: l' => match l' with [] => true | y :: _ => (x <? y) && ascb l' end
  end.

(* sorted insert keeping one entry per key *)
Fixpoint ins (x : N) (l : list N) : list N :=
  match l with
  | [] => [x]
  | y :: l' => if x <? y then x :: l else if x =? y then l else y :: ins x l'
  end.

Lemma asc_nil : asc [].
Proof. constructor. Qed.

Lemma asc_cons_inv x l : asc (x :: l) -> asc l /\ Forall (N.lt x) l.
Proof. intros H. inversion H; subst. auto. Qed.

Lemma asc_cons x l : asc l -> Forall (N.lt x) l -> asc (x :: l).
Proof. intros. constructor; auto. Qed.

Lemma ascb_asc l : ascb l = true <-> asc l.
Proof.
  induction l as [|x l IH]; cbn [ascb].
  - split; auto using asc_nil.
  - destruct l as [|y l'].
    + split; auto. intros _. apply asc_cons; constructor.
    + rewrite andb_true_iff, IH. split.
      * intros [Hxy Hs]. apply asc_cons; auto.
        apply asc_cons_inv in Hs as [_ Hf]. constructor; [lia|].
        eapply Forall_impl; [|exact Hf]. cbn. intros. lia.
      * intros H. apply asc_cons_inv in H as [Hs Hf]. split; auto.
        inversion Hf; subst. lia.
Qed.

Lemma asc_NoDup l : asc l -> NoDup l.
Proof.
  induction l as [|x l IH]; intros H; constructor.
  - apply asc_cons_inv in H as [_ Hf]. intros Hin.
    rewrite Forall_forall in Hf. specialize (Hf _ Hin). lia.
  - apply IH. now apply asc_cons_inv in H.
Qed.

(* two strictly ascending lists with the same elements are equal *)
Lemma asc_unique a : forall b, asc a -> asc b -> (forall x, In x a <-> In x b) -> a = b.
Proof.
  induction a as [|x a IH]; intros [|y b] Ha Hb H.
  - reflexivity.
  - exfalso. apply (proj2 (H y)). now left.
  - exfalso. apply (proj1 (H x)). now left.
  - apply asc_cons_inv in Ha as [Ha Fa]. apply asc_cons_inv in Hb as [Hb Fb].
    rewrite Forall_forall in Fa, Fb.
    assert (x = y).
    { destruct (proj1 (H x) (or_introl eq_refl)) as [E|E]; [auto|].
      destruct (proj2 (H y) (or_introl eq_refl)) as [E2|E2]; [auto|].
      specialize (Fa _ E2). specialize (Fb _ E). lia. }
    subst y. f_equal. apply IH; auto.
    intros z. split; intros Hz.
    + destruct (proj1 (H z) (or_intror Hz)) as [E|E]; [|auto]. subst z. specialize (Fa _ Hz). lia.
    + destruct (proj2 (H z) (or_intror Hz)) as [E|E]; [|auto]. subst z. specialize (Fb _ Hz). lia.
Qed.

Lemma asc_incl_length a b : asc a -> (forall x, In x a -> In x b) -> (length a <= length b)%nat.
Proof. intros Ha H. apply NoDup_incl_length; [now apply asc_NoDup | exact H]. Qed.

Lemma asc_iota_nat n : forall s, asc (iota_nat s n).
Proof.
  induction n as [|n IH]; intros s; cbn [iota_nat]; [apply asc_nil|].
  apply asc_cons; [apply IH|]. apply Forall_forall. intros x Hx. apply in_iota_nat in Hx. lia.
Qed.

Lemma asc_iota s n : asc (iota s n).
Proof. apply asc_iota_nat. Qed.

Lemma asc_filter f l : asc l -> asc (filter f l).
Proof.
  induction l as [|x l IH]; intros H; cbn [filter]; [apply asc_nil|].
  apply asc_cons_inv in H as [Hs Hf]. destruct (f x); [|auto].
  apply asc_cons; auto. apply Forall_forall. intros y Hy. apply filter_In in Hy as [Hy _].
  rewrite Forall_forall in Hf. auto.
Qed.

Lemma in_ins x l z : In z (ins x l) <-> z = x \/ In z l.
Proof.
  induction l as [|y l IH]; cbn [ins In].
  - intuition.
  - destruct (x <? y) eqn:E1; [cbn [In]; intuition|].
    destruct (x =? y) eqn:E2.
    + apply N.eqb_eq in E2. subst. cbn [In]. intuition.
    + cbn [In]. rewrite IH. intuition.
Qed.

Lemma asc_ins x l : asc l -> asc (ins x l).
Proof.
  induction l as [|y l IH]; intros H; cbn [ins].
  - apply asc_cons; [apply asc_nil | constructor].
  - destruct (x <? y) eqn:E1.
    + apply asc_cons; [exact H|]. pose proof (asc_cons_inv _ _ H) as [_ Hf].
      constructor; [lia|]. eapply Forall_impl; [|exact Hf]. cbn; intros; lia.
    + destruct (x =? y) eqn:E2; [exact H|].
      apply asc_cons_inv in H as [Hs Hf]. apply asc_cons; [auto|].
      apply Forall_forall. intros z Hz. apply in_ins in Hz as [->|Hz]; [lia|].
      rewrite Forall_forall in Hf. auto.
Qed.

(* descending lists and reversal *)
Lemma desc_cons_inv x l : desc (x :: l) -> desc l /\ Forall (fun y => y < x) l.
Proof. intros H. inversion H; subst. auto. Qed.

Lemma asc_app a b : asc a -> asc b -> (forall x y, In x a -> In y b -> x < y) -> asc (a ++ b).
Proof.
  induction a as [|x a IH]; intros Ha Hb H; cbn [app]; [exact Hb|].
  apply asc_cons_inv in Ha as [Ha Fa]. apply asc_cons.
  - apply IH; auto. intros; apply H; cbn [In]; auto.
  - apply Forall_app. split; [exact Fa|]. apply Forall_forall. intros y Hy. apply H; cbn [In]; auto.
Qed.

Lemma desc_rev_asc l : desc l -> asc (rev l).
Proof.
  induction l as [|x l IH]; intros H; cbn [rev]; [apply asc_nil|].
  apply desc_cons_inv in H as [Hd Hf]. apply asc_app; auto.
  - apply asc_cons; [apply asc_nil | constructor].
  - intros a b Ha Hb. cbn [In] in Hb. destruct Hb as [<-|[]].
    rewrite Forall_forall in Hf. apply Hf. now apply in_rev.
Qed.

Lemma asc_rev_desc l : asc l -> desc (rev l).
Proof.
  induction l as [|x l IH]; intros H; cbn [rev]; [constructor|].
  apply asc_cons_inv in H as [Hs Hf].
  assert (G : forall a b, desc a -> desc b -> (forall x y, In x a -> In y b -> y < x) -> desc (a ++ b)).
  { clear. induction a as [|x a IH]; intros b Ha Hb H; cbn [app]; [exact Hb|].
    apply desc_cons_inv in Ha as [Ha Fa]. constructor.
    - apply IH; auto. intros; apply H; cbn [In]; auto.
    - apply Forall_app. split; [exact Fa|]. apply Forall_forall. intros y Hy. apply H; cbn [In]; auto. }
  apply G; auto.
  - constructor; constructor.
  - intros a b Ha Hb. cbn [In] in Hb. destruct Hb as [<-|[]].
    rewrite Forall_forall in Hf. apply Hf. now apply in_rev.
Qed.

(* prefix of an ascending list *)
Lemma asc_ntake n l : asc l -> asc (ntake n l).
Proof.
  unfold ntake. generalize (N.to_nat n) as k. intros k; revert l.
  induction k as [|k IH]; intros l H; [apply asc_nil|].
  destruct l as [|x l]; cbn [firstn]; [apply asc_nil|].
  apply asc_cons_inv in H as [Hs Hf]. apply asc_cons; [auto|].
  apply Forall_forall. intros y Hy. rewrite Forall_forall in Hf. apply Hf.
  rewrite <- (firstn_skipn k l). apply in_or_app. now left.
Qed.
