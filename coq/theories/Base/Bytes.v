(* Base/Bytes.v — bytes as N (< 256), ASCII classes, case folding, xor (shared; keep generic). *)
From Boreal Require Import Base.Prelude Base.ListX.

Definition bytes := list N.

Definition byte_ok (b : N) : bool := b <? 256.
Definition bytes_ok (m : bytes) : bool := forallb byte_ok m.

Definition bytes_eqb : bytes -> bytes -> bool := list_eqb N.eqb.

(* u8::is_ascii_uppercase / lowercase / digit / alphanumeric *)
Definition is_upper (b : N) : bool := (65 <=? b) && (b <=? 90).
Definition is_lower (b : N) : bool := (97 <=? b) && (b <=? 122).
Definition is_digit (b : N) : bool := (48 <=? b) && (b <=? 57).
Definition is_alnum (b : N) : bool := is_upper b || is_lower b || is_digit b.

(* u8::to_ascii_lowercase *)
Definition to_lower (b : N) : N := if is_upper b then b + 32 else b.
Definition lower_bytes (s : bytes) : bytes := map to_lower s.

(* <[u8]>::eq_ignore_ascii_case *)
Definition eq_nocase (a b : bytes) : bool := bytes_eqb (lower_bytes a) (lower_bytes b).

Definition xor_bytes (k : N) (s : bytes) : bytes := map (fun c => N.lxor c k) s.

(* ------------------------------------------------------------------ lemmas *)

Lemma Neqb_iff x y : N.eqb x y = true <-> x = y.
Proof. apply N.eqb_eq. Qed.

Lemma bytes_eqb_eq a b : bytes_eqb a b = true <-> a = b.
Proof. apply list_eqb_spec. exact Neqb_iff. Qed.

Lemma bytes_eqb_refl a : bytes_eqb a a = true.
Proof. now apply bytes_eqb_eq. Qed.

Lemma bytes_eqb_false a b : bytes_eqb a b = false <-> a <> b.
Proof.
  split; intros H.
  - intros E. apply bytes_eqb_eq in E. congruence.
  - destruct (bytes_eqb a b) eqn:E; [|reflexivity]. apply bytes_eqb_eq in E. contradiction.
Qed.

Lemma to_lower_idem b : to_lower (to_lower b) = to_lower b.
Proof.
  unfold to_lower, is_upper.
  destruct ((65 <=? b) && (b <=? 90)) eqn:E; [|now rewrite E].
  destruct ((65 <=? b + 32) && (b + 32 <=? 90)) eqn:E2; lia.
Qed.

Lemma lower_bytes_idem s : lower_bytes (lower_bytes s) = lower_bytes s.
Proof. unfold lower_bytes. rewrite map_map. apply map_ext. exact to_lower_idem. Qed.

Lemma lower_bytes_length s : length (lower_bytes s) = length s.
Proof. apply map_length. Qed.

Lemma nlen_lower s : nlen (lower_bytes s) = nlen s.
Proof. apply nlen_map. Qed.

Lemma eq_nocase_iff a b : eq_nocase a b = true <-> lower_bytes a = lower_bytes b.
Proof. apply bytes_eqb_eq. Qed.

Lemma lower_bytes_app a b : lower_bytes (a ++ b) = lower_bytes a ++ lower_bytes b.
Proof. apply map_app. Qed.

Lemma lower_ntake n s : lower_bytes (ntake n s) = ntake n (lower_bytes s).
Proof. unfold lower_bytes, ntake. now rewrite firstn_map. Qed.

Lemma lower_ndrop n s : lower_bytes (ndrop n s) = ndrop n (lower_bytes s).
Proof. unfold lower_bytes, ndrop. now rewrite skipn_map. Qed.

Lemma lower_slice a b s : lower_bytes (slice a b s) = slice a b (lower_bytes s).
Proof. unfold slice. now rewrite lower_ntake, lower_ndrop. Qed.

Lemma xor_bytes_length k s : length (xor_bytes k s) = length s.
Proof. apply map_length. Qed.

Lemma xor_bytes_involutive k s : xor_bytes k (xor_bytes k s) = s.
Proof.
  unfold xor_bytes. rewrite map_map. rewrite <- (map_id s) at 2. apply map_ext.
  intros c. rewrite N.lxor_assoc, N.lxor_nilpotent, N.lxor_0_r. reflexivity.
Qed.
