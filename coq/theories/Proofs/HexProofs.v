(* Proofs/HexProofs.v — the statement of C02 in its final form: for a decomposition satisfying
   `Decomp`, the reported offsets are EXACTLY the offsets where a member starts, in ascending order,
   and every reported length is a member length; then the instance for flat patterns (every flat hex
   string, every run), where `Decomp` is proved (Proofs/DecompProofs.v). *)
From Boreal Require Import Base.Prelude Base.Consts Spec.Regex Model.Hir Model.Widen Model.Validator Model.Raw Model.HirScan
  Model.Decomp Proofs.RegexBasics Proofs.RegexStruct Proofs.HexScanProofs Proofs.ValidatorProofs Proofs.DecompProofs.
From Coq Require Import Sorted.

(* ------------------------------------------------------------------ ascending lists *)
Definition sasc (l : list N) : Prop := StronglySorted N.lt l.

Lemma sasc_ext l1 l2 : sasc l1 -> sasc l2 -> (forall x, In x l1 <-> In x l2) -> l1 = l2.
Proof.
  unfold sasc. revert l2. induction l1 as [|x r IH]; intros l2 H1 H2 He.
  - destruct l2 as [|y r2]; [reflexivity|]. exfalso. apply (He y). left. reflexivity.
  - destruct l2 as [|y r2]; [exfalso; apply (He x); left; reflexivity|].
    inversion H1 as [|? ? Hr1 Hx]; subst. inversion H2 as [|? ? Hr2 Hy]; subst.
    rewrite Forall_forall in Hx, Hy.
    assert (x = y).
    { destruct (N.lt_trichotomy x y) as [L|[L|L]]; [|exact L|]; exfalso.
      - assert (Hin : In x (y :: r2)) by (apply He; left; reflexivity).
        destruct Hin as [->|Hin]; [lia|]. specialize (Hy x Hin). lia.
      - assert (Hin : In y (x :: r)) by (apply He; left; reflexivity).
        destruct Hin as [->|Hin]; [lia|]. specialize (Hx y Hin). lia. }
    subst y. f_equal. apply IH; [exact Hr1|exact Hr2|].
    intros z. split; intros Hz.
    + assert (Hin : In z (x :: r2)) by (apply He; right; exact Hz).
      destruct Hin as [->|Hin]; [|exact Hin]. specialize (Hx z Hz). lia.
    + assert (Hin : In z (x :: r)) by (apply He; right; exact Hz).
      destruct Hin as [->|Hin]; [|exact Hin]. specialize (Hy z Hz). lia.
Qed.

Lemma asc_map_fst ms : asc ms -> sasc (map fst ms).
Proof.
  unfold asc, sasc. induction 1 as [|x r Hr IH Hx]; cbn [map]; constructor; [exact IH|].
  rewrite Forall_forall in *. intros y Hy. apply in_map_iff in Hy as (z & <- & Hz). auto.
Qed.

Lemma nrange_sasc lo n : sasc (nrange lo n).
Proof.
  unfold sasc. revert lo. induction n as [|n IH]; intros lo; cbn [nrange]; constructor; [apply IH|].
  apply Forall_forall. intros y Hy. apply nrange_In in Hy. lia.
Qed.

Lemma filter_sasc P l : sasc l -> sasc (filter P l).
Proof.
  unfold sasc. induction 1 as [|x r Hr IH Hx]; cbn [filter]; [constructor|].
  destruct (P x); [|exact IH]. constructor; [exact IH|].
  rewrite Forall_forall in *. intros y Hy. apply filter_In in Hy as [Hy _]. auto.
Qed.

(* ------------------------------------------------------------------ exact form *)
Lemma Lens_nonempty fl mem h o l : In l (Lens fl mem h o) -> nonempty (ends fl mem h o) = true.
Proof. unfold Lens. intros H. apply in_map_iff in H as (j & _ & Hj). apply nonempty_In. eauto. Qed.

Definition starts_spec (fl : rflags) (mem : list N) (h : hir) : list N :=
  filter (fun o => nonempty (ends fl mem h o)) (iota 0 (nlen mem)).

Theorem atomized_exact d mem max_nb :
  plain (s_mods d) -> atoms_ok d -> kind_ok d ->
  (s_kind d = KGreedy \/ DecompGlue (s_mods d) mem (s_hir d) (s_lits d) (s_pre d) (s_post d)) ->
  DecompSplit (s_mods d) mem (s_hir d) (s_lits d) (s_pre d) (s_post d) ->
  Forall (fun l => l <> []) (s_lits d) ->
  nlen mem <= umax -> nlen mem < max_nb ->
  kf_start_position d mem max_nb = false ->
  let r := model_scan d mem max_nb in
  map fst r = starts_spec (flags_of (s_mods d)) mem (s_hir d)
  /\ Forall (fun y => In (snd y) (Lens (flags_of (s_mods d)) mem (s_hir d) (fst y))) r.
Proof.
  intros Hp Ha Hk Hg Hs Hne Hfit Hbig Hkf r.
  assert (Hnr : model_scan d mem max_nb = ac_scan true d mem max_nb).
  { unfold model_scan. destruct Hk as [(K & _)|[K|(K & _)]]; rewrite K; reflexivity. }
  assert (Hsound : Forall (fun y => In (snd y) (Lens (flags_of (s_mods d)) mem (s_hir d) (fst y))) r).
  { unfold r. rewrite Hnr. apply atomized_sound; assumption. }
  split; [|exact Hsound].
  apply sasc_ext.
  - apply asc_map_fst. unfold r. rewrite Hnr. apply ac_scan_ascending.
  - apply filter_sasc, nrange_sasc.
  - intros x. unfold starts_spec. rewrite filter_In, iota_In. split.
    + intros Hx. apply in_map_iff in Hx as (y & <- & Hy).
      rewrite Forall_forall in Hsound. specialize (Hsound y Hy).
      split; [|eapply Lens_nonempty; eauto].
      unfold Lens in Hsound. apply in_map_iff in Hsound as (j & _ & Hj).
      destruct (Hs (fst y) j Hj) as (l & s & Hl & [_ Hlen] & _ & _ & Hle & _).
      rewrite Forall_forall in Hne. specialize (Hne l Hl).
      assert (0 < nlen l) by (destruct l; [congruence|unfold nlen; cbn [length]; lia]). lia.
    + intros [_ Hx]. apply nonempty_In in Hx as (b & Hb).
      eapply atomized_complete; eauto.
Qed.

(* ------------------------------------------------------------------ flat patterns *)
(* The compiled form of a flat pattern A ++ R ++ B split at the run R *)
Definition flat_desc (md : mods) (A R B : list hir) (atoms : list (N * N)) (k : vkind) : sdesc :=
  {| s_lits := expand (m_dot_all md) R; s_atoms := atoms; s_kind := k; s_mods := md;
     s_hir := HConcat (A ++ R ++ B); s_pre := pre_of A R; s_post := post_of R B |}.

Lemma expand_nonempty md R : R <> [] -> Forall (fun l => l <> []) (expand (m_dot_all md) R).
Proof.
  intros Hne. apply Forall_forall. intros l Hl Hnil. subst l.
  apply expand_len in Hl. destruct R as [|x r]; [congruence|]. unfold nlen in Hl. cbn [length] in Hl. lia.
Qed.

Theorem flat_hex_exact md A R B atoms k mem max_nb :
  plain md -> m_nocase md = false ->
  forallb is_leaf R = true -> R <> [] ->
  (k = KNonGreedy \/ (k = KLiterals /\ A = [] /\ B = [])) ->
  let d := flat_desc md A R B atoms k in
  atoms_ok d ->
  bytes_ok mem -> nlen mem <= MAX_SPLIT_MATCH_LENGTH -> nlen mem < max_nb ->
  kf_start_position d mem max_nb = false ->
  let r := model_scan d mem max_nb in
  map fst r = starts_spec (flags_of md) mem (HConcat (A ++ R ++ B))
  /\ Forall (fun y => In (snd y) (Lens (flags_of md) mem (HConcat (A ++ R ++ B)) (fst y))) r.
Proof.
  intros Hp Hnc HR HRne Hkind d Ha Hb Hwin Hbig Hkf.
  apply (atomized_exact d mem max_nb); try assumption.
  - destruct Hkind as [->|(-> & -> & ->)]; [right; left; reflexivity|left; repeat split; reflexivity].
  - right. apply flat_glue; assumption.
  - apply flat_split; assumption.
  - apply expand_nonempty. exact HRne.
  - unfold MAX_SPLIT_MATCH_LENGTH, Consts.MAX_SPLIT_MATCH_LENGTH, umax in *. lia.
Qed.
