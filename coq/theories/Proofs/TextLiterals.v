(* Proofs/TextLiterals.v — the literals `Matcher::new_bytes` generates are exactly the encodings of the
   declaration (Spec/TextSpec.v enc_set); the xor key recovered from a literal index
   (`get_xor_key`, after F1) and the wide/ascii kind derived from it (`confirm_ac_literal`) are those
   of the encoding. *)
From Boreal Require Import Base.Prelude Base.ListX Base.Bytes Base.Consts Model.Base64 Model.Literals Model.AcScan
  Spec.TextSpec Model.TextCase.

(* the match type confirm_ac_literal derives from the literal index *)
Definition mt_for (md : mods) (nl i : N) : match_type :=
  if m_ascii md then
    if m_wide md then if nl / 2 <=? i then MtWideAlternate else MtAscii else MtAscii
  else if m_wide md then MtWideStandard else MtAscii.

Lemma confirm_inv v mem s e i t :
  confirm_ac_literal v mem s e i = Some t ->
  exists lit, nnth_opt i (mt_literals v) = Some lit
    /\ (if m_nocase (mt_mods v) then eq_nocase lit (slice s e mem) else bytes_eqb lit (slice s e mem)) = true
    /\ t = mt_for (mt_mods v) (nlen (mt_literals v)) i.
Proof.
  unfold confirm_ac_literal, mt_for. destruct (nnth_opt i (mt_literals v)) as [lit|]; [|discriminate].
  destruct (if m_nocase (mt_mods v) then eq_nocase lit (slice s e mem) else bytes_eqb lit (slice s e mem)) eqn:E;
    [|discriminate].
  intros H. inversion H. exists lit. auto.
Qed.

Lemma confirm_intro v mem s e i lit :
  nnth_opt i (mt_literals v) = Some lit ->
  (if m_nocase (mt_mods v) then eq_nocase lit (slice s e mem) else bytes_eqb lit (slice s e mem)) = true ->
  confirm_ac_literal v mem s e i = Some (mt_for (mt_mods v) (nlen (mt_literals v)) i).
Proof.
  intros H1 H2. unfold confirm_ac_literal, mt_for. rewrite H1, H2. reflexivity.
Qed.

(* ------------------------------------------------------------------ small facts *)
Lemma string_to_wide_widen s : string_to_wide s = widen s.
Proof.
  unfold string_to_wide. induction s as [|b s IH]; cbn [flat_map widen app]; [reflexivity|]. now rewrite IH.
Qed.

Lemma c_ascii_eff d : c_ascii d = eff_ascii d.
Proof. unfold c_ascii, eff_ascii. destruct (t_wide d), (t_ascii d); reflexivity. Qed.

Lemma widen_nonempty s : s <> [] -> widen s <> [].
Proof. destruct s; [congruence | discriminate]. Qed.

Lemma xor_bytes_nonempty k s : s <> [] -> xor_bytes k s <> [].
Proof. destruct s; [congruence | discriminate]. Qed.

Lemma nnth_opt_app {A} i (a b : list A) :
  nnth_opt i (a ++ b) = if i <? nlen a then nnth_opt i a else nnth_opt (i - nlen a) b.
Proof.
  unfold nnth_opt, nlen. destruct (i <? N.of_nat (length a)) eqn:E.
  - apply nth_error_app1. lia.
  - rewrite nth_error_app2 by lia. f_equal. lia.
Qed.

Lemma nth_error_iota_nat n : forall s i, nth_error (iota_nat s n) i = if (i <? n)%nat then Some (s + N.of_nat i) else None.
Proof.
  induction n as [|n IH]; intros s i; cbn [iota_nat].
  - destruct i; reflexivity.
  - destruct i as [|i]; cbn [nth_error].
    + change (0 <? S n)%nat with true. cbn iota. f_equal. lia.
    + rewrite IH. destruct (Nat.ltb_spec i n), (Nat.ltb_spec (S i) (S n)); try lia; [f_equal; lia | reflexivity].
Qed.

Lemma nnth_opt_map_iota {B} (f : N -> B) lo n i :
  nnth_opt i (map f (iota lo n)) = if i <? n then Some (f (lo + i)) else None.
Proof.
  unfold nnth_opt, iota. rewrite nth_error_map, nth_error_iota_nat.
  destruct (Nat.ltb_spec (N.to_nat i) (N.to_nat n)), (N.ltb_spec i n); try lia; cbn [option_map].
  - do 2 f_equal. lia.
  - reflexivity.
Qed.

Lemma nnth_opt_In {A} i (l : list A) x : nnth_opt i l = Some x -> In x l.
Proof. apply nth_error_In. Qed.

Lemma In_nnth_opt {A} (l : list A) x : In x l -> exists i, nnth_opt i l = Some x.
Proof.
  intros H. apply In_nth_error in H as [n Hn]. exists (N.of_nat n). unfold nnth_opt. now rewrite Nnat.Nat2N.id.
Qed.

Lemma nnth_opt_single {A} i (x y : A) : nnth_opt i [x] = Some y -> i = 0 /\ y = x.
Proof.
  unfold nnth_opt. destruct (N.to_nat i) as [|[|n]] eqn:E; cbn [nth_error]; try discriminate.
  intros H. inversion H. split; [lia | reflexivity].
Qed.

(* ------------------------------------------------------------------ the link between literal i and an encoding *)
Definition link (d : tdecl) (i : N) (e : enc) : Prop :=
  nnth_opt i (new_bytes_literals d) = Some (e_bytes e)
  /\ get_xor_key (text_matcher d) i = e_key e
  /\ (t_fullword d = true ->
      mt_is_wide (mt_for (new_bytes_mods d) (nlen (new_bytes_literals d)) i) = e_wide e).

Definition mk_enc (f : bytes * bool) (k : N) : enc :=
  {| e_bytes := xor_bytes k (fst f); e_key := k; e_wide := snd f |}.

Section Xor.
  Variables (d : tdecl) (lo hi : N).
  Hypothesis Hx : t_xor d = Some (lo, hi).
  Hypothesis Hr : lo <= hi < 256.
  Let K := hi + 1 - lo.

  Lemma xor_lits : new_bytes_literals d
    = flat_map (fun lit => map (fun k => xor_bytes k lit) (iota lo K)) (base_literals d).
  Proof. unfold new_bytes_literals. rewrite Hx. reflexivity. Qed.

  Lemma xor_encs : enc_set d = flat_map (fun f => map (mk_enc f) (iota lo K)) (plain_forms d).
  Proof. unfold enc_set. rewrite Hx. reflexivity. Qed.

  Lemma xor_start : m_xor_start (new_bytes_mods d) = Some lo.
  Proof. unfold new_bytes_mods. cbn [m_xor_start]. now rewrite Hx. Qed.

  (* one plain form *)
  Lemma link_one (a : bytes) (w : bool) i :
    base_literals d = [a] -> plain_forms d = [(a, w)] ->
    (t_wide d && c_ascii d = false) ->
    (mt_is_wide (mt_for (new_bytes_mods d) (nlen (new_bytes_literals d)) i) = w) ->
    i < K -> link d i (mk_enc (a, w) (lo + i)).
  Proof.
    intros Hb Hf Hnb Hw Hi. unfold link. rewrite xor_lits, Hb. cbn [flat_map]. rewrite app_nil_r.
    rewrite nnth_opt_map_iota. replace (i <? K) with true by lia. cbn [mk_enc e_bytes e_key e_wide fst snd].
    split; [reflexivity|]. split; [|intros _; rewrite xor_lits, Hb in Hw; cbn [flat_map] in Hw;
                                    rewrite app_nil_r in Hw; exact Hw].
    unfold get_xor_key, text_matcher, literals_matcher. cbn [mt_mods mt_literals].
    rewrite xor_start. cbn [new_bytes_mods m_wide m_ascii]. rewrite Hnb.
    rewrite (N.mod_small i 256) by lia. rewrite N.mod_small by lia. reflexivity.
  Qed.

  (* two plain forms: ascii half first, wide half second *)
  Lemma link_two (a w : bytes) i :
    base_literals d = [a; w] -> plain_forms d = [(a, false); (w, true)] ->
    t_wide d = true -> c_ascii d = true ->
    i < 2 * K ->
    link d i (if i <? K then mk_enc (a, false) (lo + i) else mk_enc (w, true) (lo + (i - K))).
  Proof.
    intros Hb Hf Hw Ha Hi.
    assert (HL : new_bytes_literals d
                 = map (fun k => xor_bytes k a) (iota lo K) ++ map (fun k => xor_bytes k w) (iota lo K)).
    { rewrite xor_lits, Hb. cbn [flat_map]. now rewrite app_nil_r. }
    assert (Hlen : nlen (new_bytes_literals d) = 2 * K).
    { rewrite HL, nlen_app, !nlen_map, nlen_iota. lia. }
    unfold link. rewrite Hlen. rewrite HL at 1. rewrite nnth_opt_app, nlen_map, nlen_iota.
    unfold get_xor_key, text_matcher, literals_matcher. cbn [mt_mods mt_literals].
    rewrite xor_start, Hlen. unfold mt_for. cbn [new_bytes_mods m_wide m_ascii]. rewrite Hw, Ha. cbn [andb].
    replace (2 * K / 2) with K by lia.
    destruct (i <? K) eqn:E.
    - rewrite nnth_opt_map_iota, E. cbn [mk_enc e_bytes e_key e_wide fst snd].
      replace (K <=? i) with false by lia.
      split; [reflexivity|]. split; [|reflexivity].
      rewrite (N.mod_small i 256) by lia. rewrite N.mod_small by lia. reflexivity.
    - rewrite nnth_opt_map_iota. replace (i - K <? K) with true by lia.
      cbn [mk_enc e_bytes e_key e_wide fst snd]. replace (K <=? i) with true by lia.
      split; [reflexivity|]. split; [|reflexivity].
      rewrite (N.mod_small (i - K) 256) by lia. rewrite N.mod_small by lia. reflexivity.
  Qed.

  Lemma xor_lits_len : nlen (new_bytes_literals d) = nlen (base_literals d) * K.
  Proof.
    rewrite xor_lits. induction (base_literals d) as [|a l IH]; cbn [flat_map]; [reflexivity|].
    rewrite nlen_app, IH, nlen_map, nlen_iota, nlen_cons. lia.
  Qed.

  Lemma nnth_opt_lt {A} i (l : list A) x : nnth_opt i l = Some x -> i < nlen l.
  Proof.
    unfold nnth_opt, nlen. intros H. assert (nth_error l (N.to_nat i) <> None) by congruence.
    apply nth_error_Some in H0. lia.
  Qed.

  Theorem xor_lit_to_enc i lit :
    nnth_opt i (new_bytes_literals d) = Some lit -> exists e, In e (enc_set d) /\ link d i e.
  Proof.
    intros Hi. pose proof (nnth_opt_lt _ _ _ Hi) as Hlt. rewrite xor_lits_len in Hlt.
    rewrite xor_encs. unfold base_literals, plain_forms in *. rewrite <- c_ascii_eff.
    destruct (t_wide d) eqn:Ew; [destruct (c_ascii d) eqn:Ea|].
    - (* ascii + wide *)
      change (nlen [t_text d; string_to_wide (t_text d)]) with 2 in Hlt.
      pose proof (link_two (t_text d) (widen (t_text d)) i) as Hl.
      unfold base_literals, plain_forms in Hl. rewrite <- c_ascii_eff, Ew, Ea, string_to_wide_widen in Hl.
      specialize (Hl eq_refl eq_refl eq_refl eq_refl Hlt).
      eexists. split; [|exact Hl]. cbn [app flat_map]. rewrite app_nil_r. apply in_or_app.
      destruct (i <? K) eqn:E; [left | right]; apply in_map; apply in_iota; lia.
    - (* wide only *)
      change (nlen [string_to_wide (t_text d)]) with 1 in Hlt.
      pose proof (link_one (widen (t_text d)) true i) as Hl.
      unfold base_literals, plain_forms in Hl. rewrite <- c_ascii_eff, Ew, Ea, string_to_wide_widen in Hl.
      assert (Hi' : i < K) by lia.
      specialize (Hl eq_refl eq_refl eq_refl).
      eexists. split; [|apply Hl; [|exact Hi']].
      + cbn [app flat_map]. rewrite app_nil_r. apply in_map. apply in_iota. lia.
      + unfold mt_for. cbn [new_bytes_mods m_ascii m_wide]. now rewrite Ea, Ew.
    - (* ascii only *)
      change (nlen [t_text d]) with 1 in Hlt.
      pose proof (link_one (t_text d) false i) as Hl.
      unfold base_literals, plain_forms, c_ascii in Hl. unfold eff_ascii in Hl. rewrite Ew in Hl.
      rewrite orb_true_r in Hl.
      assert (Hi' : i < K) by lia.
      specialize (Hl eq_refl eq_refl eq_refl).
      unfold c_ascii. rewrite Ew.
      eexists. split; [|apply Hl; [|exact Hi']].
      + cbn [app flat_map]. rewrite app_nil_r. apply in_map. apply in_iota. lia.
      + unfold mt_for. cbn [new_bytes_mods m_ascii m_wide]. unfold c_ascii. now rewrite Ew.
  Qed.

  Theorem xor_enc_to_lit e : In e (enc_set d) -> exists i, link d i e.
  Proof.
    rewrite xor_encs. unfold plain_forms. rewrite <- c_ascii_eff.
    destruct (t_wide d) eqn:Ew; [destruct (c_ascii d) eqn:Ea|].
    - cbn [app flat_map]. rewrite app_nil_r. intros H. apply in_app_or in H.
      pose proof (link_two (t_text d) (widen (t_text d))) as Hl.
      unfold base_literals, plain_forms in Hl. rewrite <- c_ascii_eff, Ew, Ea, string_to_wide_widen in Hl.
      destruct H as [H|H]; apply in_map_iff in H as (k & <- & Hk); apply in_iota in Hk.
      + exists (k - lo). specialize (Hl (k - lo) eq_refl eq_refl eq_refl eq_refl).
        replace (k - lo <? K) with true in Hl by lia. replace (lo + (k - lo)) with k in Hl by lia.
        apply Hl. lia.
      + exists (K + (k - lo)). specialize (Hl (K + (k - lo)) eq_refl eq_refl eq_refl eq_refl).
        replace (K + (k - lo) <? K) with false in Hl by lia.
        replace (lo + (K + (k - lo) - K)) with k in Hl by lia. apply Hl. lia.
    - cbn [app flat_map]. rewrite app_nil_r. intros H.
      apply in_map_iff in H as (k & <- & Hk); apply in_iota in Hk.
      pose proof (link_one (widen (t_text d)) true (k - lo)) as Hl.
      unfold base_literals, plain_forms in Hl. rewrite <- c_ascii_eff, Ew, Ea, string_to_wide_widen in Hl.
      exists (k - lo). replace (lo + (k - lo)) with k in Hl by lia.
      apply Hl; try reflexivity; [|lia].
      unfold mt_for. cbn [new_bytes_mods m_ascii m_wide]. now rewrite Ea, Ew.
    - unfold c_ascii. rewrite Ew. cbn [app flat_map]. rewrite app_nil_r. intros H.
      apply in_map_iff in H as (k & <- & Hk); apply in_iota in Hk.
      pose proof (link_one (t_text d) false (k - lo)) as Hl.
      unfold base_literals, plain_forms, c_ascii in Hl. unfold eff_ascii in Hl. rewrite Ew in Hl.
      rewrite orb_true_r in Hl.
      exists (k - lo). replace (lo + (k - lo)) with k in Hl by lia.
      apply Hl; try reflexivity; [|lia].
      unfold mt_for. cbn [new_bytes_mods m_ascii m_wide]. unfold c_ascii. now rewrite Ew.
  Qed.
End Xor.

(* ------------------------------------------------------------------ plain strings (no xor, no base64) *)
Definition mk_plain (f : bytes * bool) : enc := {| e_bytes := fst f; e_key := 0; e_wide := snd f |}.

Section Plain.
  Variable d : tdecl.
  Hypothesis Hx : t_xor d = None.
  Hypothesis Hb : t_b64 d = None.

  Lemma plain_lits : new_bytes_literals d = base_literals d.
  Proof. unfold new_bytes_literals. now rewrite Hx, Hb. Qed.

  Lemma plain_encs : enc_set d = map mk_plain (plain_forms d).
  Proof. unfold enc_set. now rewrite Hx, Hb. Qed.

  Lemma plain_key i : get_xor_key (text_matcher d) i = 0.
  Proof.
    unfold get_xor_key, text_matcher, literals_matcher. cbn [mt_mods new_bytes_mods m_xor_start]. now rewrite Hx.
  Qed.

  Lemma nnth_opt_two {A} i (a b x : A) : nnth_opt i [a; b] = Some x -> (i = 0 /\ x = a) \/ (i = 1 /\ x = b).
  Proof.
    unfold nnth_opt. destruct (N.to_nat i) as [|[|[|n]]] eqn:E; cbn [nth_error]; try discriminate;
      intros H; inversion H; [left | right]; split; auto; lia.
  Qed.

  Theorem plain_lit_to_enc i lit :
    nnth_opt i (new_bytes_literals d) = Some lit -> exists e, In e (enc_set d) /\ link d i e.
  Proof.
    unfold link. rewrite plain_encs, plain_lits, plain_key.
    unfold base_literals, plain_forms, mt_for. cbn [new_bytes_mods m_ascii m_wide]. replace (eff_ascii d) with (c_ascii d) by apply c_ascii_eff.
    rewrite ?(string_to_wide_widen (t_text d)).
    destruct (t_wide d) eqn:Ew; [destruct (c_ascii d) eqn:Ea|].
    - intros H. apply nnth_opt_two in H as [[-> ->]|[-> ->]].
      + exists (mk_plain (t_text d, false)). cbn. auto.
      + exists (mk_plain (widen (t_text d), true)). cbn. auto.
    - intros H. apply nnth_opt_single in H as [-> ->].
      exists (mk_plain (widen (t_text d), true)). cbn. auto.
    - unfold c_ascii. rewrite Ew. intros H. apply nnth_opt_single in H as [-> ->].
      exists (mk_plain (t_text d, false)). cbn. auto.
  Qed.

  Theorem plain_enc_to_lit e : In e (enc_set d) -> exists i, link d i e.
  Proof.
    unfold link. rewrite plain_encs, plain_lits.
    unfold base_literals, plain_forms, mt_for. cbn [new_bytes_mods m_ascii m_wide]. replace (eff_ascii d) with (c_ascii d) by apply c_ascii_eff.
    rewrite ?(string_to_wide_widen (t_text d)).
    destruct (t_wide d) eqn:Ew; [destruct (c_ascii d) eqn:Ea|].
    - cbn [app map In]. intros [<-|[<-|[]]].
      + exists 0. rewrite plain_key. cbn. auto.
      + exists 1. rewrite plain_key. cbn. auto.
    - cbn [app map In]. intros [<-|[]]. exists 0. rewrite plain_key. cbn. auto.
    - unfold c_ascii. rewrite Ew. cbn [app map In]. intros [<-|[]]. exists 0. rewrite plain_key. cbn. auto.
  Qed.
End Plain.

(* ------------------------------------------------------------------ base64 *)
Section B64.
  Variables (d : tdecl) (b : b64mod).
  Hypothesis Hx : t_xor d = None.
  Hypothesis Hb : t_b64 d = Some b.
  Hypothesis Hfw : t_fullword d = false.
  Hypothesis Hone : b_ascii b || b_wide b = true.
  Hypothesis Hok : b64_okb d = true.
  Let alphabet := match b_alpha b with Some a => a | None => BASE64_DEFAULT_ALPHABET end.

  Lemma b64_lits : new_bytes_literals d = b64_literals b (base_literals d).
  Proof. unfold new_bytes_literals. now rewrite Hx, Hb. Qed.

  Lemma base_literals_forms : base_literals d = map fst (plain_forms d).
  Proof.
    unfold base_literals, plain_forms. replace (eff_ascii d) with (c_ascii d) by apply c_ascii_eff. rewrite string_to_wide_widen.
    destruct (t_wide d) eqn:Ew; [destruct (c_ascii d)|]; try reflexivity.
    unfold c_ascii. now rewrite Ew.
  Qed.

  Lemma b64_agree lit off :
    In lit (base_literals d) -> In off [0; 1; 2] ->
    encode_base64 lit (b_alpha b) off = opt_of_bytes (spec_b64 alphabet lit off).
  Proof.
    intros Hl Ho. unfold b64_okb in Hok. rewrite Hb in Hok.
    rewrite forallb_forall in Hok. specialize (Hok lit Hl). rewrite forallb_forall in Hok.
    specialize (Hok off Ho). unfold opt_eqb in Hok. fold alphabet in Hok.
    destruct (encode_base64 lit (b_alpha b) off) as [x|], (opt_of_bytes (spec_b64 alphabet lit off)) as [y|];
      try discriminate; [|reflexivity].
    apply bytes_eqb_eq in Hok. now subst.
  Qed.

  (* membership in the generated literals *)
  Lemma in_b64_literals lit :
    In lit (new_bytes_literals d) <->
    exists l0 off e, In l0 (base_literals d) /\ In off [0; 1; 2] /\ spec_b64 alphabet l0 off = e /\ e <> []
      /\ ((b_ascii b = true /\ lit = e) \/ (b_wide b = true /\ lit = widen e)).
  Proof.
    rewrite b64_lits. unfold b64_literals.
    destruct (b_ascii b) eqn:Ea.
    - rewrite in_flat_map. split.
      + intros (l0 & Hl0 & H). apply in_flat_map in H as (off & Hoff & H).
        rewrite (b64_agree l0 off Hl0 Hoff) in H. unfold opt_of_bytes in H.
        destruct (spec_b64 alphabet l0 off) as [|c e] eqn:Es; [destruct H|].
        exists l0, off, (c :: e).
        split; [exact Hl0|]. split; [exact Hoff|]. split; [exact Es|]. split; [discriminate|].
        apply in_app_or in H as [H|H].
        * destruct (b_wide b); [|destruct H]. destruct H as [<-|[]]. right. now rewrite string_to_wide_widen.
        * destruct H as [<-|[]]. now left.
      + intros (l0 & off & e & Hl0 & Hoff & Es & Hne & H). exists l0. split; [exact Hl0|].
        apply in_flat_map. exists off. split; [exact Hoff|].
        rewrite (b64_agree l0 off Hl0 Hoff), Es. unfold opt_of_bytes. destruct e as [|c e]; [congruence|].
        apply in_or_app. destruct H as [[_ ->]|[Hw ->]].
        * right. now left.
        * left. rewrite Hw. left. now rewrite string_to_wide_widen.
    - cbn [orb] in Hone. rewrite in_flat_map. split.
      + intros (l0 & Hl0 & H). apply in_flat_map in H as (off & Hoff & H).
        rewrite (b64_agree l0 off Hl0 Hoff) in H. unfold opt_of_bytes in H.
        destruct (spec_b64 alphabet l0 off) as [|c e] eqn:Es; [destruct H|].
        destruct H as [<-|[]].
        exists l0, off, (c :: e).
        split; [exact Hl0|]. split; [exact Hoff|]. split; [exact Es|]. split; [discriminate|].
        right. now rewrite string_to_wide_widen.
      + intros (l0 & off & e & Hl0 & Hoff & Es & Hne & H). exists l0. split; [exact Hl0|].
        apply in_flat_map. exists off. split; [exact Hoff|].
        rewrite (b64_agree l0 off Hl0 Hoff), Es. unfold opt_of_bytes. destruct e as [|c e]; [congruence|].
        destruct H as [[Hc _]|[_ ->]]; [discriminate|]. left. now rewrite string_to_wide_widen.
  Qed.

  Lemma in_b64_encs x :
    In x (enc_set d) <->
    exists l0 off e, In l0 (base_literals d) /\ In off [0; 1; 2] /\ spec_b64 alphabet l0 off = e /\ e <> []
      /\ ((b_ascii b = true /\ x = {| e_bytes := e; e_key := 0; e_wide := false |})
          \/ (b_wide b = true /\ x = {| e_bytes := widen e; e_key := 0; e_wide := true |})).
  Proof.
    unfold enc_set. rewrite Hx, Hb. fold alphabet. rewrite base_literals_forms. rewrite in_flat_map. split.
    - intros (f & Hf & H). apply in_flat_map in H as (off & Hoff & H).
      destruct (spec_b64 alphabet (fst f) off) as [|c e] eqn:Es; [destruct H|].
      exists (fst f), off, (c :: e).
      split; [now apply in_map|]. split; [exact Hoff|]. split; [exact Es|]. split; [discriminate|].
      apply in_app_or in H as [H|H].
      + destruct (b_ascii b); [|destruct H]. destruct H as [<-|[]]. now left.
      + destruct (b_wide b); [|destruct H]. destruct H as [<-|[]]. now right.
    - intros (l0 & off & e & Hl0 & Hoff & Es & Hne & H).
      apply in_map_iff in Hl0 as (f & <- & Hf). exists f. split; [exact Hf|].
      apply in_flat_map. exists off. split; [exact Hoff|]. rewrite Es.
      destruct e as [|c e]; [congruence|]. apply in_or_app.
      destruct H as [[Ha ->]|[Hw ->]]; [left; rewrite Ha | right; rewrite Hw]; now left.
  Qed.

  Lemma b64_key i : get_xor_key (text_matcher d) i = 0.
  Proof.
    unfold get_xor_key, text_matcher, literals_matcher. cbn [mt_mods new_bytes_mods m_xor_start]. now rewrite Hx.
  Qed.

  Theorem b64_lit_to_enc i lit :
    nnth_opt i (new_bytes_literals d) = Some lit -> exists e, In e (enc_set d) /\ link d i e.
  Proof.
    intros Hi. pose proof (nnth_opt_In _ _ _ Hi) as Hin.
    apply in_b64_literals in Hin as (l0 & off & e & Hl0 & Hoff & Es & Hne & [[Ha ->]|[Hw ->]]).
    - exists {| e_bytes := e; e_key := 0; e_wide := false |}. split.
      + apply in_b64_encs. exists l0, off, e. repeat split; auto.
      + unfold link. cbn [e_bytes e_key e_wide]. rewrite b64_key. repeat split; auto. congruence.
    - exists {| e_bytes := widen e; e_key := 0; e_wide := true |}. split.
      + apply in_b64_encs. exists l0, off, e. repeat split; auto.
      + unfold link. cbn [e_bytes e_key e_wide]. rewrite b64_key. repeat split; auto. congruence.
  Qed.

  Theorem b64_enc_to_lit x : In x (enc_set d) -> exists i, link d i x.
  Proof.
    intros Hin. apply in_b64_encs in Hin as (l0 & off & e & Hl0 & Hoff & Es & Hne & H).
    assert (Hl : In (e_bytes x) (new_bytes_literals d)).
    { apply in_b64_literals. exists l0, off, e. repeat split; auto.
      destruct H as [[Ha ->]|[Hw ->]]; [left | right]; auto. }
    apply In_nnth_opt in Hl as [i Hi]. exists i. unfold link. rewrite b64_key.
    repeat split; auto; [|congruence].
    destruct H as [[_ ->]|[_ ->]]; reflexivity.
  Qed.
End B64.

(* ------------------------------------------------------------------ every legal declaration *)
Lemma wf_split d : wf_decl d = true ->
  t_text d <> [] /\ bytes_ok (t_text d) = true
  /\ match t_xor d with
     | Some (lo, hi) => (lo <=? hi) && (hi <? 256) && negb (t_nocase d)
                        && match t_b64 d with Some _ => false | None => true end
     | None => true
     end = true
  /\ match t_b64 d with
     | Some b => negb (t_nocase d) && negb (t_fullword d) && (b_ascii b || b_wide b)
                 && match b_alpha b with Some a => (nlen a =? 64) && bytes_ok a | None => true end
     | None => true
     end = true.
Proof.
  unfold wf_decl. intros H.
  apply andb_true_iff in H as [H H4]. apply andb_true_iff in H as [H H3]. apply andb_true_iff in H as [H1 H2].
  repeat split; auto. destruct (t_text d); [discriminate | discriminate].
Qed.

Lemma wf_text d : wf_decl d = true -> t_text d <> [].
Proof. intros H. now apply wf_split in H. Qed.

Lemma wf_xor d lo hi : wf_decl d = true -> t_xor d = Some (lo, hi) -> lo <= hi < 256 /\ t_b64 d = None /\ t_nocase d = false.
Proof.
  intros H Hx. apply wf_split in H as (_ & _ & H & _). rewrite Hx in H.
  apply andb_true_iff in H as [H H4]. apply andb_true_iff in H as [H H3]. apply andb_true_iff in H as [H1 H2].
  destruct (t_b64 d); [discriminate|]. destruct (t_nocase d); [discriminate|]. repeat split; lia.
Qed.

Lemma wf_b64 d b : wf_decl d = true -> t_b64 d = Some b ->
  t_xor d = None /\ t_fullword d = false /\ t_nocase d = false /\ b_ascii b || b_wide b = true.
Proof.
  intros H Hb. apply wf_split in H as (_ & _ & Hx & H). rewrite Hb in H, Hx.
  apply andb_true_iff in H as [H H4]. apply andb_true_iff in H as [H H3]. apply andb_true_iff in H as [H1 H2].
  destruct (t_xor d) as [[lo hi]|].
  { rewrite andb_false_r in Hx. discriminate. }
  destruct (t_fullword d); [discriminate|]. destruct (t_nocase d); [discriminate|]. auto.
Qed.

Theorem lit_to_enc d i lit :
  wf_decl d = true -> b64_okb d = true ->
  nnth_opt i (new_bytes_literals d) = Some lit -> exists e, In e (enc_set d) /\ link d i e.
Proof.
  intros Hwf Hok. destruct (t_xor d) as [[lo hi]|] eqn:Ex.
  - destruct (wf_xor d lo hi Hwf Ex) as (Hr & _ & _). now apply (xor_lit_to_enc d lo hi Ex Hr).
  - destruct (t_b64 d) as [b|] eqn:Eb.
    + destruct (wf_b64 d b Hwf Eb) as (_ & Hfw & _ & Hone). now apply (b64_lit_to_enc d b Ex Eb Hfw Hone Hok).
    + now apply plain_lit_to_enc.
Qed.

Theorem enc_to_lit d e :
  wf_decl d = true -> b64_okb d = true -> In e (enc_set d) -> exists i, link d i e.
Proof.
  intros Hwf Hok. destruct (t_xor d) as [[lo hi]|] eqn:Ex.
  - destruct (wf_xor d lo hi Hwf Ex) as (Hr & _ & _). now apply (xor_enc_to_lit d lo hi Ex Hr).
  - destruct (t_b64 d) as [b|] eqn:Eb.
    + destruct (wf_b64 d b Hwf Eb) as (_ & Hfw & _ & Hone). now apply (b64_enc_to_lit d b Ex Eb Hfw Hone Hok).
    + now apply plain_enc_to_lit.
Qed.

(* encodings are never empty *)
Theorem enc_nonempty d e : wf_decl d = true -> In e (enc_set d) -> e_bytes e <> [].
Proof.
  intros Hwf. pose proof (wf_text d Hwf) as Ht.
  assert (Hforms : forall f, In f (plain_forms d) -> fst f <> []).
  { unfold plain_forms. intros f Hf. apply in_app_or in Hf as [Hf|Hf].
    - destruct (eff_ascii d); [|destruct Hf]. destruct Hf as [<-|[]]. exact Ht.
    - destruct (t_wide d); [|destruct Hf]. destruct Hf as [<-|[]]. now apply widen_nonempty. }
  unfold enc_set. destruct (t_xor d) as [[lo hi]|].
  - intros H. apply in_flat_map in H as (f & Hf & H). apply in_map_iff in H as (k & <- & _).
    cbn [e_bytes]. apply xor_bytes_nonempty. auto.
  - destruct (t_b64 d) as [b|].
    + intros H. apply in_flat_map in H as (f & Hf & H). apply in_flat_map in H as (off & _ & H).
      destruct (spec_b64 _ (fst f) off) as [|c x] eqn:Es; [destruct H|].
      apply in_app_or in H as [H|H].
      * destruct (b_ascii b); [|destruct H]. destruct H as [<-|[]]. discriminate.
      * destruct (b_wide b); [|destruct H]. destruct H as [<-|[]]. discriminate.
    + intros H. apply in_map_iff in H as (f & <- & Hf). cbn [e_bytes]. auto.
Qed.
